"""C33 — {% trans %} blocks rendered with identity translations reproduce the
block text with variables substituted (escaped under autoescape), choose the
singular/plural form by the count, and every message handed to a gettext
function at render time is among the messages extracted from the template
(extract_from_ast and babel_extract with the same options)."""
from __future__ import annotations

import io
import re

PID = "C33"
LEVEL = "exploration"
TECHNIQUE = ("reference model of the documented trans-block semantics + recording identity "
             "translations + extraction membership check")
RULE = ("case = (generated trans block [context string, trimmed/notrimmed, 0-3 bindings: bare / "
        "name=var / attr / filter / const / call, text pieces with % %% %s %(x)s { } newlines "
        "markup, pluralize with every documented way the count is determined: `{% pluralize name %}` "
        "naming any bound variable, else the first binding (bindings in random, non-alphabetical order), "
        "else - no binding - the first variable USED in the singular text among 1-4 free variables whose "
        "order of use is independent of their alphabetical order and whose values (often counts too) "
        "disagree about singular / plural; whitespace control on the tags, optional "
        "documentation-style layout: text starts on the line after the tag, closing/pluralize tag "
        "indented on its own line], wrapper [plain/if/for/macro/block/{% autoescape true|false|"
        "runtime flag %}], data) x (old|new style) x (env autoescape on|off) x (policy "
        "ext.i18n.trimmed on|off) x (trim_blocks, lstrip_blocks in all 4 combinations, set on the "
        "environment and passed as options to babel_extract); + a table of gettext/ngettext/pgettext/npgettext expression "
        "calls. distinct = distinct (style, autoescape, policy, ctx?, trim flag, binding kinds, "
        "plural mode, text feature set, wrapper, tag whitespace control, lexer options, layout) "
        "tuples of blocks with a non-empty singular body")
LEVEL_TEXT = ("held (modulo listed known findings) on K generated block renders: output == model "
              "text (variables escaped iff autoescaping is in force at the block, incl. constant and "
              "runtime {% autoescape %} overrides), recorded count argument == model count, every "
              "runtime message in extract_from_ast(env.parse) and in babel_extract called with the "
              "environment's trimmed / newstyle / trim_blocks / lstrip_blocks options; default "
              "delimiters, generated blocks only")
ASSUMPTIONS = [
    "identity translations: gettext(m)=m, ngettext(s,p,n)= s if n==1 else p (gettext.NullTranslations semantics)",
    "implicit plural count is only generated where 'first variable in a block' is unambiguous: the first "
    "binding is also the first variable used in the singular text, or there are no bindings and the count is "
    "the first variable used in the singular text (any number of other free variables after it)",
    "binding expressions are pure; values are str/int/float/Markup/None",
    "lstrip_blocks is only credited with removing spaces/tabs that follow a line break inside the same "
    "text run (the documented 'from the start of a line to a block'); trim_blocks with one '\\n' "
    "directly after a block tag; other line-break forms and custom delimiters are not generated",
    "{% autoescape expr %} with a runtime value is taken to work like the documented constant forms",
]
NSHARDS = {"quick": 16, "thorough": 16}
BUDGET_S = {"quick": 12, "thorough": 300}
FLOORS = {
    # quick is time-boxed: 19k-33k evaluations on a machine loaded 3x, more when idle
    "quick": {"evaluations": 4500, "distinct": 4000,
              "counters": {"render_checks": 4400, "extract_ast_checks": 5000,
                           "extract_babel_checks": 5000, "plural_blocks": 2000,
                           "count_arg_checks": 2200, "style:old": 2200, "style:new": 2200,
                           "count_mode:pluralize-parameter": 500, "count_mode:first-binding": 500,
                           "count_mode:first-used-free-variable": 500, "count_free_multi": 450,
                           "count_free_first_used_not_alphabetically_first": 280,
                           "count_free_other_variable_disagrees_on_form": 240,
                           "count_free_alphabetically_earlier_variable_disagrees_on_form": 130,
                           "count_bound_not_alphabetically_first": 350,
                           "autoescape_on": 2200, "trimmed_effective": 2200, "ctx_blocks": 2200,
                           "pct_blocks": 2200, "exprcall_checks": 200,
                           "lexopt_exactly_one": 2200, "lexopt_exactly_one+layout": 700,
                           "layout_blocks": 1400, "autoescape_override_blocks": 1700,
                           "autoescape_runtime_differs_from_env": 400,
                           "autoescape_runtime_differs:old+refs": 120}},
    # thorough: 1.70M evaluations / 817k distinct (count-bounded) at load ~1x,
    # 571k / 340k (time-boxed) at load ~5x; floors = 1/4 of the latter
    "thorough": {"evaluations": 150000, "distinct": 85000,
                 "counters": {"render_checks": 150000, "extract_ast_checks": 165000,
                              "extract_babel_checks": 165000, "plural_blocks": 64000,
                              "count_arg_checks": 75000, "style:old": 70000, "style:new": 70000,
                              "count_mode:pluralize-parameter": 14000,
                              "count_mode:first-binding": 14000,
                              "count_mode:first-used-free-variable": 14000,
                              "count_free_multi": 11000,
                              "count_free_first_used_not_alphabetically_first": 7000,
                              "count_free_other_variable_disagrees_on_form": 6000,
                              "count_free_alphabetically_earlier_variable_disagrees_on_form": 3300,
                              "count_bound_not_alphabetically_first": 8500,
                              "autoescape_on": 70000, "trimmed_effective": 70000,
                              "ctx_blocks": 70000, "pct_blocks": 70000, "exprcall_checks": 200,
                              "lexopt_exactly_one": 70000, "lexopt_exactly_one+layout": 24000,
                              "layout_blocks": 48000, "autoescape_override_blocks": 55000,
                              "autoescape_runtime_differs_from_env": 13000,
                              "autoescape_runtime_differs:old+refs": 4000}},
}

NAMES = ["user", "count", "num", "n", "title", "who", "x"]
TEXTS = ["Hello ", "world", " ", "100%", "%", "%%", "%s", "%(x)s", "%(user)s", "%d items", "{", "}",
         "\n", "\n    ", "  \n  ", "\t", "<b>", "</b>", "&", "a & b", "it's", '"q"', "é", ".", ", ",
         "There is ", " object", "s", "1 apple", " apples", "%)", "50 % off", "% (", "{x}", "#", "\\"]
STR_VALS = ["World", "<b>x</b>", "a&b", "50%", "%s", "{x}", "it's", "", "é", "%(user)s", "two\nlines",
            " pad ", '"']


def make_value(rec):
    k = rec[0]
    if k == "markup":
        from markupsafe import Markup

        return Markup(rec[1])
    if k == "none":
        return None
    if k == "obj":
        class O:
            pass

        o = O()
        o.name = make_value(rec[1])
        return o
    if k == "list":
        return list(rec[1])
    return rec[1]


def gen_scalar(r, count=False):
    if count:
        return r.choice([["int", 0], ["int", 1], ["int", 1], ["int", 2], ["int", 5], ["int", 11],
                         ["float", 1.0], ["float", 2.5], ["int", -1]])
    k = r.random()
    if k < 0.5:
        return ["str", r.choice(STR_VALS)]
    if k < 0.75:
        return ["int", r.choice([0, 1, 2, 5, 11])]
    if k < 0.85:
        return ["markup", r.choice(["<i>m</i>", "ok", "50%"])]
    if k < 0.92:
        return ["float", r.choice([1.5, 1.0])]
    return ["none"]


def gen_block(r):
    data = {}
    binds = []
    nb = r.choice([0, 0, 1, 1, 2, 3])
    names = r.sample(NAMES, nb)
    plural = r.random() < 0.45
    explicit = plural and nb > 0 and r.random() < 0.5
    plvar = r.choice(names) if explicit else None
    free = [n for n in NAMES if n not in names]
    # free variables of the body (not bound in the tag), in the order of r.sample: the order of
    # first use in the text is independent of the alphabetical order of the names
    body_free = r.sample(free, r.choice([0, 0, 1, 2]))
    if plural and nb == 0:
        # no binding and no explicit pluralize variable: the count is the first variable USED in
        # the singular text; 1-4 free variables, so the first used one is usually not the
        # alphabetically first (nor the last) of the block's names
        body_free = r.sample(free, r.choice([1, 2, 2, 3, 3, 4]))
    # which name decides the plural
    if plural:
        count_name = plvar or (names[0] if names else body_free[0])
    else:
        count_name = None
    for i, n in enumerate(names):
        is_count = n == count_name
        kind = r.choice(["bare", "var", "attr", "filter", "const", "call", "len"])
        if kind == "bare":
            data[n] = gen_scalar(r, is_count)
            binds.append([n, "bare", None])
        elif kind == "var":
            data["src_" + n] = gen_scalar(r, is_count)
            binds.append([n, "var", "src_" + n])
        elif kind == "attr":
            data["obj_" + n] = ["obj", gen_scalar(r, is_count)]
            binds.append([n, "attr", "obj_" + n + ".name"])
        elif kind == "filter":
            if is_count:
                data["src_" + n] = gen_scalar(r, True)
                binds.append([n, "filter_abs", "src_" + n + "|abs"])
            else:
                data["src_" + n] = ["str", r.choice(["World", "<b>x</b>", "a&b", "50%", "é"])]
                binds.append([n, "filter_upper", "src_" + n + "|upper"])
        elif kind == "const":
            if is_count:
                v = r.choice([0, 1, 2, 7])
                binds.append([n, "const", repr(v), ["int", v]])
            else:
                v = r.choice(["lit", "<i>", "9%"])
                binds.append([n, "const", repr(v), ["str", v]])
        elif kind == "call":
            data["src_" + n] = gen_scalar(r, is_count)
            binds.append([n, "call", "ident(src_" + n + ")"])
        else:
            lst = list(range(r.choice([0, 1, 1, 2, 3])))
            data["lst_" + n] = ["list", lst]
            binds.append([n, "len", "lst_" + n + "|length"])
    for n in body_free:
        # in a plural block the other free variables are often counts too, with values that
        # disagree with the count about singular / plural
        data[n] = gen_scalar(r, n == count_name or (plural and r.random() < 0.6))

    usable = names + body_free
    multi_free = plural and nb == 0 and len(body_free) > 1

    def body(first=None):
        out = []
        if first is not None:
            if r.random() < 0.6:
                out.append(["t", r.choice(TEXTS)])
            out.append(["v", first, ""])
            for n in usable:
                # every other free variable of a binding-less plural block is used after it
                if multi_free and n != first and r.random() < 0.8:
                    out.append(["t", r.choice(TEXTS)])
                    out.append(["v", n, ""])
        for _ in range(r.randint(0 if first else 1, 4)):
            if usable and r.random() < 0.4:
                out.append(["v", r.choice(usable), r.choice(["", "", "", "-", "l", "r"])])
            else:
                out.append(["t", r.choice(TEXTS)])
        return out

    # implicit count: the first variable of the singular text must be the
    # count (first binding / first free name), to keep "first variable in a
    # block" unambiguous
    need_first = None
    if plural and not explicit:
        need_first = count_name
    if r.random() < 0.15 and (not plural or explicit or nb > 0):
        usable_save, usable = usable, []   # block without any variable reference
        sing = body()
        plur = body() if plural else None
        usable = usable_save
    else:
        sing = body(need_first)
        plur = body() if plural else None
    ws = {k: r.random() < 0.12 for k in ("trans_r", "plur_l", "plur_r", "end_l")}
    # the layout of the documentation's examples: the text starts on the line
    # after the tag and the closing / pluralize tag is indented on its own line
    layout = r.random() < 0.35
    if layout:
        ind = r.choice(["", "  ", "    ", "\t"])
        sing = [["t", "\n" + ind]] + sing + [["t", "\n" + r.choice(["", ind, "  "])]]
        if plur is not None:
            plur = [["t", "\n" + ind]] + plur + [["t", "\n" + r.choice(["", ind, "\t"])]]
    wrap = r.choice(["plain", "plain", "if", "for", "macro", "block", "ae-true", "ae-false",
                     "ae-dyn", "ae-dyn"])
    if wrap == "ae-dyn":
        # {% autoescape expr %} with a value only known at render time
        data["ae_flag"] = ["bool", r.random() < 0.5]
    return {
        "ctx": r.choice([None, None, None, "fruit", "ctx % s", "menu"]),
        "trim": r.choice([None, None, "trimmed", "notrimmed"]),
        "binds": binds, "sing": sing, "plur": plur, "plvar": plvar,
        "count_name": count_name, "ws": ws, "layout": layout,
        "wrap": wrap,
        "data": data,
    }


def effective_autoescape(b, env_autoescape):
    """Autoescaping in force at the trans block (docs/templates.rst
    'Autoescape Overrides')."""
    w = b["wrap"]
    if w == "ae-true":
        return True
    if w == "ae-false":
        return False
    if w == "ae-dyn":
        return bool(b["data"]["ae_flag"][1])
    return env_autoescape


def block_source(b):
    head = "trans"
    if b["ctx"] is not None:
        head += ' "' + b["ctx"] + '"'
    if b["trim"]:
        head += " " + b["trim"]
    bs = []
    for bd in b["binds"]:
        bs.append(bd[0] if bd[1] == "bare" else f"{bd[0]}={bd[2]}")
    if bs:
        head += " " + ", ".join(bs)

    def body(pieces):
        out = []
        for p in pieces:
            if p[0] == "t":
                t = p[1]
                out.append(t + " " if t.endswith("{") else t)
            else:
                ws = p[2]
                out.append("{{" + ("-" if ws in ("-", "l") else "") + " " + p[1] + " " +
                           ("-" if ws in ("-", "r") else "") + "}}")
        return "".join(out)

    ws = b["ws"]
    s = "{% " + head + (" -%}" if ws["trans_r"] else " %}") + body(b["sing"])
    if b["plur"] is not None:
        s += ("{%- " if ws["plur_l"] else "{% ") + "pluralize" + \
            (" " + b["plvar"] if b["plvar"] else "") + (" -%}" if ws["plur_r"] else " %}") + \
            body(b["plur"])
    s += ("{%- " if ws["end_l"] else "{% ") + "endtrans %}"
    w = b["wrap"]
    if w == "if":
        s = "{% if yes %}" + s + "{% endif %}"
    elif w == "for":
        s = "{% for _i in two %}" + s + "{% endfor %}"
    elif w == "macro":
        s = "{% macro mm() %}" + s + "{% endmacro %}{{ mm() }}"
    elif w == "block":
        s = "{% block bb %}" + s + "{% endblock %}"
    elif w in ("ae-true", "ae-false"):
        s = "{% autoescape " + w[3:] + " %}" + s + "{% endautoescape %}"
    elif w == "ae-dyn":
        s = "{% autoescape ae_flag %}" + s + "{% endautoescape %}"
    return "A|" + s + "|Z"


_trim_re = re.compile(r"\s*\n\s*")


_lstrip_re = re.compile(r"\n[ \t]*\Z")


def model(b, autoescape, policy_trimmed, variant="spec", lex=(False, False)):
    """-> (expected output of the whole template, count value or None, nforms).
    variant selects deviation models used only to *name* a mismatch.
    lex = (trim_blocks, lstrip_blocks) of the environment."""
    from markupsafe import Markup, escape

    autoescape = effective_autoescape(b, autoescape)
    trim_blocks, lstrip_blocks = lex

    data = {k: make_value(v) for k, v in b["data"].items()}
    vals = {}
    for bd in b["binds"]:
        n, kind = bd[0], bd[1]
        if kind == "bare":
            vals[n] = data[n]
        elif kind == "var":
            vals[n] = data[bd[2]]
        elif kind == "attr":
            vals[n] = data[bd[2].split(".")[0]].name
        elif kind == "filter_abs":
            vals[n] = abs(data[bd[2].split("|")[0]])
        elif kind == "filter_upper":
            v = data[bd[2].split("|")[0]]
            vals[n] = v.upper()
        elif kind == "const":
            vals[n] = make_value(bd[3])
        elif kind == "call":
            vals[n] = data[bd[2][len("ident("):-1]]
        elif kind == "len":
            vals[n] = len(data[bd[2].split("|")[0]])
    for k, v in data.items():
        vals.setdefault(k, v)
    count = vals[b["count_name"]] if b["count_name"] else None
    if b["plur"] is None:
        form = b["sing"]
    else:
        sing = count == 1
        if variant == "swap-form":
            sing = not sing
        form = b["sing"] if sing else b["plur"]
    ws = b["ws"]
    is_sing = form is b["sing"]
    # lexer-level whitespace control on the data adjacent to the tags
    pieces = [["t", p[1] + " " if p[1].endswith("{") else p[1]] if p[0] == "t" else list(p)
              for p in form]
    merged = []
    for p in pieces:
        if p[0] == "t" and merged and merged[-1][0] == "t":
            merged[-1][1] += p[1]
        else:
            merged.append(p)
    # text directly before the pluralize / endtrans tag: '-' strips all
    # whitespace; lstrip_blocks strips "tabs and spaces from the beginning of
    # a line to the start of a block" (decided on the source text, i.e. before
    # trim_blocks removes anything)
    if merged and merged[-1][0] == "t":
        if (is_sing and b["plur"] is not None and ws["plur_l"]) or \
                ((not is_sing or b["plur"] is None) and ws["end_l"]):
            merged[-1][1] = merged[-1][1].rstrip()
        elif lstrip_blocks:
            m = _lstrip_re.search(merged[-1][1])
            if m:
                merged[-1][1] = merged[-1][1][:m.start() + 1]
    # text directly after the trans / pluralize tag: '-' strips all whitespace;
    # trim_blocks removes "the first newline after a template tag"
    if merged and merged[0][0] == "t":
        if (is_sing and ws["trans_r"]) or (not is_sing and ws["plur_r"]):
            merged[0][1] = merged[0][1].lstrip()
        elif trim_blocks and merged[0][1].startswith("\n"):
            merged[0][1] = merged[0][1][1:]
    for i, p in enumerate(merged):
        if p[0] == "v" and p[2]:
            if p[2] in ("-", "l") and i > 0 and merged[i - 1][0] == "t":
                merged[i - 1][1] = merged[i - 1][1].rstrip()
            if p[2] in ("-", "r") and i + 1 < len(merged) and merged[i + 1][0] == "t":
                merged[i + 1][1] = merged[i + 1][1].lstrip()
    trimmed = (b["trim"] == "trimmed") if b["trim"] else policy_trimmed
    if variant == "flip-trim":
        trimmed = not trimmed
    if trimmed:
        # "replace all linebreaks and the whitespace surrounding them with a
        # single space and remove leading and trailing whitespace"
        s = "".join(p[1] if p[0] == "t" else "\0" + p[1] + "\0" for p in merged)
        s = _trim_re.sub(" ", s.strip())
        parts = s.split("\0")
        merged = [["t", x] if i % 2 == 0 else ["v", x, ""] for i, x in enumerate(parts)]
    out = []
    for p in merged:
        if p[0] == "t":
            t = p[1]
            if variant == "pct-halved":
                t = t.replace("%%", "%")
            elif variant == "pct-doubled":
                t = t.replace("%", "%%")
            out.append(t)
        else:
            v = vals[p[1]]
            esc = autoescape if variant != "flip-escape" else not autoescape
            out.append(str(escape(v)) if esc else str(v))
    text = "".join(out)
    if variant == "escape-all" and autoescape:
        text = str(escape(text))
    if variant == "m1-old-unreferenced":
        # deviation model of a known finding: old style, bindings present but
        # none used in the text -> the (already un-escaped) text is still run
        # through "%" formatting with the bindings
        bound = {bd[0]: vals[bd[0]] for bd in b["binds"]}
        text = str((Markup(text) if autoescape else text) % bound)
    if b["wrap"] == "for":
        text = text * 2
    return "A|" + text + "|Z", count, (1 if b["plur"] is None else 2)


class Recorder:
    def __init__(self):
        self.calls = []

    def gettext(self, m):
        self.calls.append(("gettext", (m,), None))
        return m

    def ngettext(self, s, p, n):
        self.calls.append(("ngettext", (s, p), n))
        return s if n == 1 else p

    def pgettext(self, c, m):
        self.calls.append(("pgettext", (c, m), None))
        return m

    def npgettext(self, c, s, p, n):
        self.calls.append(("npgettext", (c, s, p), n))
        return s if n == 1 else p


_ENVS = {}


def get_env(newstyle, autoescape, policy, lex=(False, False)):
    import jinja2

    key = (newstyle, autoescape, policy, tuple(lex))
    if key not in _ENVS:
        env = jinja2.Environment(extensions=["jinja2.ext.i18n"], autoescape=autoescape,
                                 cache_size=0, trim_blocks=lex[0], lstrip_blocks=lex[1])
        env.policies["ext.i18n.trimmed"] = policy
        rec = Recorder()
        env.install_gettext_callables(rec.gettext, rec.ngettext, newstyle=newstyle,
                                      pgettext=rec.pgettext, npgettext=rec.npgettext)
        env.globals["ident"] = lambda v: v
        _ENVS[key] = (env, rec)
    return _ENVS[key]


def extracted_sets(env, src, newstyle, policy, lex=(False, False)):
    """-> (set of string tuples from extract_from_ast, same from babel_extract
    called with the options that describe env)"""
    from jinja2.ext import GETTEXT_FUNCTIONS, babel_extract, extract_from_ast

    def strings(msg):
        if isinstance(msg, tuple):
            return tuple(x for x in msg if x is not None)
        return (msg,) if msg is not None else ()

    a = {strings(m) for _, _, m in extract_from_ast(env.parse(src))}
    opts = {"silent": "false", "trim_blocks": "true" if lex[0] else "false",
            "lstrip_blocks": "true" if lex[1] else "false"}
    if policy:
        opts["trimmed"] = "true"
    if newstyle:
        opts["newstyle_gettext"] = "true"
    bb = {strings(m) for _, _, m, _ in
          babel_extract(io.BytesIO(src.encode("utf-8")), GETTEXT_FUNCTIONS, [], opts)}
    return a, bb


def features(b):
    f = set()
    txt = "".join(p[1] for p in b["sing"] + (b["plur"] or []) if p[0] == "t")
    if "%" in txt:
        f.add("pct")
    if "{" in txt or "}" in txt:
        f.add("brace")
    if "\n" in txt:
        f.add("nl")
    if "<" in txt or "&" in txt:
        f.add("markup")
    refs = {p[1] for p in b["sing"] + (b["plur"] or []) if p[0] == "v"}
    if refs:
        f.add("refs")
    if b["binds"] and not refs:
        f.add("unreferenced-bindings")
    return f


M1_KEY = "old-style:unreferenced-bindings:percent-reformatted"


def m1_applies(b, feats, newstyle):
    return (not newstyle) and "unreferenced-bindings" in feats and "pct" in feats


def _safe_model(b, autoescape, policy, variant, lex=(False, False)):
    try:
        return model(b, autoescape, policy, variant, lex)[0]
    except Exception:  # noqa: BLE001
        return None


def check_block(ctx, b, newstyle, autoescape, policy, lex=(False, False)):
    lex = (bool(lex[0]), bool(lex[1]))
    style = "new" if newstyle else "old"
    env, rec = get_env(newstyle, autoescape, policy, lex)
    src = block_source(b)
    case = {"kind": "block", "block": b, "newstyle": newstyle, "autoescape": autoescape,
            "policy": policy, "lex": list(lex), "src": src}
    feats = features(b)
    exp, count, nforms = model(b, autoescape, policy, lex=lex)
    env_autoescape = autoescape
    autoescape = effective_autoescape(b, env_autoescape)   # in force at the block
    # mechanism suffixes: which lexer option / autoescape override is involved
    lexkey = {(False, False): "", (True, False): ":trim_blocks", (False, True): ":lstrip_blocks",
              (True, True): ":trim+lstrip_blocks"}[lex]
    aekey = ":" + b["wrap"] if b["wrap"].startswith("ae-") else ""
    ctx.ev()
    ctx.count("style:" + style)
    if autoescape:
        ctx.count("autoescape_on")
    if aekey:
        ctx.count("autoescape_override_blocks")
        if b["wrap"] == "ae-dyn" and autoescape != env_autoescape:
            ctx.count("autoescape_runtime_differs_from_env")
            if not newstyle and "refs" in feats:
                ctx.count("autoescape_runtime_differs:old+refs")
    if lex[0] != lex[1]:
        ctx.count("lexopt_exactly_one")
        if b.get("layout"):
            ctx.count("lexopt_exactly_one+layout")
    if b.get("layout"):
        ctx.count("layout_blocks")
    if b["ctx"] is not None:
        ctx.count("ctx_blocks")
    if "pct" in feats:
        ctx.count("pct_blocks")
    if (b["trim"] == "trimmed") or (b["trim"] is None and policy):
        ctx.count("trimmed_effective")
    data = {k: make_value(v) for k, v in b["data"].items()}
    mode = None
    if nforms == 2:
        ctx.count("plural_blocks")
        # how the block determines its count (docs/templates.rst: "By default, the first variable
        # in a block is used ...  If that isn't correct, specify the variable used for pluralizing
        # as a parameter to pluralize")
        mode = ("pluralize-parameter" if b["plvar"] else
                "first-binding" if b["binds"] else "first-used-free-variable")
        ctx.count("count_mode:" + mode)
        used = []
        for p in b["sing"] + b["plur"]:
            if p[0] == "v" and p[1] not in used:
                used.append(p[1])
        if mode == "first-used-free-variable" and len(used) > 1:
            ctx.count("count_free_multi")
            if b["count_name"] != min(used):
                ctx.count("count_free_first_used_not_alphabetically_first")
            if any((data[n] == 1) != (count == 1) for n in used if n != b["count_name"]):
                ctx.count("count_free_other_variable_disagrees_on_form")
            if any((data[n] == 1) != (count == 1) for n in used if n < b["count_name"]):
                ctx.count("count_free_alphabetically_earlier_variable_disagrees_on_form")
        if mode != "first-used-free-variable" and len(b["binds"]) > 1:
            bound = [bd[0] for bd in b["binds"]]
            if b["count_name"] != min(bound):
                ctx.count("count_bound_not_alphabetically_first")
    data.update(yes=True, two=[0, 1])
    del rec.calls[:]
    try:
        got = env.from_string(src).render(**data)
    except Exception as e:  # noqa: BLE001
        if m1_applies(b, feats, newstyle):
            try:
                model(b, env_autoescape, policy, "m1-old-unreferenced", lex)
            except Exception as e1:  # noqa: BLE001
                if type(e1) is type(e):
                    ctx.violation(M1_KEY, f"{style} style autoescape={autoescape}: {src!r} with "
                                  f"{b['data']} raised {type(e).__name__}: {str(e)[:200]}", case)
                    return
        pk = "pct" if "pct" in feats else "nopct"
        if "unreferenced-bindings" in feats:
            pk += "+unreferenced-bindings"
        elif "refs" not in feats:
            pk += "+novars"
        ctx.violation(f"render-raises:{type(e).__name__}:{style}:{pk}",
                      f"{style} style autoescape={autoescape} policy_trimmed={policy}: {src!r} "
                      f"with {b['data']} raised {type(e).__name__}: {str(e)[:200]}", case)
        return
    ctx.count("render_checks")
    if got != exp and m1_applies(b, feats, newstyle) and \
            _safe_model(b, env_autoescape, policy, "m1-old-unreferenced", lex) == got:
        ctx.violation(M1_KEY, f"{style} style autoescape={autoescape}: {src!r} with {b['data']} "
                              f"rendered {got!r}, documented text {exp!r}", case)
    elif got != exp:
        why = "text"
        for variant in ("swap-form", "flip-trim", "pct-halved", "pct-doubled", "flip-escape",
                        "escape-all"):
            try:
                if model(b, env_autoescape, policy, variant, lex)[0] == got:
                    why = variant
                    break
            except Exception:  # noqa: BLE001
                pass
        ctx.violation(f"render-mismatch:{why}:{style}" + (":autoescape" if autoescape and
                                                         why in ("text", "flip-escape", "escape-all")
                                                         else "")
                      + (aekey if why in ("text", "flip-escape", "escape-all") else "")
                      + (lexkey if why == "text" else ""),
                      f"{style} style autoescape={autoescape} policy_trimmed={policy}: {src!r} with "
                      f"{b['data']} rendered {got!r}, documented text {exp!r}", case)
    # the count handed to the plural function
    calls = list(rec.calls)
    want_fn = ("n" if nforms == 2 else "") + ("p" if b["ctx"] is not None else "") + "gettext"
    if not calls:
        ctx.violation(f"no-gettext-call:{style}", f"{src!r}: no gettext function was called", case)
    for fn, strs, n in calls:
        if fn != want_fn:
            ctx.violation(f"wrong-function:{want_fn}->{fn}:{style}",
                          f"{src!r}: called {fn}{strs}, expected {want_fn}", case)
        if nforms == 2:
            ctx.count("count_arg_checks")
            if not (n == count and type(n) is type(count)):
                ctx.violation(f"count-argument:{style}:{mode}",
                              f"{src!r}: plural count passed as {n!r}, the block's count variable "
                              f"{b['count_name']} ({mode}) is {count!r}", case)
        if b["ctx"] is not None and strs[0] != b["ctx"]:
            ctx.violation(f"context-string:{style}", f"{src!r}: context passed as {strs[0]!r}", case)
    # extraction
    try:
        ex_ast, ex_babel = extracted_sets(env, src, newstyle, policy, lex)
    except Exception as e:  # noqa: BLE001
        ctx.violation(f"extract-raises:{type(e).__name__}", f"{src!r}: {e}", case)
        return
    for fn, strs, n in calls:
        ctx.count("extract_ast_checks")
        if strs not in ex_ast:
            ctx.violation("extract_from_ast:missing:" + fn + (":policy-trimmed" if policy else "")
                          + lexkey,
                          f"{src!r}: runtime {fn}{strs!r} not in extract_from_ast {sorted(ex_ast)!r}",
                          case)
        ctx.count("extract_babel_checks")
        if strs not in ex_babel:
            ctx.violation("babel_extract:missing:" + fn + (":policy-trimmed" if policy else "")
                          + (":newstyle" if newstyle else "") + lexkey,
                          f"{src!r} options trim_blocks={lex[0]} lstrip_blocks={lex[1]}: runtime "
                          f"{fn}{strs!r} not in babel_extract {sorted(ex_babel)!r}",
                          case)
    if b["sing"]:
        ctx.dist((style, autoescape, policy, b["ctx"] is not None, b["trim"],
                  [bd[1] for bd in b["binds"]],
                  "none" if b["plur"] is None else ("explicit" if b["plvar"] else
                                                    "implicit" if b["binds"] else
                                                    "implicit-free%d" % min(len(b["data"]), 3)),
                  sorted(feats), b["wrap"], sorted(k for k, v in b["ws"].items() if v),
                  lex, bool(b.get("layout"))))


# gettext calls in expressions (docs/templates.rst i18n, docs/extensions.rst
# new-style gettext).  (style, autoescape, source, data, expected)
EXPR_CALLS = [
    ("old", False, "{{ _('Hello, World!') }}", {}, "Hello, World!"),
    ("old", False, "{{ gettext('Hello, World!') }}", {}, "Hello, World!"),
    ("old", False, "{{ _('Hello, %(user)s!')|format(user=u) }}", {"u": "Bob"}, "Hello, Bob!"),
    ("old", False, "{{ gettext('100%') }}", {}, "100%"),
    ("old", False, "{{ ngettext('%(num)d apple', '%(num)d apples', n)|format(num=n) }}", {"n": 1},
     "1 apple"),
    ("old", False, "{{ ngettext('%(num)d apple', '%(num)d apples', n)|format(num=n) }}", {"n": 3},
     "3 apples"),
    ("old", False, "{{ pgettext('greeting', 'Hello, World!') }}", {}, "Hello, World!"),
    ("old", False, "{{ npgettext('fruit', '%(num)d apple', '%(num)d apples', n)|format(num=n) }}",
     {"n": 2}, "2 apples"),
    ("new", False, "{{ gettext('Hello World!') }}", {}, "Hello World!"),
    ("new", False, "{{ _('Hello World!') }}", {}, "Hello World!"),
    ("new", False, "{{ gettext('Hello %(name)s!', name='World') }}", {}, "Hello World!"),
    ("new", False, "{{ gettext('Hello %(name)s!', name=u) }}", {"u": "<b>"}, "Hello <b>!"),
    ("new", True, "{{ gettext('Hello %(name)s!', name=u) }}", {"u": "<b>"}, "Hello &lt;b&gt;!"),
    ("new", True, "{{ gettext('<i>Hello</i> %(name)s!', name=u) }}", {"u": "<b>"},
     "<i>Hello</i> &lt;b&gt;!"),
    ("new", True, "{{ gettext('Hello %(name)s!', name=u|safe) }}", {"u": "<b>"}, "Hello <b>!"),
    ("new", False, "{{ gettext('100%%') }}", {}, "100%"),
    ("new", False, "{{ ngettext('%(num)d apple', '%(num)d apples', n) }}", {"n": 1}, "1 apple"),
    ("new", False, "{{ ngettext('%(num)d apple', '%(num)d apples', n) }}", {"n": 5}, "5 apples"),
    ("new", False, "{{ ngettext('%(num)d apple', '%(num)d apples', apples|count) }}",
     {"apples": [1, 2]}, "2 apples"),
    ("new", False, "{{ pgettext('greeting', 'Hello, World!') }}", {}, "Hello, World!"),
    ("new", False, "{{ npgettext('fruit', '%(num)d apple', '%(num)d apples', n) }}", {"n": 1},
     "1 apple"),
    ("new", False, "{{ npgettext('fruit', '%(num)d apple', '%(num)d apples', n) }}", {"n": 4},
     "4 apples"),
    ("new", False, "{% if yes %}{{ gettext('in if') }}{% endif %}{% for i in two %}{{ _('in for') }}"
                   "{% endfor %}{% macro m() %}{{ gettext('in macro') }}{% endmacro %}{{ m() }}",
     {}, "in ifin forin forin macro"),
]


def check_exprcall(ctx, i):
    style, autoescape, src, data, exp = EXPR_CALLS[i]
    newstyle = style == "new"
    env, rec = get_env(newstyle, autoescape, False)
    case = {"kind": "exprcall", "index": i, "src": src}
    ctx.ev()
    ctx.count("exprcall_checks")
    del rec.calls[:]
    try:
        got = env.from_string(src).render(yes=True, two=[0, 1], **data)
    except Exception as e:  # noqa: BLE001
        ctx.violation(f"exprcall-raises:{type(e).__name__}:{style}", f"{src!r}: {e}", case)
        return
    if got != exp:
        # mechanism = which documented function / mode, not the table index
        m = re.search(r"\b(n?p?gettext|_)\(", src)
        ctx.violation(f"exprcall-mismatch:{style}:{m.group(1) if m else '?'}"
                      + (":autoescape" if autoescape else ""),
                      f"{src!r} rendered {got!r}, documented {exp!r}", case)
    ex_ast, ex_babel = extracted_sets(env, src, newstyle, False)
    for fn, strs, n in rec.calls:
        if strs not in ex_ast:
            ctx.violation("extract_from_ast:missing:exprcall:" + fn, f"{src!r}: {strs!r} not in "
                                                                     f"{sorted(ex_ast)!r}", case)
        if strs not in ex_babel:
            ctx.violation("babel_extract:missing:exprcall:" + fn, f"{src!r}: {strs!r} not in "
                                                                  f"{sorted(ex_babel)!r}", case)
    ctx.dist(("exprcall", i))


def run(ctx):
    quick = ctx.tier == "quick"
    for i in range(len(EXPR_CALLS)):
        check_exprcall(ctx, i)   # tiny table: every shard runs it
    rng = ctx.rng("blocks")
    n_max = 500 if quick else 25000
    i = 0
    while ctx.more(i, n_max, 100):
        b = gen_block(rng)
        combos = [(ns, ae, pol) for ns in (False, True) for ae in (False, True)
                  for pol in (False, True)]
        # all 8 combinations on every 4th block, else 3 sampled
        use = combos if i % 4 == 0 else rng.sample(combos, 3)
        for ns, ae, pol in use:
            # environment lexer options, handed to babel_extract as its options
            lex = rng.choice([(False, False), (True, False), (False, True), (True, True)])
            check_block(ctx, b, ns, ae, pol, lex)
        if i < 4:
            ctx.sample({"src": block_source(b), "data": b["data"]})
        i += 1


def replay(ctx, case):
    if case["kind"] == "exprcall":
        check_exprcall(ctx, case["index"])
    else:
        check_block(ctx, case["block"], case["newstyle"], case["autoescape"], case["policy"],
                    tuple(case.get("lex", (False, False))))
