"""C01 — load-time totality: env.from_string(src) yields a template or raises
TemplateSyntaxError with a line number inside the source; never another
exception, never a hang, never generated code that Python rejects."""
from __future__ import annotations

import os
import re
import signal

from vt.gen import c01_gen as G

PID = "C01"
LEVEL = "exploration"
TECHNIQUE = ("outcome classifier over grammar-generated, token-mutated and bounded-exhaustive "
             "sources x 9 environment configurations, with a per-case CPU-time watchdog (SIGPROF, wall-clock SIGALRM backstop)")
RULE = ("cases = (config, source): (a) grammar-generated templates (expressions, if/for/set/with/"
        "macro/call/filter/block/extends/include/import/raw/comments/trans/autoescape/do/break/"
        "continue/debug, line statements, whitespace control, Unicode names) + deterministic "
        "nesting ladders (depth<=24 statements, <=40 expressions) + a table of corner forms; "
        "(b) 13 kinds of token-level mutation of (a) using env.lex tokens; (c) every string of "
        "length<=3 (quick) / <=4 + sampled 5-7 (thorough) over 25 delimiter/keyword symbols, "
        "translated to each config's delimiters, enumerated length-major and cut by a time box on "
        "a loaded machine (counter exhaustive_cut; the completed length is reported as "
        "exhaustive_complete_length_sum_over_shards / 16). distinct = distinct (config, outcome class, "
        "abstracted source shape [identifiers->n, digits->1, whitespace collapsed, first 60 "
        "tokens]) among sources containing at least one delimiter")
LEVEL_TEXT = ("held (modulo listed known findings) on K (config, source) executions: every outcome "
              "was a template whose generated Python also compiles, or a TemplateSyntaxError with "
              "1<=lineno<=1+#linebreaks; bounded-exhaustive over the 25-symbol alphabet to length "
              "3 (quick) / 4 (thorough) when exhaustive_complete_shards == 16, otherwise to the "
              "reported completed length plus a prefix of the next; random beyond; not all Unicode "
              "strings")
ASSUMPTIONS = [
    "only load-time totality: templates are not rendered",
    "hang = a case exceeding the per-case CPU budget (1.5 s, ITIMER_PROF; wall-clock backstop 20x) that "
    "still exceeds 10x the budget in 3 solo re-runs; "
    "a C-level loop that never checks signals would surface as a shard watchdog (INCONCLUSIVE)",
    "nesting depth bounded (<=24 statement levels, <=40 expression levels): RecursionError "
    "beyond that is not claimed",
    "integer literals longer than Python's int-str digit limit are not generated",
]
NSHARDS = {"quick": 16, "thorough": 16}
BUDGET_S = {"quick": 20, "thorough": 540}
# a confirmed hang costs ~31x the case budget in CPU time; on a heavily loaded
# machine that stretches, so the parent's hard kill is generous
HARD_TIMEOUT_S = {"quick": 900, "thorough": 4000}
FLOORS = {
    "quick": {"evaluations": 25000, "distinct": 8000,
              "counters": {"ok": 8000, "tse": 8000, "gen_cases": 1000, "mut_cases": 4000,
                           "exh_cases": 15000, "ladder_cases": 1200, "corner_cases": 7500, "nest_product_cases": 1500,
                           "raw_compile_ok": 5000, "lineno_checked": 8000}},
    # thorough: 7.2M evaluations at load ~2x, 3.7M (exhaustive cut after length 3)
    # at load ~5x; floors = 1/4 of the latter
    "thorough": {"evaluations": 900000, "distinct": 500000,
                 "counters": {"ok": 500000, "tse": 400000, "gen_cases": 75000, "mut_cases": 300000,
                              "exh_cases": 500000, "ladder_cases": 1200, "corner_cases": 7500, "nest_product_cases": 8000,
                              "raw_compile_ok": 250000, "lineno_checked": 400000}},
}

CASE_BUDGET = {"quick": 1.5, "thorough": 2.0}   # CPU seconds per case
_nl_re = re.compile(r"\r\n|\r|\n")


class Watchdog(BaseException):
    """Raised from the SIGALRM handler; BaseException so that no
    ``except Exception`` in the code under test can swallow it."""


def _on_alarm(signum, frame):
    raise Watchdog()


_ENVS = {}


def env_for(cfg):
    e = _ENVS.get(cfg)
    if e is None:
        e = _ENVS[cfg] = G.make_env(cfg)
    return e


def _pkgdir():
    import jinja2

    return os.path.dirname(os.path.abspath(jinja2.__file__)) + os.sep


def _quoted_word(m):
    import keyword

    w = m.group(1)
    # 'break', 'else', ... name the construct (mechanism); any other quoted
    # word is an identifier taken from the input
    return m.group(0) if keyword.iskeyword(w) else "ID"


def _norm_msg(msg):
    """Message with everything that can vary with the input removed:
    identifiers, characters, code points, numbers, positions."""
    msg = str(msg).split("\n")[0]
    msg = msg.split(":")[0] if msg.startswith("keyword argument repeated") else msg
    msg = re.sub(r"\(<[^>]*>, line \d+\)", "", msg)
    msg = re.sub(r"invalid character '.' \(U\+[0-9A-Fa-f]+\)", "invalid character CH", msg)
    msg = re.sub(r"U\+[0-9A-Fa-f]{4,8}", "U+X", msg)
    msg = re.sub(r"'(\w+)'", _quoted_word, msg)
    msg = re.sub(r"\d+", "N", msg)
    return msg.strip()[:70]


def _near_token(text, offset):
    import keyword

    m = re.match(r"\w+|\S", text[max(offset - 1, 0):])
    tok = m.group() if m else "?"
    if re.match(r"[lt]_\d", tok):
        return "ID"
    if tok[0].isdigit():
        return "NUM"
    if (tok[0].isalpha() or tok[0] == "_") and not keyword.iskeyword(tok):
        return "NAME"       # an identifier copied from the input
    if not tok.isascii():
        return "CH"
    return tok


def mechanism(exc):
    """exception class @ innermost jinja2 frame (file:function) [+ detail]."""
    pkg = _pkgdir()
    tb = exc.__traceback__
    where = "?"
    files = []
    while tb is not None:
        co = tb.tb_frame.f_code
        fn = os.path.abspath(co.co_filename)
        if fn.startswith(pkg):
            where = f"{os.path.basename(fn)}:{co.co_name}"
            files.append(os.path.basename(fn))
        tb = tb.tb_next
    if isinstance(exc, RecursionError):
        # the frame that happens to hit the limit varies with the input; the
        # mechanism is the recursive module(s) at the bottom of the stack
        return "RecursionError@" + "+".join(sorted(set(files[-60:]))) if files \
            else "RecursionError@?"
    key = f"{type(exc).__name__}@{where}"
    if isinstance(exc, SyntaxError) and where != "?" and "compile" not in where.split(":")[-1]:
        # a Python SyntaxError that does not come from compiling generated
        # code (e.g. raised while the lexer converts a literal): the raising
        # function is the mechanism, CPython's wording depends on the input
        # ('invalid character' / 'invalid decimal literal' for one cause)
        pass
    elif isinstance(exc, SyntaxError):
        key += ":" + _norm_msg(exc.msg)
        if exc.msg.startswith("invalid syntax") and exc.text and exc.offset:
            key += ":near " + _near_token(exc.text, exc.offset)
    elif isinstance(exc, (ValueError, KeyError, IndexError, AssertionError, RuntimeError,
                          TypeError, AttributeError, OverflowError)):
        key += ":" + _norm_msg(re.sub(r"'[^']*'|\"[^\"]*\"|re\.compile\(.*", "<q>", str(exc)))[:40]
    return key


def classify(env, src, raw=True):
    """-> (outcome, key, detail).  outcome in ok|tse|viol|ok-noraw."""
    import jinja2

    try:
        env.from_string(src)
    except jinja2.TemplateSyntaxError as e:
        nl = len(_nl_re.findall(src))
        ln = e.lineno
        if type(ln) is int and 1 <= ln <= 1 + nl:
            return "tse", None, None
        fn = mechanism(e).split("@", 1)[1]
        return "viol", f"lineno-out-of-range@{fn}", \
            f"{type(e).__name__}({e.message!r}) lineno={ln!r} but source has {nl} line breaks"
    except Watchdog:
        raise
    except BaseException as e:  # noqa: BLE001 - the property is about *any* other type
        return "viol", mechanism(e), f"{type(e).__name__}: {str(e)[:200]}"
    if not raw:
        return "ok-noraw", None, None
    # generated source must also be accepted by Python's compiler
    try:
        py = env.compile(src, raw=True)
        compile(py, "<c01>", "exec")
    except Watchdog:
        raise
    except BaseException as e:  # noqa: BLE001
        return "viol", "rawcompile:" + mechanism(e), f"{type(e).__name__}: {str(e)[:200]}"
    return "ok", None, None


WALL_FACTOR = 20


def arm_handlers():
    signal.signal(signal.SIGALRM, _on_alarm)
    signal.signal(signal.SIGPROF, _on_alarm)


def guarded(env, src, budget, raw=True):
    """budget is CPU seconds of this process (ITIMER_PROF: immune to a loaded
    machine); a wall-clock timer of WALL_FACTOR x budget backs it up for
    hangs that do not burn CPU."""
    try:
        signal.setitimer(signal.ITIMER_PROF, budget)
        signal.setitimer(signal.ITIMER_REAL, budget * WALL_FACTOR)
        try:
            return classify(env, src, raw)
        finally:
            signal.setitimer(signal.ITIMER_PROF, 0)
            signal.setitimer(signal.ITIMER_REAL, 0)
    except Watchdog:
        try:
            signal.setitimer(signal.ITIMER_PROF, 0)
            signal.setitimer(signal.ITIMER_REAL, 0)
        except Watchdog:
            pass
        return "watchdog", None, None


def evaluate(ctx, cfg, src, family, budget, meta=None, raw=True):
    env = env_for(cfg)
    out, key, detail = guarded(env, src, budget, raw)
    if out == "watchdog":
        ctx.count("watchdog_hits")
        stuck = 0
        for _ in range(3):
            out2, key, detail = guarded(env, src, budget * 10, raw)
            if out2 == "watchdog":
                stuck += 1
            else:
                # it terminates: slow (or a loaded machine), not a hang
                out = out2
                break
        if stuck == 3:
            out, key, detail = "viol", "hang", \
                f"no result within {budget * 10:.0f} CPU-seconds in 3 solo re-runs"
            ctx.extra["confirmed_hangs"] = ctx.extra.get("confirmed_hangs", 0) + 1
        elif out == "watchdog":
            out = "noise"
        else:
            ctx.count("watchdog_noise")
    ctx.ev()
    if out == "ok":
        ctx.count("raw_compile_ok")
    elif out == "ok-noraw":
        out = "ok"
    ctx.count(out if out in ("ok", "tse") else "other_outcome")
    if out == "ok":
        pass
    elif out == "tse":
        ctx.count("lineno_checked")
    elif out == "viol":
        ctx.violation(key, f"config={cfg} source={src[:300]!r}: {detail}",
                      {"cfg": cfg, "src": src, "family": family, "meta": meta})
        if key == "hang":
            # one confirmed hang costs > 30x the case budget; the verdict is
            # already "violated", so stop this shard instead of timing out
            raise ShardAbort()
    return out


class ShardAbort(Exception):
    pass


def has_delim(dl, src):
    return (dl.bs in src or dl.vs in src or dl.cs in src
            or (dl.ls is not None and (dl.ls in src or dl.lc in src)))


def run(ctx):
    try:
        _run(ctx)
    except ShardAbort:
        ctx.count("shard_aborted_after_confirmed_hang")


def _run(ctx):
    import itertools

    import warnings

    # SyntaxWarning from compiling generated code is not a rejection
    warnings.simplefilter("ignore")
    arm_handlers()
    quick = ctx.tier == "quick"
    budget = CASE_BUDGET[ctx.tier]
    cfgs = G.CONFIG_NAMES
    delims = {c: G.Delims(c) for c in cfgs}

    # ---------------------------------------------- ladders + corner table
    idx = 0
    for cfg in cfgs:
        dl = delims[cfg]
        for fam, depth, src in G.ladder_cases(dl):
            idx += 1
            if not ctx.mine(idx):
                continue
            out = evaluate(ctx, cfg, src, fam, budget, {"depth": depth})
            ctx.count("ladder_cases")
            ctx.dist((cfg, out, fam, depth))
        for fam, src in G.corner_cases(dl):
            idx += 1
            if not ctx.mine(idx):
                continue
            out = evaluate(ctx, cfg, src, "corner:" + fam, budget)
            ctx.count("corner_cases")
            ctx.dist((cfg, out, G.shape(src)))

    # every pair (quick: all configurations; triples: one configuration per seed in quick, all in
    # thorough) of container constructs nested directly in each other
    for ci, cfg in enumerate(cfgs):
        dl = delims[cfg]
        depths = (2, 3) if (not quick or ci == ctx.seed % len(cfgs)) else (2,)
        for depth in depths:
            for fam, src in G.nest_products(dl, depth):
                idx += 1
                if not ctx.mine(idx):
                    continue
                out = evaluate(ctx, cfg, src, fam.split(":")[0], budget)
                ctx.count("nest_product_cases")
                ctx.dist((cfg, out, fam))

    # ------------------------------------------ (c) exhaustive short strings
    # length-major so that a time-box cut only loses the longest strings
    L = 3 if quick else 4
    t_exh = ctx.budget_s * 0.6
    complete = True
    done_len = 0
    n = 0
    alphas = {cfg: G.alphabet_for(delims[cfg]) for cfg in cfgs}
    for length in range(1, L + 1):
        for cfg in cfgs:
            dl = delims[cfg]
            alpha = alphas[cfg]
            for tup in itertools.product(range(len(alpha)), repeat=length):
                idx += 1
                if not ctx.mine(idx):
                    continue
                src = "".join(alpha[i] for i in tup)
                n += 1
                # from_string already ran Python's compile(); the separate
                # raw-source compile is repeated on a quarter of them
                out = evaluate(ctx, cfg, src, "exhaustive", budget, raw=n % 4 == 0)
                ctx.count("exh_cases")
                if has_delim(dl, src):
                    ctx.dist((cfg, out, G.shape(src)))
                if n % 1000 == 0 and ctx.elapsed() > t_exh:
                    complete = False
                    break
            if not complete:
                break
        if not complete:
            ctx.count("exhaustive_cut")
            break
        done_len = length
    # summed over shards by the harness: 16*L when every shard finished
    ctx.extra["exhaustive_complete_length_sum_over_shards"] = done_len
    if complete:
        ctx.count("exhaustive_complete_shards")
    if not quick:
        rng = ctx.rng("exh5")
        i = 0
        while ctx.more(i, 60000, 2000) and ctx.elapsed() < ctx.budget_s * 0.6:
            cfg = cfgs[i % len(cfgs)]
            alpha = G.alphabet_for(delims[cfg])
            src = "".join(rng.choice(alpha) for _ in range(rng.choice([5, 5, 6, 7])))
            out = evaluate(ctx, cfg, src, "exhaustive-sampled", budget)
            ctx.count("exh_cases")
            ctx.count("exh_sampled_cases")
            if has_delim(delims[cfg], src):
                ctx.dist((cfg, out, G.shape(src)))
            i += 1

    # ------------------------- (a) grammar-generated and (b) their mutations
    rng = ctx.rng("gen")
    prev = {}
    i = 0
    n_max = 300 if quick else 40000
    while ctx.more(i, n_max, 80):
        cfg = cfgs[i % len(cfgs)]
        dl = delims[cfg]
        g = G.TemplateGen(rng, dl, maxdepth=rng.choice([2, 3, 4, 5]),
                          unicode_names=rng.random() < 0.7, ws_ctrl=rng.random() < 0.8)
        src = g.template()
        out = evaluate(ctx, cfg, src, "generated", budget)
        ctx.count("gen_cases")
        if out == "ok":
            ctx.count("gen_ok")
        ctx.dist((cfg, out, G.shape(src, 200)))
        for u in sorted(g.used):
            ctx.count("construct:" + u)
        if i < 3:
            ctx.sample({"cfg": cfg, "family": "generated", "outcome": out, "src": src})
        toks = G.raw_tokens(env_for(cfg), src)
        otoks = prev.get(cfg, toks)
        prev[cfg] = toks
        for j in range(4):
            kind, msrc = G.mutate(rng, toks, otoks, dl)
            if rng.random() < 0.25:  # second-order mutation
                kind2, msrc = G.mutate(rng, G.raw_tokens(env_for(cfg), msrc), toks, dl)
                kind = kind + "+" + kind2
            mout = evaluate(ctx, cfg, msrc, "mutation:" + kind, budget)
            ctx.count("mut_cases")
            ctx.count("mut:" + kind.split("+")[0])
            ctx.dist((cfg, mout, G.shape(msrc, 200)))
            if i < 1 and j < 2:
                ctx.sample({"cfg": cfg, "family": "mutation:" + kind, "outcome": mout,
                            "src": msrc})
        i += 1


def replay(ctx, case):
    arm_handlers()
    src = case["src"]
    if isinstance(src, dict) and "$surrogate" in src:
        src = bytes.fromhex(src["$surrogate"]).decode("utf-8", "surrogatepass")
    try:
        evaluate(ctx, case["cfg"], src, case.get("family"), CASE_BUDGET["thorough"],
                 case.get("meta"))
    except ShardAbort:
        pass
