"""C08 — compile-time constant folding never changes what a template renders."""
from __future__ import annotations

import copy
import json

from vt import util
from vt.gen import exprgen, jast

PID = "C08"
LEVEL = "exploration"
TECHNIQUE = "metamorphic/differential monitor: each template vs its optimized=False rendering and vs its constant-lifted variant (constants replaced by context variables), all executed by the real engine"
RULE = ("constant-rich expressions (arithmetic, ~, comparisons, inline-if, filters/tests/methods on "
        "constants, safe-marked constants, list/dict literals) placed in output, set, if, filter "
        "arguments, macro defaults and loop iterables, under autoescape off / on / static autoescape "
        "blocks / runtime-decided autoescape blocks; render(T) == render(T, optimized=False) == "
        "render(lift(T)) or same exception class, where lift replaces literal leaves and random constant "
        "interior subtrees (value computed at run time by an unoptimised environment) by variables; "
        "60% default environment, 40% with an environment finalize (None -> '', type-revealing, "
        "pass_environment, pass_context). "
        "distinct = expression skeletons containing a constant interior node (foldable)")
LEVEL_TEXT = "held on the generated templates only"
ASSUMPTIONS = ["interior subtrees are lifted only where the autoescape mode is static"]
NSHARDS = {"quick": 16, "thorough": 16}
BUDGET_S = {"quick": 22, "thorough": 500}
FLOORS = {
    "quick": {"evaluations": 6000, "distinct": 1200,
              "counters": {"unopt_compares": 2000, "lift_compares": 2000, "interior_lifts": 500,
                           "mode_volatile": 200, "mode_on": 200, "with_safe_const": 200,
                           "finalize_none": 300, "finalize_type": 300, "finalize_env": 100, "finalize_ctx": 100}},
    "thorough": {"evaluations": 120000, "distinct": 20000,
                 "counters": {"unopt_compares": 40000, "lift_compares": 40000, "interior_lifts": 10000,
                              "mode_volatile": 4000, "mode_on": 4000, "with_safe_const": 4000,
                              "finalize_none": 6000, "finalize_type": 6000, "finalize_env": 2000,
                              "finalize_ctx": 2000}},
}

def _fin_none(v):
    return "" if v is None else v


def _fin_type(v):
    return f"{type(v).__name__}={v}"


def finalizer(name):
    """Environment finalize functions: the documented None -> '' one, one that shows the type it
    was handed, and the pass_environment / pass_context flavours."""
    import jinja2

    if name == "none":
        return _fin_none
    if name == "type":
        return _fin_type
    if name == "env":
        return jinja2.pass_environment(lambda env, v: _fin_none(v))
    if name == "ctx":
        return jinja2.pass_context(lambda c, v: _fin_type(v))
    raise ValueError(name)


VOCAB = {k: v for k, v in exprgen.VOCAB.items() if k != "o1"}
HOT = ["<b>", "a&b", '"', "x", "", "Q q", "7", "'"]


def lit(v):
    """Literal AST for a Python value."""
    if isinstance(v, bool) or v is None or isinstance(v, str):
        return ["const", v]
    if isinstance(v, int):
        return ["un", "-", ["const", -v]] if v < 0 else ["const", v]
    if isinstance(v, float):
        return ["un", "-", ["const", -v]] if v < 0 else ["const", v]
    if isinstance(v, list):
        return ["list", [lit(x) for x in v]]
    if isinstance(v, tuple):
        return ["tuple", [lit(x) for x in v]]
    if isinstance(v, dict):
        return ["dict", [[lit(k), lit(x)] for k, x in v.items()]]
    raise TypeError(v)


def map_tree(e, fn):
    """Post-order rebuild: fn(node_with_mapped_children) -> node."""
    if e is None:
        return None
    k = e[0]
    M = lambda x: map_tree(x, fn)
    if k in ("const", "name"):
        n = list(e)
    elif k == "un":
        n = ["un", e[1], M(e[2])]
    elif k == "bin":
        n = ["bin", e[1], M(e[2]), M(e[3])]
    elif k == "cmp":
        n = ["cmp", M(e[1]), [[op, M(x)] for op, x in e[2]]]
    elif k in ("and", "or"):
        n = [k, M(e[1]), M(e[2])]
    elif k == "cond":
        n = ["cond", M(e[1]), M(e[2]), M(e[3])]
    elif k == "attr":
        n = ["attr", M(e[1]), e[2]]
    elif k == "item":
        n = ["item", M(e[1]), M(e[2])]
    elif k == "slice":
        n = ["slice"] + [M(x) for x in e[1:5]]
    elif k in ("list", "tuple"):
        n = [k, [M(x) for x in e[1]]]
    elif k == "dict":
        n = ["dict", [[M(a), M(b)] for a, b in e[1]]]
    elif k == "call":
        n = ["call", M(e[1]), [M(x) for x in e[2]], [[a, M(x)] for a, x in e[3]]]
    elif k == "filter":
        n = ["filter", M(e[1]), e[2], [M(x) for x in e[3]], [[a, M(x)] for a, x in e[4]]]
    elif k == "test":
        n = ["test", M(e[1]), e[2], [M(x) for x in e[3]], e[4]]
    else:
        raise ValueError(k)
    return fn(n)


def has_name(e):
    found = []
    jast.walk_expr(e, lambda x: found.append(1) if x[0] == "name" else None)
    return bool(found)


def special_expr(rng):
    """Constant expressions whose folded value has no plain literal spelling."""
    F = lambda e, n, *a: ["filter", e, n, list(a), []]
    C = lambda v: ["const", v]
    recs = ["list", [["dict", [[C("a"), C(1)], [C("b"), C(2)]]], ["dict", [[C("a"), C(1)], [C("b"), C(3)]]],
                     ["dict", [[C("a"), C(2)], [C("b"), C(4)]]]]]
    grouped = ["filter", recs, "groupby", [C("a")], []]
    sens = lambda: rng.choice([
        ["bin", "~", F(C("<i>"), "safe"), C("<b>")], ["bin", "~", C("<b>"), F(C("<i>"), "safe")],
        F(["list", [F(C("<i>"), "safe"), C("<b>")]], "join"), ["bin", "+", F(C("<u>"), "safe"), C("&")],
    ])
    N_ = lambda n: ["name", n]
    if rng.random() < 0.35:
        # autoescape-sensitive constants (a) nested in list-valued fields of a larger expression
        # that is not constant, (b) passed to a constant filter call BY KEYWORD
        return rng.choice([
            F(["list", [sens(), N_("i1")]], "join"),
            F(["list", [N_("s1"), sens(), sens()]], "join", C("|")),
            ["bin", "~", ["call", ["attr", N_("s1"), "strip"], [], []], sens()],
            ["filter", ["list", [C("a"), C("b")]], "join", [], [["d", sens()]]],
            ["filter", ["list", [C("a"), N_("s1")]], "join", [], [["d", sens()]]],
            ["filter", C("a-b"), "replace", [C("-")], [["new", sens()]]],
            ["filter", C("a-b"), "replace", [], [["old", C("-")], ["new", sens()]]],
            ["filter", N_("u1"), "default", [], [["default_value", sens()]]],
            ["dict", [[C("k"), sens()], [C("j"), N_("i1")]]],
            ["cond", sens(), N_("b1"), sens()],
            ["test", sens(), "eq", [sens()], False],
            ["call", ["attr", C("{}-{}"), "format"], [sens(), N_("i1")], []],
        ])
    return rng.choice([
        # filters on constants whose result is a SUBCLASS of a builtin container / str
        ["attr", F(grouped, "first"), "grouper"], ["attr", F(grouped, "last"), "list"],
        ["attr", ["item", F(grouped, "list"), C(1)], "grouper"],
        ["filter", F(grouped, "map", C("first")) if False else ["filter", grouped, "map", [], [["attribute", C("grouper")]]], "list", [], []],
        ["test", F(C("<b>"), "safe"), "escaped", [], False],
        ["test", ["bin", "~", F(C("<b>"), "safe"), C("x")], "escaped", [], False],
        F(F(C("<b>"), "safe"), "e"), F(["bin", "~", F(C("<i>"), "safe"), C("<")], "e"),
        ["attr", F(["dict", [[C("k"), C(1)]]], "items"), "nope"],
        F(["filter", ["list", [C(3), C(1), C(2)]], "batch", [C(2)], []], "list"),
        F(C("inf"), "float"), F(C("-inf"), "float"), F(C("nan"), "float"),
        ["bin", "*", C(1e308), C(10)], ["bin", "-", ["bin", "*", C(1e308), C(10)], ["bin", "*", C(1e308), C(10)]],
        ["bin", "+", F(C("inf"), "float"), C(1)], F(F(C("inf"), "float"), "string"),
        ["bin", "**", C(10), C(400)], ["bin", "~", F(C("nan"), "float"), C("x")],
        ["list", [F(C("inf"), "float"), C(1)]], ["cmp", F(C("inf"), "float"), [[">", C(1)]]],
        F(["bin", "*", C("9"), C(50)], "int"), ["un", "-", F(C("inf"), "float")],
        # container constants whose ELEMENTS have no literal form, inside expressions that
        # cannot be folded completely (runtime key / operand)
        ["item", ["dict", [[C("a"), F(C("inf"), "float")], [C("b"), C(2)]]], ["cond", C("a"), N_("b1"), C("b")]],
        ["item", ["dict", [[C("a"), ["bin", "*", C(1e308), C(10)]], [C("b"), F(C("nan"), "float")]]], N_("s1")],
        ["bin", "~", ["dict", [[C("a"), ["item", ["list", [C(1)]], C(5)]]]], N_("s1")],
        ["bin", "~", ["list", [["item", ["list", [C(1)]], C(5)], F(C("-inf"), "float")]], N_("i1")],
        ["test", ["dict", [[C("a"), F(C("nan"), "float")]]], "eq", [N_("d1")], False],
        ["filter", ["dict", [[C("k"), ["attr", C("x"), "nope"]]]], "default", [N_("s1")], []],
        ["item", ["tuple", [F(C("inf"), "float"), C(1)]], ["cond", C(0), N_("b1"), C(1)]],
        # constant-bounds slices of values that cannot be sliced (and of ones that can)
        ["slice", N_("i1"), C(1), C(3), None], ["slice", C(5), C(0), C(1), None],
        ["slice", N_("n1"), None, C(2), None], ["slice", N_("d1"), None, None, C(2)],
        ["slice", ["dict", [[C("a"), C(1)]]], C(0), C(1), None], ["slice", N_("f1"), C(0), None, None],
        ["slice", N_("s1"), C(1), C(3), None], ["slice", N_("l1"), None, None, ["un", "-", C(1)]],
        ["filter", ["slice", N_("i1"), C(1), C(3), None], "default", [C("dflt")], []],
        ["bin", "/", C(1), C(3)], ["bin", "*", C(0.1), C(3)], ["bin", "-", C(0.0), C(0.0)],
        ["un", "-", C(0.0)], ["bin", "*", ["un", "-", C(1)], C(0.0)],
    ])


def gen_expr(rng, data):
    if rng.random() < 0.10:
        return special_expr(rng)
    g = exprgen.Gen(rng, vocab=VOCAB)
    tree = g.expr(rng.choice([2, 3, 3, 4]))
    p = rng.choice([0.6, 0.9, 1.0])

    def constify(n):
        if n[0] == "name" and n[1] in data and rng.random() < p:
            return lit(data[n[1]])
        if n[0] == "const" and isinstance(n[1], str) and rng.random() < 0.35:
            s = rng.choice(HOT)
            if rng.random() < 0.5:
                return ["filter", ["const", s], "safe", [], []]
            return ["const", s]
        return n

    return map_tree(tree, constify)


class Lifter:
    def __init__(self, rng, mode, interior_env):
        self.rng = rng
        self.vars = {}
        self.mode = mode
        self.env = interior_env
        self.interior = 0

    def var(self, v):
        name = f"k{len(self.vars)}"
        self.vars[name] = v
        return ["name", name]

    def leaf_lift(self, e):
        def fn(n):
            if n[0] == "const":
                return self.var(n[1])
            return n
        return map_tree(e, fn)

    def lift(self, e, data):
        """Replace literal leaves by variables; random constant interior
        subtrees by a variable holding their run-time value."""
        def fn(n):
            if n[0] in ("const", "name"):
                return n
            if self.env is not None and not has_name(n) and self.rng.random() < 0.3:
                # value of the leaf-lifted subtree computed at run time, unoptimised
                sub = Lifter(self.rng, self.mode, None)
                ll = sub.leaf_lift(n)
                try:
                    f = self.env.compile_expression(jast.pe(ll), undefined_to_none=False)
                    val = f(**sub.vars)
                except Exception:
                    return n
                self.interior += 1
                return self.var(val)
            return n
        return self.leaf_lift(map_tree(e, fn))


def wrap(mode, inner):
    if mode == "block_on":
        return [["autoescape", ["const", True], inner]]
    if mode == "block_off":
        return [["autoescape", ["const", False], inner]]
    if mode == "volatile":
        return [["autoescape", ["name", "flag"], inner]]
    return inner


def place(rng, expr, idx):
    """Statements using `expr` in one of the syntactic positions."""
    k = rng.random()
    tag = ["text", f"[{idx}:"]
    end = ["text", "]"]
    if k < 0.45:
        return [tag, ["out", expr], end]
    if k < 0.6:
        return [tag, ["set", "sv", expr], ["out", ["name", "sv"]], end]
    if k < 0.7:
        return [tag, ["if", [[expr, [["text", "T"]]]], [["text", "F"]]], end]
    if k < 0.8:
        return [tag, ["out", ["filter", ["const", "a-b-c"], "replace", [["const", "-"], ["filter", expr, "string", [], []]], []]], end]
    if k < 0.9:
        return [tag, ["macro", f"mm{idx}", [["p", expr]], [["out", ["name", "p"]]]],
                ["out", ["call", ["name", f"mm{idx}"], [], []]], end]
    return [tag, ["out", ["filter", ["list", [expr, ["const", "z"]]], "join", [["const", "<"]], []]], end]


def render3(body, lifted_body, data, ldata, env_kw):
    import jinja2

    src = jast.ps(body)
    lsrc = jast.ps(lifted_body)
    outs = {}
    for name, kw, s, d in (("opt", {}, src, data), ("unopt", {"optimized": False}, src, data),
                           ("lifted", {}, lsrc, ldata)):
        env = jinja2.Environment(**env_kw, **kw)
        outs[name] = util.capture(lambda: env.from_string(s).render(**d))
    return outs, src, lsrc


def same(a, b):
    if a.ok and b.ok:
        return a.value == b.value
    if not a.ok and not b.ok:
        return type(a.exc) is type(b.exc)
    return False


def env_kw_for(mode, fin=None):
    kw = {"autoescape": mode in ("on", "block_off")}
    if fin:
        kw["finalize"] = finalizer(fin)
    return kw


def disagreement(case):
    data = dict(case["data"])
    outs, src, lsrc = render3(case["body"], case["lifted"], data, {**data, **case["lvars"]},
                              env_kw_for(case["mode"], case.get("finalize")))
    for other in ("unopt", "lifted"):
        if not same(outs["opt"], outs[other]):
            return other, outs, src, lsrc
    return None, outs, src, lsrc


def single(expr, mode, data):
    """A one-expression case with leaf lifting only."""
    lf = Lifter(None, mode, None)
    le = lf.leaf_lift(expr)
    pos = lambda e: [["out", e], ["set", "sv", e], ["out", ["name", "sv"]]]
    return {"mode": mode, "body": wrap(mode, pos(expr)), "lifted": wrap(mode, pos(le)),
            "data": data, "lvars": lf.vars}


def minimise(exprs, mode, data, fin=None):
    """Smallest sub-expression that still disagrees when rendered alone."""
    best = None
    for e in exprs:
        subs = []
        jast.walk_expr(e, subs.append)
        for sub in sorted(subs, key=lambda x: len(json.dumps(x))):
            if sub[0] in ("const", "name"):
                continue
            try:
                c = single(sub, mode, data)
                c["finalize"] = fin
                other, _, _, _ = disagreement(c)
            except Exception:
                continue
            if other:
                if best is None or len(json.dumps(sub)) < len(json.dumps(best[0])):
                    best = (sub, other)
                break
    return best


def check_case(ctx, case, exprs=None):
    mode = case["mode"]
    other, outs, src, lsrc = disagreement(case)
    ctx.ev(3)
    ctx.count("unopt_compares")
    ctx.count("lift_compares")
    ctx.count("mode_" + mode)
    fin = case.get("finalize")
    if fin:
        ctx.count("finalize_" + fin)
    if other is None:
        return True
    key = f"fold:{other}:{mode}" + (f":finalize-{fin}" if fin else "")
    what = f" finalize={fin}" if fin else ""
    if exprs:
        best = minimise(exprs, mode, dict(case["data"]), fin)
        if best:
            key = "fold:" + (f"finalize-{fin}:" if fin else "") + json.dumps(exprgen.skeleton(best[0]))[:110]
            what += f" minimal={jast.pe(best[0])!r} ({best[1]})"
    rec = {k: v for k, v in case.items()}
    rec["lvars"] = jsonable_vars(case["lvars"])
    ctx.violation(key, f"optimized {outs['opt']!r} vs {other} {outs[other]!r}{what} | mode={mode} src={src!r} "
                       f"lifted={lsrc!r} lvars={case['lvars']!r}", rec)
    return False


def jsonable_vars(vars):
    from markupsafe import Markup

    out = {}
    for k, v in vars.items():
        if isinstance(v, Markup):
            out[k] = {"$markup": str(v)}
        elif isinstance(v, tuple):
            out[k] = {"$tuple": list(v)}
        else:
            out[k] = v
    return out


def unjson_vars(vars):
    from markupsafe import Markup

    out = {}
    for k, v in vars.items():
        if isinstance(v, dict) and "$markup" in v:
            out[k] = Markup(v["$markup"])
        elif isinstance(v, dict) and "$tuple" in v:
            out[k] = tuple(v["$tuple"])
        else:
            out[k] = v
    return out


def build_case(rng):
    import jinja2

    mode = rng.choice(["off", "on", "block_on", "block_off", "volatile", "on", "volatile"])
    recipe, data = exprgen.make_data(rng)
    data = {k: v for k, v in data.items() if k != "o1"}
    recipe = {k: v for k, v in recipe.items() if k != "o1"}
    data["flag"] = recipe["flag"] = rng.random() < 0.5
    static = mode != "volatile"
    eff_auto = {"off": False, "on": True, "block_on": True, "block_off": False}.get(mode)
    ienv = jinja2.Environment(autoescape=eff_auto, optimized=False) if static else None
    lifter = Lifter(rng, mode, ienv)
    body, lbody, exprs = [], [], []
    for i in range(rng.randint(1, 3)):
        e = gen_expr(rng, data)
        le = lifter.lift(e, data)
        st = rng.getstate()
        body += place(rng, e, i)
        rng.setstate(st)
        lbody += place(rng, le, i)
        exprs.append(e)
    case = {"mode": mode, "body": wrap(mode, body), "lifted": wrap(mode, lbody), "data": recipe,
            "lvars": lifter.vars,
            "finalize": rng.choice([None, None, None, None, "none", "none", "type", "type", "env", "ctx"])}
    return case, exprs, lifter.interior


def run(ctx):
    rng = ctx.rng("c08")
    n = 2000 if ctx.tier == "quick" else 50000
    i = 0
    while ctx.more(i, n, floor=100):
        try:
            case, exprs, nint = build_case(rng)
        except ValueError:
            i += 1
            continue
        data = dict(case["data"])
        data["t1"] = tuple(data["t1"])
        data["n1"] = None
        case["data"] = data
        ctx.count("interior_lifts", nint)
        src = jast.ps(case["body"])
        if "|safe" in src:
            ctx.count("with_safe_const")
        check_case(ctx, case, exprs)
        for e in exprs:
            foldable = []
            jast.walk_expr(e, lambda x: foldable.append(1) if x[0] not in ("const", "name") and not has_name(x) else None)
            if foldable:
                ctx.dist([case["mode"], exprgen.skeleton(e)])
        if i < 2:
            ctx.sample({"src": src, "lifted": jast.ps(case["lifted"]), "mode": case["mode"]})
        i += 1


def replay(ctx, case):
    case = dict(case)
    case["lvars"] = unjson_vars(case["lvars"]) if isinstance(case.get("lvars"), dict) else {}
    d = dict(case["data"])
    if isinstance(d.get("t1"), list):
        d["t1"] = tuple(d["t1"])
    d["n1"] = None
    case["data"] = d
    check_case(ctx, case)
