"""C19 — the immutable sandbox never modifies list / dict / set / deque data.

Ground truth for "would this call mutate" is obtained by *executing* the same
method with the same arguments on a deep copy in the harness, never from the
sandbox's own table.  Every name in dir() of the four builtin types is invoked
with a pool of generated arguments along many template paths (direct, subscript,
|attr, set/with alias, map(attribute=), loop variable, macro parameter, do
statement, format-field lookup) on top-level and nested containers, and every
built-in filter is applied to container inputs with container-valued positional
and keyword arguments, in sync and async ImmutableSandboxedEnvironments with
autoescape off and on (filters take different code paths on escaped data), on
inputs whose items are ints, floats, None, booleans, nested lists and dicts, and
also applied to the inner containers of an input through map('<filter>', ...).
Generated {% set %} statements with attribute targets complete the workload:
tuples of attribute targets mixing namespace objects with context containers
(all orders, same / different attribute names, aliases and loop variables) and
namespaces built from context data (namespace(d), namespace(pairs),
namespace(**d), ...) that are assigned to afterwards.
Two further generated groups.  *Methods taken from the type*: the same
methods are reachable unbound through a type object (dict.update(d, x=1)); type
objects reach a template as the `dict` global of every environment, as render
data (the exact types, subclasses, the ABCs named by the sandbox documentation,
defaultdict / Counter / OrderedDict, UserList / UserDict applied to a namespace
whose `data` is the container), inside a context dict and inside env.globals.
Every name of the type object that is a method of the container type or of its
ABC is called with the container as first argument plus the argument pool,
along 13 template paths; ground truth again by executing it on a copy; a name
that modifies the container this way must also be an undefined value when
looked up on the type object.
*Attribute targets in every binding syntax*: `x.attr` written wherever the
grammar has an assignment target or binds a name (set, block set with and
without filters, empty / nested / tuple block set, tuple set, parenthesised and
nested tuples, subscript and dotted targets, for / with targets, macro and
call-block arguments, import aliases, trans variables) x every way of referring
to a context container (name, set / with alias, alias of a nested value, loop
variable, macro and call-block parameter) x 10 positions of the statement (top
level, if, for, macro, block, call block, with, filter block, set block,
autoescape block).  Forms the parser rejects are dropped as syntax errors;
whether a form executes is decided by rendering it with a namespace object.
*Attribute targets whose base name is bound again* (vt/gen/c19_rebind.py):
which object `x` in `x.attr` denotes depends on the scope the name is looked
up in, so every assignment form with an attribute target (set, tuple set, two
attributes, block set with filter / nested in a set block / nested in a set
block with the same target / followed by a read, right-hand sides and bodies
that read the name) is crossed with 21 constructs that bind the same base name
again (inner set to a namespace / with data / in an if / in a tuple / twice /
to another context container / to itself, block set of the name, a set block
with the same target, import aliases, a macro of that name, for target / tuple
target / else branch, with, macro parameter and default, call-block parameter)
in every position: before the statement, inside the body of the block set,
inside a loop in that body, after the statement, around it (the statement in
the scope the construct opens), and in the statement's own target list - x the
references to context containers x the 10 positions of the whole statement.
*Filters under configured policies*: every built-in filter x the first two
positions and every parameter of its signature (inspect) x container arguments
from the context (lists / dicts of ints and of strings, set, deque, nested
list) x rotating inputs (containers, a text, lists and dicts of strings), in
environments where every policy documented in docs/api.rst "Policies" has a
non-default, type-correct value (two sets: sequence-valued policies as list and
as tuple); the string-valued data also runs under the default policies.
*Entry points*: the groups above all render through Template.render(**data).
Every other documented way to run a template on a caller-supplied mapping is
exercised too (vt/gen/c19_entries.py): render(mapping), render(mapping, **kw),
generate, stream (plain / buffered), make_module(vars [, shared] [, locals]),
new_context(vars [, shared=True|False] [, locals]) + root_render_func, the same
Context rendered twice, blocks[name](context), render_async / generate_async /
make_module_async / async root_render_func and blocks, sync entry points on an
async environment - x 41 templates whose constructs make the engine derive
contexts or bind names (include / import-with-context inside for, with, macro,
call block, filter and set blocks; scoped blocks in loops, in a parent template;
a pass_context callable from the data called inside for / with / macro / call
block; top-level set / for / macro / import that reuse or add names; a
read-only control).  Here the caller's mapping ITSELF (top-level key set and
every value) and the caller's `locals` mapping are compared before/after.
After each render every context value is compared with the deep copy taken
before it; the comparison is type-exact at every level (1 != '1' != True).
"""
from __future__ import annotations

import collections
import collections.abc
import copy
import inspect

from vt.gen import c19_entries as E
from vt.gen import c19_rebind as RB

PID = "C19"
LEVEL = "exploration"
TECHNIQUE = ("before/after deep comparison of context containers (default and fully non-default "
             "environment policies) + execution-derived mutator ground truth, "
             "enumerated method x argument x path table (on instances and through type objects), filter x "
             "argument table, attribute targets in every name-binding statement form, attribute targets "
             "whose base name is shadowed or rebound before / inside / after / around the statement, and the caller's "
             "mapping itself compared over every documented entry point x context-deriving construct")
RULE = ("method cases: (container type, target expression, name from dir(type), argument tuple "
        "from a fixed pool, template path, sync/async), enumerated completely; filter cases: "
        "(filter from env.filters, container input, positional container argument or keyword "
        "argument named after each parameter of the filter's signature with container/scalar "
        "values, consumption form [print, list, loop, via-map = the filter applied to every "
        "element of the input through map('<filter>', args)], sync/async, autoescape off/on), "
        "enumerated completely; set-statement cases: every ordered pair (and 8 triples) of "
        "attribute targets over {2 namespaces, context dicts/list/object, set/with alias of a "
        "context dict, loop variables over dicts and lists} x attribute-name patterns (all same, "
        "partly same, different, existing keys), and 11 ways to build a namespace from context "
        "data x 8 follow-up attribute assignments (plain, tuple, block set, inside macro, inside "
        "loop); type-object method cases: (type object source [dict global, exact types / subclasses / "
        "ABCs / defaultdict, Counter, OrderedDict / UserList, UserDict as render data, types inside a "
        "context dict, types inside env.globals] x container type x every name in dir(type object) "
        "that is also a name of the container type or its ABC x target expression x argument tuple x "
        "13 template paths [direct, subscript, |attr, set/with alias of the method, alias of the type, "
        "map(attribute=), loop variable, macro parameter, do, call block, filter argument, namespace-"
        "held type] x sync/async x autoescape), enumerated completely in thorough for argument tuples "
        "that modify a copy (quick: one or two rotating paths and one sync/autoescape combination per "
        "row, a sixteenth of the non-modifying tuples); attribute-target cases: (28 statement forms that "
        "bind a name, written with an attribute target x 18 references [2 namespaces as controls, "
        "context dict/list/set/deque/object by name, set/with aliases, aliases of nested values and of "
        "filter results, loop variables, macro and call-block parameters] x 10 positions of the statement "
        "x attribute names new/existing) for every form the parser accepts, the rejected forms once per "
        "reference (quick: top level plus a rotating third of the other positions, one attribute name "
        "and one sync/autoescape combination per row); rebound-name cases: (12 assignment forms with an "
        "attribute target [set, right-hand side reading the name, tuple first / last, two attributes, block "
        "set plain / text first / with filter / body reading the name / nested in a set block with the same "
        "target / nested in another set block / followed by a read] x 21 constructs binding the base name "
        "again [set to a namespace plain / with data / in an if / in a tuple / twice, set to another "
        "container, set to itself, block set of the name, set block with the same target, import-as, "
        "from-import-as, macro of that name, for target / tuple target / target then set / else, with, with "
        "of two names, macro parameter / default parameter, call-block parameter] x position [before, inside "
        "the block body, inside a loop in the block body, after, around (scoped constructs), plus 3 forms "
        "whose own tuple target binds the name] x 18 references x 10 positions of the whole x attribute "
        "name), thorough: all references and positions, one rotating sync/autoescape combination per row; quick: per "
        "(form, construct, position) the context dict d, two rotating container references and one "
        "namespace control at one rotating position of the whole; "
        "policy-table cases: (filter from env.filters x "
        "[positional argument 1, positional argument 2, keyword argument named after each parameter of "
        "the filter's signature] x container argument from the context [list/dict of ints, list/dict of "
        "strings, set, deque, nested list] x one (thorough: four) rotating input(s) from [7 container "
        "inputs, text, list/dict of strings] x policy set [two sets giving every policy documented in "
        "docs/api.rst a non-default type-correct value; the default policies for the string-valued data] "
        "x consumption form x sync/async x autoescape), every (filter, parameter, value) on every seed "
        "(quick: one policy set, form and sync/autoescape combination per row, rotating); entry-point "
        "cases: (41 templates [include / import with context inside for, for-else, filtered / recursive / "
        "unpacking / nested for, with, macro, call block, filter block, set block; scoped block in for / with / "
        "nested for / parent template; self.block() in a loop; pass_context callable from the data in for / "
        "with / macro / call block / filter argument; top-level set, block set, for target, macro, import, "
        "from-import reusing a data name or adding one; read-only control] x 23 entry points [render(**kw), "
        "render(mapping), render(mapping, **kw), generate, stream, buffered stream, make_module(vars / shared / "
        "locals), new_context(vars / shared=True / locals) + root_render_func, one shared Context rendered "
        "twice, blocks[name](context) shared / not shared, render_async, generate_async, make_module_async] x "
        "sync/async environment x autoescape), enumerated completely (quick: one autoescape setting per row, "
        "rotating); the mapping passed in and the locals mapping are what is compared; (method, "
        "filter and earlier set-statement cases "
        "in quick: a seed-rotated "
        "quarter of the non-mutating argument tuples and one direct consumption form per row, "
        "via-map on inputs whose elements are containers; method cases alternate autoescape by "
        "row, direct filter cases run sync under both autoescape settings and async under one "
        "alternating by row, via-map cases one of the four combinations per row); inputs hold non-string items (ints, floats, None, bools, "
        "nested lists/dicts/sets/deques); thorough "
        "adds seeded random compositions (2-3 method templates + 1 filter template rendered one "
        "after the other against the same data object); a "
        "case is distinct by that tuple and non-trivial when the template compiled and the "
        "render got as far as evaluating the container expression (a render that ends in "
        "a template *syntax* error is not counted)")
LEVEL_TEXT = ("held (apart from recorded findings) on the complete enumerated table of public+dunder "
              "method names x argument pool x paths and filter x argument table; not a proof over all templates")
ASSUMPTIONS = [
    "containers are of the exact builtin types list, dict, set, collections.deque; subclasses are not generated",
    "equality is element-wise == with exact type at every level (so 1, '1', 1.0 and True are all different; deque maxlen included) between the rendered-with data and a second, identical build of the data; once per shard that build is checked to equal copy.deepcopy of the first (plus attribute dicts of plain holder objects)",
    "a (method, arguments) pair counts as an attempted modification iff executing it on a deep copy changes the copy",
    "set statements with attribute targets: only the before/after comparison of the context data is judged (the documentation promises an exception for non-namespace targets; which one is not checked here); a namespace built from context data is a new object, so assigning its attributes must leave that data as it was",
    "type objects: a call counts as an attempted modification iff executing getattr(type object, name)(container, arguments) on a deep copy changes the copy; only names that are methods of the container's builtin type or of its ABC are generated - methods a class adds on its own (Counter.subtract, OrderedDict.move_to_end) are application-provided functions like any helper the application passes in, not methods of list/dict/set/deque; Y['name'] and map(attribute='name') on a type object may subscript the type instead of reaching the method, there only the data comparison is judged",
    "attribute targets: only the before/after comparison of the context data is judged, never which exception is raised; a statement form counts as exercised when it compiles (the namespace controls show how many forms run to completion)",
    "rebound names: only the before/after comparison of the context data is judged - whether the statement raises, or legitimately stores into a namespace the name denotes at that point, is not; the namespace references are controls (rebind_namespace_controls_ok counts the generated templates that run to the end when the name is a namespace all along), forms the parser rejects are dropped as syntax errors",
    "policies: only the policies documented in docs/api.rst are configured (the counter policies_set_non_default reports how many of the documented names the two sets cover); values are type-correct per that documentation (json.dumps_function is a function with the signature of json.dumps); the policy objects themselves are not compared, only the context data",
    "environments of this check load the do and i18n extensions, a DictLoader with one macro library and a globals entry holding the four container types",
    "entry points: the caller's mapping is an exact dict reachable from the context (with shared=True it IS the context's parent, 'passed as is'; the implementation's own comment says 'we don't want to modify the dict passed'); the `locals` parameter of new_context / make_module is documented ('a dict of local variables for internal usage') and is passed a fresh dict; templates of this group use no globals (a shared context has none) and receive a pass_context callable as data; blocks are called with a fresh context per block",
    "autoescape is an environment option (autoescape=True/False); per-template autoescape blocks are not generated",
]
NSHARDS = {"quick": 16, "thorough": 16}
BUDGET_S = {"quick": 35, "thorough": 400}
FLOORS = {
    "quick": {"evaluations": 11000, "distinct": 11000,
              "counters": {"method_cases": 4000, "mutating_attempts": 1500,
                           "security_errors": 1200, "filter_cases": 7000,
                           "async_renders": 5000, "comparisons": 11000,
                           "method_names": 150, "filters_covered": 40,
                           "defined_checks": 300, "autoescape_renders": 4500,
                           "filter_cases_autoescape": 3500, "via_map_cases": 900,
                           "assign_cases:tuple": 320, "assign_cases:nsinit": 66,
                           "type_method_cases": 800, "type_mutating_attempts": 450,
                           "type_security_errors": 390,
                           "type_method_cases:builtin-global": 23,
                           "type_method_cases:context-exact-type": 140,
                           "type_method_cases:context-subclass": 140,
                           "type_method_cases:context-abc": 90,
                           "type_method_cases:context-stdlib-subclass": 55,
                           "type_method_cases:context-user-wrapper": 55,
                           "type_method_cases:context-dict-of-types": 140,
                           "type_method_cases:env-global": 140,
                           "target_cases:container": 200, "target_block_set_cases": 160,
                           "target_namespace_controls_ok": 26, "target_forms_executing": 4,
                           "type_defined_checks": 68,
                           "assign_cases:rebind": 850, "rebind_cases:container": 640,
                           "rebind_namespace_controls_ok": 170,
                           "rebind_position:before": 240, "rebind_position:inside": 140,
                           "rebind_position:inside-loop": 140, "rebind_position:after": 240,
                           "rebind_position:around": 100, "rebind_position:same-statement": 8,
                           **{"rebind_way:" + w: 35 for w in RB.WAYS},
                           **{"rebind_form:" + f: (45 if "@BODY@" not in t else 85)
                              for f, t in RB.FORMS.items()},
                           "policy_table_cases": 580,
                           "policy_table_cases:non-default-policies": 370,
                           "policy_table_cases:default-policies": 210,
                           "policy_table_keyword_container_cases": 220,
                           "policies_set_non_default": 4,
                           "entry_cases": 700, "entry_outcome:ok": 650,
                           "entry_scope_construct_cases": 500,
                           "entry_shared_scope_construct_ok": 160, "entry_locals_cases": 120,
                           "entry_async_cases": 350, "entry_controls_ok": 12,
                           **{"entry_ok:" + e: (9 if E.ENTRIES[e][0] != "both" else 18)
                              for e in E.ENTRIES}}},
    "thorough": {"evaluations": 60000, "distinct": 60000,
                 "counters": {"method_cases": 30000, "mutating_attempts": 8000,
                              "security_errors": 6000, "filter_cases": 30000,
                              "async_renders": 30000, "comparisons": 60000,
                              "method_names": 150, "filters_covered": 40,
                              "defined_checks": 300, "autoescape_renders": 60000,
                              "filter_cases_autoescape": 40000, "via_map_cases": 20000,
                              "assign_cases:tuple": 420, "assign_cases:nsinit": 88,
                              "type_method_cases": 30000, "type_mutating_attempts": 20000,
                              "type_security_errors": 17000,
                              "type_method_cases:builtin-global": 850,
                              "type_method_cases:context-exact-type": 5700,
                              "type_method_cases:context-subclass": 5700,
                              "type_method_cases:context-abc": 3400,
                              "type_method_cases:context-stdlib-subclass": 2000,
                              "type_method_cases:context-user-wrapper": 2000,
                              "type_method_cases:context-dict-of-types": 5700,
                              "type_method_cases:env-global": 5700,
                              "target_cases:container": 6000, "target_block_set_cases": 4800,
                              "target_namespace_controls_ok": 780, "target_forms_executing": 4,
                              "type_defined_checks": 400,
                              "assign_cases:rebind": 40000, "rebind_cases:container": 36000,
                              "rebind_namespace_controls_ok": 3500,
                              "rebind_position:before": 11000, "rebind_position:inside": 6500,
                              "rebind_position:inside-loop": 6500, "rebind_position:after": 11000,
                              "rebind_position:around": 4800, "rebind_position:same-statement": 90,
                              **{"rebind_way:" + w: 1700 for w in RB.WAYS},
                              **{"rebind_form:" + f: (2200 if "@BODY@" not in t else 4000)
                                 for f, t in RB.FORMS.items()},
                              "policy_table_cases": 15000,
                              "policy_table_cases:non-default-policies": 11800,
                              "policy_table_cases:default-policies": 3400,
                              "policy_table_keyword_container_cases": 7000,
                              "policies_set_non_default": 4,
                              "entry_cases": 2000, "entry_outcome:ok": 1900,
                              "entry_scope_construct_cases": 1500,
                              "entry_shared_scope_construct_ok": 500, "entry_locals_cases": 400,
                              "entry_async_cases": 1000, "entry_controls_ok": 12,
                              **{"entry_ok:" + e: (36 if E.ENTRIES[e][0] != "both" else 72)
                                 for e in E.ENTRIES}}},
}

TYPES = {"list": list, "dict": dict, "set": set, "deque": collections.deque}


class Holder:
    pass


class SubList(list):
    pass


class SubDict(dict):
    pass


class SubSet(set):
    pass


class SubDeque(collections.deque):
    pass


#: type objects handed to the template as data (name in the context -> object)
TYPE_DATA = {
    "List": list, "Dict": dict, "Set": set, "Deque": collections.deque,
    "SubList": SubList, "SubDict": SubDict, "SubSet": SubSet, "SubDeque": SubDeque,
    "MutSeq": collections.abc.MutableSequence, "MutMap": collections.abc.MutableMapping,
    "MutSet": collections.abc.MutableSet,
    "DefaultDict": collections.defaultdict, "Counter": collections.Counter,
    "OrderedDict": collections.OrderedDict,
    "UserList": collections.UserList, "UserDict": collections.UserDict,
}


def make_data():
    o = Holder()
    o.l = [5, 6]
    return {
        "l": [3, 1, 2, 1],
        "ll": [[3, 1], [2]],
        "d": {"a": 1, "b": [1, 2], "c": {"x": {5, 6}}},
        "s": {1, 2, 3},
        "q": collections.deque([3, 1, 2]),
        "q2": collections.deque([1, 2, 3], maxlen=4),
        "nest": {"l": [1, [2, collections.deque([4, 5])], {7, 1}], "t": ([1, 2], {"z": 1})},
        "o": o,
        # argument containers (also reachable from the context, also compared)
        "alist": [9, 1],
        "adict": {"z": 9, "a": 0},
        "aset": {9, 1},
        "adq": collections.deque([9]),
        "pairs": [("k", "v")],
        "lol": [[1], [2, 3]],
        # non-string items of every kind (a filter that rewrites items in place
        # with their string forms leaves the rendered output unchanged)
        "mx": [1, 2.5, None, [1, 2], {"a": 1}, True, (3, [4])],
        "rows": [[1, 2.5], [None, [3]], collections.deque([4, 5])],
        # text and string-valued containers: the values filters are documented for, so
        # that a filter gets past the validation of its arguments
        "text": "call tel:123 or see ftp://example.com/x and https://example.com <b>now</b>",
        "words": ["see ftp://example.com/x", "b c", "<i>"],
        "astrs": ["ftp:", "tel:"],
        "sdict": {"k": "v", "a": "b"},
        # type objects as data (their methods take the container as first argument)
        **TYPE_DATA,
        "tys": {"list": list, "dict": dict, "set": set, "deque": collections.deque},
    }


def equal(a, b):
    if isinstance(a, Holder) and isinstance(b, Holder):
        return equal(vars(a), vars(b))
    if type(a) is not type(b):
        return False
    if isinstance(a, (list, tuple, collections.deque)):
        if isinstance(a, collections.deque) and a.maxlen != b.maxlen:
            return False
        return len(a) == len(b) and all(equal(x, y) for x, y in zip(a, b))
    if isinstance(a, dict):
        return len(a) == len(b) and all(k in b and equal(a[k], b[k]) for k in a)
    return a == b


def changed_vars(data, snap):
    return [k for k in snap if k not in data or not equal(data[k], snap[k])] + \
           [k for k in data if k not in snap]


# targets per type: (template expression, resolver on a data dict)
TARGETS = {
    "list": [("l", lambda D: D["l"]), ("d.b", lambda D: D["d"]["b"]),
             ("ll[0]", lambda D: D["ll"][0]), ("nest.t[0]", lambda D: D["nest"]["t"][0]),
             ("o.l", lambda D: D["o"].l)],
    "dict": [("d", lambda D: D["d"]), ("d.c", lambda D: D["d"]["c"]),
             ("nest.t[1]", lambda D: D["nest"]["t"][1])],
    "set": [("s", lambda D: D["s"]), ("d.c.x", lambda D: D["d"]["c"]["x"]),
            ("nest.l[2]", lambda D: D["nest"]["l"][2])],
    "deque": [("q", lambda D: D["q"]), ("q2", lambda D: D["q2"]),
              ("nest.l[1][1]", lambda D: D["nest"]["l"][1][1])],
}

# argument pool: template text -> (args, kwargs) factory on a data dict
ARGPOOL = [
    ("", lambda D: ((), {})),
    ("1", lambda D: ((1,), {})),
    ("0", lambda D: ((0,), {})),
    ("9", lambda D: ((9,), {})),
    ("-1", lambda D: ((-1,), {})),
    ("'a'", lambda D: (("a",), {})),
    ("'z'", lambda D: (("z",), {})),
    ("alist", lambda D: ((D["alist"],), {})),
    ("adict", lambda D: ((D["adict"],), {})),
    ("aset", lambda D: ((D["aset"],), {})),
    ("pairs", lambda D: ((D["pairs"],), {})),
    ("0, 9", lambda D: ((0, 9), {})),
    ("'z', 9", lambda D: (("z", 9), {})),
    ("1, 2", lambda D: ((1, 2), {})),
    ("z=1", lambda D: ((), {"z": 1})),
    ("reverse=true", lambda D: ((), {"reverse": True})),
    ("aset, alist", lambda D: ((D["aset"], D["alist"]), {})),
]

# paths: T = target expression, M = method name, A = argument text
PATHS = {
    "direct": "{{ T.M(A) }}",
    "subscript": "{{ T['M'](A) }}",
    "attr_filter": "{{ (T|attr('M'))(A) }}",
    "set_alias": "{% set m = T.M %}{{ m(A) }}",
    "with_alias": "{% with m = T.M %}{{ m(A) }}{% endwith %}",
    "map_attribute": "{{ ([T]|map(attribute='M')|first)(A) }}",
    "loop_var": "{% for c in [T] %}{{ c.M(A) }}{% endfor %}",
    "macro_param": "{% macro mm(c) %}{{ c.M(A) }}{% endmacro %}{{ mm(T) }}",
    "do_stmt": "{% do T.M(A) %}",
    "call_block": "{% call T.M(A) %}{% endcall %}",
    "filter_arg": "{{ 1|default(T.M(A)) }}",
    "format_field": "{{ '{0.M}'.format(T) }}",
    "format_map_field": "{{ '{x.M}'.format_map({'x': T}) }}",
}
NONCALL_PATHS = {"format_field", "format_map_field"}

_envs = {}


def _dumps_plain(obj, **kwargs):
    import json

    return json.dumps(obj, **kwargs)


#: non-default, type-correct values for every policy documented in docs/api.rst
#: ("Policies"); two sets so that sequence-valued policies come as list and tuple
POLICY_SETS = {
    "default": {},
    "custom-a": {"truncate.leeway": 0, "urlize.rel": "nofollow noopener", "urlize.target": "_blank",
                 "urlize.extra_schemes": ["tel:", "sip:"], "json.dumps_function": _dumps_plain,
                 "json.dumps_kwargs": {"sort_keys": False, "separators": (",", ":")},
                 "ext.i18n.trimmed": True},
    "custom-b": {"truncate.leeway": 11, "urlize.rel": "external", "urlize.target": "frame1",
                 "urlize.extra_schemes": ("tel:",), "json.dumps_function": _dumps_plain,
                 "json.dumps_kwargs": {"sort_keys": True, "indent": 1, "default": repr},
                 "ext.i18n.trimmed": True},
}


def documented_policies():
    """Policy names listed in the Policies section of docs/api.rst of the tree under test."""
    import os
    import re

    from vt import core

    try:
        with open(os.path.join(core.REPO, "docs", "api.rst"), encoding="utf-8") as f:
            text = f.read()
    except OSError:
        return []
    m = re.search(r"^Policies\n-+\n(.*?)^\S[^\n]*\n[-=~^]{3,}\n", text, re.S | re.M)
    sect = m.group(1) if m else ""
    return sorted(set(re.findall(r"^``([a-z0-9_.]+)``:", sect, re.M)))


def get_env(is_async, autoescape=False, policies="default"):
    from jinja2.sandbox import ImmutableSandboxedEnvironment

    key = (is_async, autoescape) if policies == "default" else (is_async, autoescape, policies)
    env = _envs.get(key)
    if env is None:
        from jinja2 import DictLoader

        env = ImmutableSandboxedEnvironment(enable_async=is_async,
                                            extensions=["jinja2.ext.do", "jinja2.ext.i18n"],
                                            cache_size=0, autoescape=autoescape,
                                            loader=DictLoader({"alib": "{% macro am() %}x{% endmacro %}",
                                                               **E.AUX}))
        # type objects an application registered as globals
        env.globals["gtypes"] = {"list": list, "dict": dict, "set": set,
                                 "deque": collections.deque}
        # application configuration: every documented policy set to a non-default value
        env.policies.update(copy.deepcopy(POLICY_SETS[policies]))
        _envs[key] = env
    return env


def render(source, is_async, autoescape=False, policies="default"):
    """-> (data, snapshot, outcome, message); outcome in ok/security/syntax/other"""
    from jinja2.exceptions import SecurityError, TemplateSyntaxError

    env = get_env(is_async, autoescape, policies)
    data = make_data()
    snap = make_data()      # == copy.deepcopy(data): checked once per shard in run()
    try:
        tmpl = env.from_string(source)
    except TemplateSyntaxError as e:
        return data, snap, "syntax", str(e)
    try:
        out = tmpl.render(**data)
        return data, snap, "ok", out
    except SecurityError as e:
        return data, snap, "security", str(e)
    except Exception as e:
        return data, snap, "other", f"{type(e).__name__}: {e}"[:300]


def dry_run(tname, ti, mname, ai):
    """Execute the method on a fresh copy in the harness: does it mutate?"""
    D = make_data()
    snap = copy.deepcopy(D)
    obj = TARGETS[tname][ti][1](D)
    args, kwargs = ARGPOOL[ai][1](D)
    try:
        meth = getattr(obj, mname)
    except AttributeError:
        return False
    if not callable(meth):
        return False
    try:
        meth(*args, **kwargs)
    except Exception:
        pass
    return bool(changed_vars(D, snap))


_mut_cache = {}


def mutates(tname, ti, mname, ai):
    k = (tname, ti, mname, ai)
    if k not in _mut_cache:
        _mut_cache[k] = dry_run(tname, ti, mname, ai)
    return _mut_cache[k]


def is_mutator(tname, mname):
    """ground truth: some argument tuple of the pool makes this method modify a copy"""
    return any(mutates(tname, 0, mname, ai) for ai in range(len(ARGPOOL))) or \
        (tname == "deque" and any(mutates(tname, 1, mname, ai) for ai in range(len(ARGPOOL))))


def method_case(ctx, case, count=True):
    tname, ti, mname, ai, path, is_async = (case["type"], case["target"], case["method"],
                                            case["args"], case["path"], case["async"])
    texpr = TARGETS[tname][ti][0]
    atext = ARGPOOL[ai][0]
    autoescape = bool(case.get("autoescape", False))
    source = PATHS[path].replace("T", texpr).replace("M", mname).replace("A", atext)
    data, snap, outcome, msg = render(source, is_async, autoescape)
    if outcome == "syntax":
        if count:
            ctx.count("syntax_rejected")
        return
    would = mutates(tname, ti, mname, ai) and path not in NONCALL_PATHS
    if count:
        ctx.ev()
        ctx.count("method_cases")
        ctx.count("comparisons")
        ctx.count("outcome:" + outcome)
        if is_async:
            ctx.count("async_renders")
        if autoescape:
            ctx.count("autoescape_renders")
        if would:
            ctx.count("mutating_attempts")
            ctx.count("mutating_attempts:" + tname)
        ctx.dist(["m", tname, ti, mname, ai, path, is_async, autoescape])
    full = dict(case, source=source)
    ch = changed_vars(data, snap)
    key = f"{tname}.{mname}"
    if ch:
        ctx.violation(key, f"{source!r} (async={is_async}, autoescape={autoescape}) modified context value(s) {ch}: "
                           f"before {[snap[k] for k in ch if k in snap]!r} after "
                           f"{[data.get(k) for k in ch]!r}; render outcome {outcome}: {msg[:120]!r}",
                      full)
        return
    if would:
        if outcome == "security":
            if count:
                ctx.count("security_errors")
        else:
            ctx.violation(key, f"{source!r} (async={is_async}, autoescape={autoescape}): the call modifies a copy when "
                               f"executed directly, the data is unchanged, but the render "
                               f"ended with {outcome}: {msg[:200]!r} instead of SecurityError",
                          full)


def defined_case(ctx, case, count=True):
    """A mutator (by execution ground truth) must be an undefined value."""
    tname, ti, mname, is_async = case["type"], case["target"], case["method"], case["async"]
    texpr = TARGETS[tname][ti][0]
    form = case["form"]
    src = {"dot": "{{ T.M is defined }}", "subscript": "{{ T['M'] is defined }}",
           "attr": "{{ T|attr('M') is defined }}",
           "map": "{{ ([T]|map(attribute='M')|first) is defined }}"}[form]
    source = src.replace("T", texpr).replace("M", mname)
    autoescape = bool(case.get("autoescape", False))
    data, snap, outcome, msg = render(source, is_async, autoescape)
    if count:
        ctx.ev()
        ctx.count("defined_checks")
        ctx.count("comparisons")
        if autoescape:
            ctx.count("autoescape_renders")
        ctx.dist(["def", tname, ti, mname, form, is_async, autoescape])
    full = dict(case, source=source)
    if changed_vars(data, snap):
        ctx.violation(f"{tname}.{mname}", f"{source!r} modified data", full)
    elif not (outcome == "security" or (outcome == "ok" and msg == "False")):
        ctx.violation(f"{tname}.{mname}",
                      f"{source!r} (async={is_async}) rendered {outcome}:{msg!r}: the mutating "
                      f"method {tname}.{mname} is handed to the template as a defined value "
                      f"(expected an undefined value)", full)


# ----------------------------------------------- methods taken from the TYPE
# The same methods are reachable unbound through the type object:
# dict.update(d, x=1).  Type objects reach a template as the `dict` global of
# every environment, as render data (exact types, subclasses, the ABCs whose
# mixin methods call the container's own mutators, stdlib subclasses, the
# User* wrappers operating on `.data`), inside containers and as env.globals.
# (expression, python object, kind, container types it applies to, receiver form)
TYPE_SOURCES = [
    ("dict", dict, "builtin-global", ("dict",), "plain"),
    ("List", list, "context-exact-type", ("list",), "plain"),
    ("Dict", dict, "context-exact-type", ("dict",), "plain"),
    ("Set", set, "context-exact-type", ("set",), "plain"),
    ("Deque", collections.deque, "context-exact-type", ("deque",), "plain"),
    ("SubList", SubList, "context-subclass", ("list",), "plain"),
    ("SubDict", SubDict, "context-subclass", ("dict",), "plain"),
    ("SubSet", SubSet, "context-subclass", ("set",), "plain"),
    ("SubDeque", SubDeque, "context-subclass", ("deque",), "plain"),
    ("MutSeq", collections.abc.MutableSequence, "context-abc", ("list", "deque"), "plain"),
    ("MutMap", collections.abc.MutableMapping, "context-abc", ("dict",), "plain"),
    ("MutSet", collections.abc.MutableSet, "context-abc", ("set",), "plain"),
    ("DefaultDict", collections.defaultdict, "context-stdlib-subclass", ("dict",), "plain"),
    ("Counter", collections.Counter, "context-stdlib-subclass", ("dict",), "plain"),
    ("OrderedDict", collections.OrderedDict, "context-stdlib-subclass", ("dict",), "plain"),
    ("UserList", collections.UserList, "context-user-wrapper", ("list",), "data-attribute"),
    ("UserDict", collections.UserDict, "context-user-wrapper", ("dict",), "data-attribute"),
    ("tys.list", list, "context-dict-of-types", ("list",), "plain"),
    ("tys['dict']", dict, "context-dict-of-types", ("dict",), "plain"),
    ("tys.set", set, "context-dict-of-types", ("set",), "plain"),
    ("tys['deque']", collections.deque, "context-dict-of-types", ("deque",), "plain"),
    ("gtypes.list", list, "env-global", ("list",), "plain"),
    ("gtypes.dict", dict, "env-global", ("dict",), "plain"),
    ("gtypes['set']", set, "env-global", ("set",), "plain"),
    ("gtypes.deque", collections.deque, "env-global", ("deque",), "plain"),
]
# @Y@ = type expression, @M@ = method name, @C@ = receiver and arguments
TYPE_PATHS = {
    "direct": "{{ @Y@.@M@(@C@) }}",
    "subscript": "{{ @Y@['@M@'](@C@) }}",
    "attr_filter": "{{ (@Y@|attr('@M@'))(@C@) }}",
    "set_alias": "{% set m = @Y@.@M@ %}{{ m(@C@) }}",
    "type_alias": "{% set ty = @Y@ %}{{ ty.@M@(@C@) }}",
    "with_alias": "{% with m = @Y@.@M@ %}{{ m(@C@) }}{% endwith %}",
    "map_attribute": "{{ ([@Y@]|map(attribute='@M@')|first)(@C@) }}",
    "loop_var": "{% for c in [@Y@] %}{{ c.@M@(@C@) }}{% endfor %}",
    "macro_param": "{% macro mm(c) %}{{ c.@M@(@C@) }}{% endmacro %}{{ mm(@Y@) }}",
    "do_stmt": "{% do @Y@.@M@(@C@) %}",
    "call_block": "{% call @Y@.@M@(@C@) %}{% endcall %}",
    "filter_arg": "{{ 1|default(@Y@.@M@(@C@)) }}",
    "namespace_held": "{% set tn = namespace(t=@Y@) %}{{ tn.t.@M@(@C@) }}",
}
#: the ABC the sandbox documentation names next to each builtin container type
TYPE_ABCS = {"list": collections.abc.MutableSequence, "deque": collections.abc.MutableSequence,
             "dict": collections.abc.MutableMapping, "set": collections.abc.MutableSet}


def type_method_names(tyobj, tname):
    """Names of the type object that are methods of the builtin container type
    or of its ABC (possibly overridden by the type object).  Methods a class
    adds on its own (Counter.subtract, OrderedDict.move_to_end, ...) are
    application-provided functions, not methods of list/dict/set/deque."""
    scope = set(dir(TYPES[tname])) | set(dir(TYPE_ABCS[tname]))
    names = sorted(dir(tyobj))
    return [n for n in names if n in scope], [n for n in names if n not in scope]


#: Y['M'] and map(attribute='M') look up an item before an attribute, and a
#: type object can be subscripted (list['sort'] is a generic alias of list): the
#: template may never reach the method, so only the data comparison is judged
TYPE_PATHS_LOOKUP_AMBIGUOUS = {"subscript", "map_attribute"}


def type_receiver(form, obj):
    if form == "data-attribute":
        from jinja2.utils import Namespace

        return Namespace(data=obj)
    return obj


def dry_run_type(si, tname, ti, mname, ai):
    """Executes getattr(type object, name)(container, *args) on a fresh copy."""
    _, tyobj, _, _, rform = TYPE_SOURCES[si]
    try:
        meth = getattr(tyobj, mname)
    except AttributeError:
        return False
    if not callable(meth):
        return False
    D = make_data()
    snap = make_data()      # equal to a deep copy of D: checked once per shard in run()
    obj = TARGETS[tname][ti][1](D)
    args, kwargs = ARGPOOL[ai][1](D)
    try:
        meth(type_receiver(rform, obj), *args, **kwargs)
    except Exception:
        pass
    return bool(changed_vars(D, snap))


_tmut_cache = {}


def type_mutates(si, tname, ti, mname, ai):
    # sources sharing the python object and receiver form share the verdict
    k = (id(TYPE_SOURCES[si][1]), TYPE_SOURCES[si][4], tname, ti, mname, ai)
    if k not in _tmut_cache:
        _tmut_cache[k] = dry_run_type(si, tname, ti, mname, ai)
    return _tmut_cache[k]


def type_case(ctx, case, count=True):
    si, tname, ti, mname, ai, path, is_async = (case["tsource"], case["type"], case["target"],
                                                case["method"], case["args"], case["path"],
                                                case["async"])
    yexpr, _, ykind, _, rform = TYPE_SOURCES[si]
    texpr = TARGETS[tname][ti][0]
    recv = f"namespace(data={texpr})" if rform == "data-attribute" else texpr
    atext = ARGPOOL[ai][0]
    autoescape = bool(case.get("autoescape", False))
    source = (TYPE_PATHS[path].replace("@Y@", yexpr).replace("@M@", mname)
              .replace("@C@", recv + (", " + atext if atext else "")))
    data, snap, outcome, msg = render(source, is_async, autoescape)
    if outcome == "syntax":
        if count:
            ctx.count("syntax_rejected")
        return
    would = type_mutates(si, tname, ti, mname, ai)
    if count:
        ctx.ev()
        ctx.count("type_method_cases")
        ctx.count("type_method_cases:" + ykind)
        ctx.count("comparisons")
        ctx.count("type_outcome:" + outcome)
        if is_async:
            ctx.count("async_renders")
        if autoescape:
            ctx.count("autoescape_renders")
        if would:
            ctx.count("type_mutating_attempts")
            ctx.count("type_mutating_attempts:" + tname)
        ctx.dist(["t", si, tname, ti, mname, ai, path, is_async, autoescape])
    full = dict(case, template=source)
    ch = changed_vars(data, snap)
    key = f"type-object-method:{ykind}:{tname}"
    if ch:
        ctx.violation(key, f"{source!r} (async={is_async}, autoescape={autoescape}): the method "
                           f"{mname} taken from the type object {yexpr} ({ykind}) modified context "
                           f"value(s) {ch}: before {[snap[k] for k in ch if k in snap]!r} after "
                           f"{[data.get(k) for k in ch]!r}; render outcome {outcome}: {msg[:120]!r}",
                      full)
        return
    if would and path not in TYPE_PATHS_LOOKUP_AMBIGUOUS:
        if outcome == "security":
            if count:
                ctx.count("type_security_errors")
        else:
            ctx.violation(key, f"{source!r} (async={is_async}, autoescape={autoescape}): "
                               f"{yexpr}.{mname} ({ykind}) modifies a copy of the container when "
                               f"executed directly, the data is unchanged, but the render ended "
                               f"with {outcome}: {msg[:200]!r} instead of SecurityError", full)


def type_is_mutator(si, tname, mname):
    return any(type_mutates(si, tname, 0, mname, ai) for ai in range(len(ARGPOOL)))


def type_defined_case(ctx, case, count=True):
    """A mutator (by execution ground truth) looked up on a type object must be
    an undefined value as well."""
    si, mname, is_async = case["tsource"], case["method"], case["async"]
    yexpr, _, ykind, _, _ = TYPE_SOURCES[si]
    src = {"dot": "{{ @Y@.@M@ is defined }}", "attr": "{{ @Y@|attr('@M@') is defined }}",
           "alias": "{% set ty = @Y@ %}{{ ty.@M@ is defined }}"}[case["form"]]
    source = src.replace("@Y@", yexpr).replace("@M@", mname)
    autoescape = bool(case.get("autoescape", False))
    data, snap, outcome, msg = render(source, is_async, autoescape)
    if count:
        ctx.ev()
        ctx.count("type_defined_checks")
        ctx.count("comparisons")
        if is_async:
            ctx.count("async_renders")
        if autoescape:
            ctx.count("autoescape_renders")
        ctx.dist(["tdef", si, case["type"], mname, case["form"], is_async, autoescape])
    full = dict(case, template=source)
    key = f"type-object-method:{ykind}:{case['type']}"
    if changed_vars(data, snap):
        ctx.violation(key, f"{source!r} modified data", full)
    elif not (outcome == "security" or (outcome == "ok" and msg == "False")):
        ctx.violation(key, f"{source!r} (async={is_async}) rendered {outcome}:{msg!r}: the method "
                           f"{mname}, which modifies a {case['type']} passed as its first argument, "
                           f"is handed to the template as a defined value when looked up on the type "
                           f"object {yexpr} ({ykind}) (expected an undefined value)", full)


# --------------------------------------------------------------- filters
INPUTS = ["l", "ll", "d", "s", "q", "lol", "mx", "rows", "nest.l", "pairs", "d.b", "adict"]
QUICK_INPUTS = INPUTS[:7]
#: inputs whose elements are themselves containers: the via-map form applies the
#: filter to each element
NESTED_INPUTS = ["ll", "lol", "mx", "rows", "nest.l", "pairs"]
ARGVALS = ["alist", "adict", "aset", "adq", "lol", "l", "1", "'a'", "true", "none"]
FORMS = {"print": "{{ X|F }}", "list": "{{ X|F|list }}",
         "loop": "{% for i in X|F %}{{ i }}{% endfor %}",
         # the filter named as the first argument of map, remaining arguments passed on
         "map": "{{ X|map(F)|list }}", "map_join": "{{ X|map(F)|join(' ') }}"}
DIRECT_FORMS = ["print", "list", "loop"]
MAP_FORMS = ["map", "map_join"]


def filter_source(name, inp, argtext, form):
    if form in MAP_FORMS:
        fexpr = repr(name) + (f", {argtext}" if argtext else "")
    else:
        fexpr = name + (f"({argtext})" if argtext else "")
    return FORMS[form].replace("X", inp).replace("F", fexpr)


def filter_params(env, name):
    f = env.filters[name]
    try:
        sig = inspect.signature(f)
    except (TypeError, ValueError):
        return []
    names = [p.name for p in sig.parameters.values()
             if p.kind in (p.POSITIONAL_OR_KEYWORD, p.KEYWORD_ONLY)]
    return names


def filter_table(quick=False):
    """Deterministic list of (filter, input, argtext, argkey)."""
    env = get_env(False)
    out = []
    inputs = QUICK_INPUTS if quick else INPUTS
    kwvals = ARGVALS[:5] + ["1"] if quick else ARGVALS
    for name in sorted(env.filters):
        params = filter_params(env, name)
        for inp in inputs:
            out.append((name, inp, "", "none"))
            for v in ARGVALS[:6]:
                out.append((name, inp, v, "pos0"))
            for v in ARGVALS[:3]:
                out.append((name, inp, f"1, {v}", "pos1"))
            for p in params:
                for v in kwvals:
                    out.append((name, inp, f"{p}={v}", p))
    # input and argument must be different context values so a modification
    # can be attributed to one operand
    return [r for r in out if r[2].split("=")[-1].split(",")[-1].strip() != r[1]]


# Policy table: every filter x every parameter of its signature (and the first
# two positions) x container arguments from the context, run in environments
# whose documented policies are all set to non-default values; the values and
# inputs added here (strings, lists and dicts of strings) also run once under
# the default policies.
POLICY_ARGVALS = ["alist", "astrs", "adict", "sdict", "aset", "adq", "lol"]
POLICY_NEW_VALUES = {"astrs", "sdict", "text", "words"}
POLICY_INPUTS = QUICK_INPUTS + ["text", "words", "astrs", "sdict"]


def policy_filter_table(quick, seed):
    """-> [(filter, input, argtext, argkey, argument value)]; one (thorough: four)
    rotating input(s) per (filter, parameter, value), so every such triple runs on
    every seed."""
    env = get_env(False)
    out = []
    for fi, name in enumerate(sorted(env.filters)):
        args = [(v, "pos0", v) for v in POLICY_ARGVALS] + \
               [(f"1, {v}", "pos1", v) for v in POLICY_ARGVALS[:4]] + \
               [(f"{p}={v}", p, v) for p in filter_params(env, name) for v in POLICY_ARGVALS]
        for ri, (argtext, argkey, val) in enumerate(args):
            k = (fi + ri + seed) % len(POLICY_INPUTS)
            inputs = [i for i in POLICY_INPUTS[k:] + POLICY_INPUTS[:k] if i != val]
            inputs = inputs[:1 if quick else 4]
            for inp in inputs:
                out.append((name, inp, argtext, argkey, val))
    return out


def _where(inp, argtext, argkey, ch):
    """Which operand of the filter was modified: an argument container (named
    by its keyword / position) takes precedence over the input."""
    argval = argtext.split("=")[-1].split(",")[-1].strip()
    if argval in ch:
        return "arg:" + argkey
    if inp.split(".")[0].split("[")[0] in ch:
        return "input"
    return "other:" + ",".join(ch)


def filter_case(ctx, case, count=True):
    name, inp, argtext, argkey, form, is_async = (case["filter"], case["input"], case["argtext"],
                                                  case["argkey"], case["form"], case["async"])
    autoescape = bool(case.get("autoescape", False))
    policies = case.get("policies", "default")
    source = filter_source(name, inp, argtext, form)
    data, snap, outcome, msg = render(source, is_async, autoescape, policies)
    if outcome == "syntax":
        if count:
            ctx.count("syntax_rejected")
        return
    if count and case.get("table") == "policy":
        ctx.count("policy_table_cases")
        ctx.count("policy_table_cases:" + ("default-policies" if policies == "default"
                                           else "non-default-policies"))
        ctx.count("policy_table_outcome:" + outcome)
        if policies != "default" and argkey not in ("pos0", "pos1", "none"):
            ctx.count("policy_table_keyword_container_cases")
    if count:
        ctx.ev()
        ctx.count("filter_cases")
        ctx.count("comparisons")
        ctx.count("filter_outcome:" + outcome)
        if is_async:
            ctx.count("async_renders")
        if autoescape:
            ctx.count("autoescape_renders")
            ctx.count("filter_cases_autoescape")
        if form in MAP_FORMS:
            ctx.count("via_map_cases")
        ctx.dist(["f", name, inp, argtext, form, is_async, autoescape] +
                 ([policies] if policies != "default" else []))
    ch = changed_vars(data, snap)
    if ch:
        where = _where(inp, argtext, argkey, ch)
        key = f"filter:{name}/{where}/" + ("async" if is_async else "sync") + \
              ("/autoescape" if autoescape else "") + \
              ("/non-default-policies" if policies != "default" else "")
        ctx.violation(key, f"{source!r} (async={is_async}, autoescape={autoescape}, policies={policies}"
                           f"{' ' + repr({k: v for k, v in POLICY_SETS[policies].items() if not callable(v)}) if policies != 'default' else ''}) modified context value(s) {ch}: before "
                           f"{[snap[k] for k in ch if k in snap]!r} after {[data.get(k) for k in ch]!r}; "
                           f"outcome {outcome}: {msg[:100]!r}", dict(case, source=source))


# --------------------------------------------------------- fixed statements
STATEMENTS = [
    ("set-attribute-statement", "{% set l.x = 1 %}"),
    ("set-attribute-statement", "{% set d.a = 5 %}"),
    ("set-attribute-statement", "{% set d.b = [] %}"),
    ("list.pop", "{% for x in l %}{{ l.pop() }}{% endfor %}"),
    ("dict.pop", "{% for k in d %}{{ d.pop(k) }}{% endfor %}"),
    ("list.__setitem__", "{{ l.__setitem__(0, 9) }}"),
    ("list.__delitem__", "{{ l.__delitem__(0) }}"),
    ("list.__iadd__", "{{ l.__iadd__([1]) }}"),
    ("dict.__setitem__", "{{ d.__setitem__('a', 9) }}"),
    ("set.__ior__", "{{ s.__ior__(aset) }}"),
    ("deque.__iadd__", "{{ q.__iadd__([1]) }}"),
    ("list.__init__", "{{ l.__init__([9]) }}"),
    ("dict.__init__", "{{ d.__init__(z=1) }}"),
    ("dict.__class__", "{{ d.__class__.clear(d) }}"),
    ("list.sort.__call__", "{{ l.sort.__call__() }}"),
    ("list.append.__self__", "{{ l.append.__self__.append(1) }}"),
    ("global:cycler", "{{ cycler(*l).next() }}"),
    ("copy-then-mutate", "{{ dict(d).clear() }}{{ d.copy().clear() }}"),
    ("copy-then-mutate", "{{ l.copy().append(1) }}{{ (l + []).append(1) }}"),
    ("namespace-held-list", "{{ namespace(v=l).v.append(1) }}"),
    ("namespace-assign", "{% set ns = namespace(v=l) %}{% set ns.v = 3 %}{{ ns.v }}"),
    ("format-lookup", "{{ '{0.append}'.format(l)[:0] }}{{ '%s'|format(l.append)[:0] }}"),
    ("list.extend", "{{ (l|attr('extend'))(alist) }}"),
    ("dict.items", "{{ d|items|list }}{{ d.items()|list }}"),
    ("list.clear", "{{ [l]|map(attribute='clear')|list }}"),
    ("list.clear", "{{ [l, ll]|map('attr', 'clear')|list }}"),
    ("list.clear", "{{ [l]|selectattr('clear')|list }}"),
    ("list.append", "{{ [d]|map(attribute='b.append')|list }}"),
    ("list.append", "{{ [d]|map(attribute='b.append')|map('string')|list }}"),
    ("deque.appendleft", "{{ ([nest]|map(attribute='l.1.1.appendleft')|first)(3) }}"),
    ("filter:sum/arg:start", "{{ lol|sum(start=alist) }}"),
    ("filter:sum/arg:start", "{{ lol|sum(start=[]) }}"),
    ("filter:sum/arg:start", "{{ lol|sum(attribute=0, start=alist) }}"),
    ("filter:sum/input", "{{ [alist, l]|sum(start=[]) }}"),
    ("filter:sum/arg:start", "{{ lol|map('list')|sum(start=alist) }}"),
    ("filters-on-list", "{{ l|sort }}{{ l|reverse|list }}{{ l|unique|list }}{{ l|batch(2, alist)|list }}"),
    ("filters-on-containers", "{{ l|slice(3, alist)|list }}{{ d|dictsort }}{{ q|list }}{{ s|sort }}"),
]


# ------------------------------------------------ generated {% set %} targets
# Attribute assignment ({% set x.attr = ... %}) is documented for namespace
# objects only; applied to anything else it must not store into it.  Generated
# here: tuples of attribute targets mixing real namespaces with containers
# from the context (every order, same and different attribute names, direct
# names, set/with aliases and loop variables), and namespaces initialised from
# context data (namespace(d), namespace(pairs), namespace(**d), ...) that are
# assigned to afterwards: the namespace is a fresh object, the data it was
# built from stays as it was.
ASSIGN_REFS = {
    # name: (wrapper with BODY, reference name, kind)
    "ns": ("BODY", "ns", "namespace"),
    "ns2": ("BODY", "ns2", "namespace"),
    "d": ("BODY", "d", "context-dict"),
    "adict": ("BODY", "adict", "context-dict"),
    "l": ("BODY", "l", "context-list"),
    "o": ("BODY", "o", "context-object"),
    "set_alias": ("{% set m = d %}BODY", "m", "alias-of-context-dict"),
    "with_alias": ("{% with w = adict %}BODY{% endwith %}", "w", "alias-of-context-dict"),
    "loop_var": ("{% for row in [adict, d.c, nest.t[1]] %}BODY{% endfor %}", "row",
                 "loop-variable-dict"),
    "loop_var_list": ("{% for lrow in ll %}BODY{% endfor %}", "lrow", "loop-variable-list"),
}
ASSIGN_NS_PRELUDE = "{% set ns = namespace() %}{% set ns2 = namespace(a=0, k=0) %}"
ASSIGN_ATTRS2 = [("k", "k"), ("a", "a"), ("j", "k"), ("a", "z")]
ASSIGN_TRIPLES = [("ns", "d", "adict"), ("ns", "ns2", "d"), ("d", "ns", "adict"),
                  ("ns", "d", "ns2"), ("ns", "loop_var", "d"), ("ns2", "set_alias", "with_alias"),
                  ("ns", "l", "d"), ("loop_var", "ns", "loop_var")]
ASSIGN_ATTRS3 = [("k", "k", "k"), ("k", "k", "j"), ("j", "k", "k"), ("k", "j", "k"),
                 ("a", "z", "k")]
NS_SOURCES = {
    # name: (wrapper with BODY, namespace constructor expression)
    "dict": ("BODY", "namespace(d)"),
    "arg-dict": ("BODY", "namespace(adict)"),
    "nested-dict": ("BODY", "namespace(d.c)"),
    "dict-in-tuple": ("BODY", "namespace(nest.t[1])"),
    "pairs": ("BODY", "namespace(pairs)"),
    "double-star": ("BODY", "namespace(**adict)"),
    "dict-plus-keyword": ("BODY", "namespace(adict, q=1)"),
    "set-alias": ("{% set src = adict %}BODY", "namespace(src)"),
    "loop-var": ("{% for row in [adict, d.c] %}BODY{% endfor %}", "namespace(row)"),
    "macro-param": ("{% macro mk(x) %}BODY{% endmacro %}{{ mk(adict) }}{{ mk(d) }}", "namespace(x)"),
    "keyword-holding-container": ("BODY", "namespace(v=alist, w=adict)"),
}
NS_FOLLOWUPS = [
    "{% set ns.x = 1 %}{{ ns.x }}",
    "{% set ns.a = 5 %}{{ ns.a }}",
    "{% set ns.z = [] %}",
    "{% set ns.a, ns.x = 1, 2 %}",
    "{% set ns.k %}text{% endset %}",
    "{% macro bump() %}{% set ns.a = 7 %}{% endmacro %}{{ bump() }}{{ bump() }}",
    "{% for i in [1, 2] %}{% set ns.a = i %}{% set ns.z = i %}{% endfor %}{{ ns.a }}",
    "{% set other = namespace() %}{% set other.a, ns.a = 1, 2 %}",
]


def assignment_statements():
    """-> [(mechanism key, source, group)]"""
    out = []

    def build(refs, attrs):
        body = "{% set " + ", ".join(f"{ASSIGN_REFS[r][1]}.{a}" for r, a in zip(refs, attrs)) + \
               " = " + ", ".join(str(i + 1) for i in range(len(refs))) + " %}"
        src = body
        for r in dict.fromkeys(refs):
            src = ASSIGN_REFS[r][0].replace("BODY", src)
        kinds = ",".join(ASSIGN_REFS[r][2] for r in refs)
        same = "same-attr" if len(set(attrs)) < len(attrs) else "different-attrs"
        return (f"set-attribute-tuple:{kinds}:{same}", ASSIGN_NS_PRELUDE + src, "tuple")

    names = list(ASSIGN_REFS)
    for r1 in names:
        for r2 in names:
            if r1 == r2 and ASSIGN_REFS[r1][2] == "namespace":
                continue
            if ASSIGN_REFS[r1][2] == "namespace" and ASSIGN_REFS[r2][2] == "namespace":
                continue
            for attrs in ASSIGN_ATTRS2:
                out.append(build((r1, r2), attrs))
    for refs in ASSIGN_TRIPLES:
        for attrs in ASSIGN_ATTRS3:
            out.append(build(refs, attrs))
    for sname, (wrap, ctor) in NS_SOURCES.items():
        for fu in NS_FOLLOWUPS:
            out.append((f"namespace-init-from-context:{sname}",
                        wrap.replace("BODY", "{% set ns = " + ctor + " %}" + fu), "nsinit"))
    return out


# ---------------------------------------- every syntax that carries a target
# An attribute target (x.attr) written wherever the grammar has an assignment
# target or a name being bound.  Forms the parser refuses end in a syntax error
# and are not counted; the others are crossed with every way of referring to a
# context container and with the statement's position in the template.
# @X@ = reference, @K@ = attribute name.
TARGET_FORMS = {
    "set": "{% set @X@.@K@ = 1 %}",
    "block-set": "{% set @X@.@K@ %}v{% endset %}",
    "block-set-filter": "{% set @X@.@K@ | upper %}v{% endset %}",
    "block-set-filter-chain": "{% set @X@.@K@ | replace('v', 'w') | trim %} v {% endset %}",
    "block-set-empty": "{% set @X@.@K@ %}{% endset %}",
    "block-set-expr-body": "{% set @X@.@K@ %}{{ alist|length }}{% for i in l %}{{ i }}{% endfor %}{% endset %}",
    "block-set-tuple-first": "{% set @X@.@K@, y %}vw{% endset %}",
    "block-set-tuple-last": "{% set y, @X@.@K@ %}vw{% endset %}",
    "block-set-nested": "{% set outer %}a{% set @X@.@K@ %}v{% endset %}b{% endset %}",
    "block-set-then-read": "{% set @X@.@K@ %}v{% endset %}{{ @X@.@K@ }}",
    "set-tuple-first": "{% set @X@.@K@, y = 1, 2 %}",
    "set-tuple-last": "{% set y, @X@.@K@ = 1, 2 %}",
    "set-tuple-unpack": "{% set y, @X@.@K@ = pairs[0] %}",
    "set-paren-tuple": "{% set (@X@.@K@, y) = 1, 2 %}",
    "set-nested-tuple": "{% set (y, (@X@.@K@, z)) = (1, (2, 3)) %}",
    "set-subscript": "{% set @X@['@K@'] = 1 %}",
    "block-set-subscript": "{% set @X@['@K@'] %}v{% endset %}",
    "set-deep-attribute": "{% set @X@.c.@K@ = 1 %}",
    "block-set-deep-attribute": "{% set @X@.c.@K@ %}v{% endset %}",
    "for-target": "{% for @X@.@K@ in [1, 2] %}{% endfor %}",
    "for-tuple-target": "{% for y, @X@.@K@ in [(1, 2)] %}{% endfor %}",
    "with-target": "{% with @X@.@K@ = 1 %}{% endwith %}",
    "macro-argument": "{% macro tm(@X@.@K@) %}{% endmacro %}{{ tm(1) }}",
    "macro-default-argument": "{% macro tm(@X@.@K@=1) %}{% endmacro %}{{ tm() }}",
    "call-block-argument": "{% macro tm() %}{{ caller(1) }}{% endmacro %}{% call(@X@.@K@) tm() %}{% endcall %}",
    "import-as": "{% import 'alib' as @X@.@K@ %}",
    "from-import-as": "{% from 'alib' import am as @X@.@K@ %}",
    "trans-variable": "{% trans @X@.@K@=1 %}x{% endtrans %}",
}
TARGET_PLACEMENTS = {
    "top": "BODY",
    "in-if": "{% if true %}BODY{% endif %}",
    "in-for": "{% for pi in [1, 2] %}BODY{% endfor %}",
    "in-macro": "{% macro pm() %}BODY{% endmacro %}{{ pm() }}",
    "in-block": "{% block pb %}BODY{% endblock %}",
    "in-call-block": "{% macro pm() %}{{ caller() }}{% endmacro %}{% call pm() %}BODY{% endcall %}",
    "in-with": "{% with pw = 1 %}BODY{% endwith %}",
    "in-filter-block": "{% filter upper %}BODY{% endfilter %}",
    "in-set-block": "{% set pout %}BODY{% endset %}",
    "in-autoescape-block": "{% autoescape true %}BODY{% endautoescape %}",
}
# name: (wrapper with BODY, reference name, how it refers, type of the object referred to)
TARGET_REFS = {
    "ns": ("{% set ns = namespace() %}BODY", "ns", "namespace", "namespace"),
    "ns_with_data": ("{% set ns = namespace(a=0, c=0, k=0) %}BODY", "ns", "namespace", "namespace"),
    "d": ("BODY", "d", "context-name", "dict"),
    "adict": ("BODY", "adict", "context-name", "dict"),
    "l": ("BODY", "l", "context-name", "list"),
    "s": ("BODY", "s", "context-name", "set"),
    "q": ("BODY", "q", "context-name", "deque"),
    "o": ("BODY", "o", "context-name", "object"),
    "set_alias": ("{% set m = d %}BODY", "m", "set-alias", "dict"),
    "set_alias_nested": ("{% set m = d.c %}BODY", "m", "set-alias-of-nested", "dict"),
    "set_alias_item": ("{% set m = nest.t[1] %}BODY", "m", "set-alias-of-item", "dict"),
    "set_alias_filter": ("{% set m = none|default(adict) %}BODY", "m", "set-alias-via-filter", "dict"),
    "with_alias": ("{% with w = adict %}BODY{% endwith %}", "w", "with-alias", "dict"),
    "loop_var": ("{% for row in [adict, d.c, nest.t[1]] %}BODY{% endfor %}", "row", "loop-variable", "dict"),
    "loop_var_list": ("{% for lrow in ll %}BODY{% endfor %}", "lrow", "loop-variable", "list"),
    "macro_param": ("{% macro w(mp) %}BODY{% endmacro %}{{ w(d) }}{{ w(adict) }}", "mp",
                    "macro-parameter", "dict"),
    "call_param": ("{% macro cw() %}{{ caller(d) }}{% endmacro %}{% call(cp) cw() %}BODY{% endcall %}",
                   "cp", "call-block-parameter", "dict"),
    "list_alias": ("{% set m = d.b %}BODY", "m", "set-alias-of-nested", "list"),
}
TARGET_ATTRS = ["k", "a", "c"]


def target_source(form, ref, attr, placement):
    wrap, name, _, _ = TARGET_REFS[ref]
    stmt = TARGET_FORMS[form].replace("@X@", name).replace("@K@", attr)
    return wrap.replace("BODY", TARGET_PLACEMENTS[placement].replace("BODY", stmt))


_form_runs = {}


def form_executes(form, is_async=False):
    """Does the parser accept this form and does it execute (with a namespace
    as the object assigned to)?  Decided by rendering it, not by a table."""
    r = _form_runs.get(form)
    if r is None:
        _, _, outcome, _ = render(target_source(form, "ns_with_data", "k", "top"), is_async, False)
        r = _form_runs[form] = outcome != "syntax"
    return r


def target_statements(quick, seed):
    """-> [(key, source, tags)]"""
    out = []
    row = 0
    for form in TARGET_FORMS:
        live = form_executes(form)
        for ref, (_, _, how, typ) in TARGET_REFS.items():
            for pi, placement in enumerate(TARGET_PLACEMENTS):
                if not live and placement != "top":
                    continue
                row += 1
                if quick and placement != "top" and (row + seed) % 3:
                    # quick: at the top level always, a rotating third of the other positions
                    continue
                attrs = [TARGET_ATTRS[(row + seed) % len(TARGET_ATTRS)]] if quick or not live \
                    else TARGET_ATTRS
                for attr in attrs:
                    tags = ["target_cases:" + ("namespace" if typ == "namespace" else "container"),
                            "target_form:" + form]
                    if form.startswith("block-set"):
                        tags.append("target_block_set_cases")
                    out.append((f"assign-target:{form}:{typ}",
                                target_source(form, ref, attr, placement), tags,
                                [form, ref, how, placement, attr]))
    return out


# -------------------------------- attribute targets whose base name is rebound
# vt/gen/c19_rebind.py: every assignment form with an attribute target x every
# construct that binds the target's base name again (inner set, for target,
# with, macro / call-block parameter, import alias, a set block with the same
# target ...) x its position (before / inside the body / inside a loop in the
# body / after / around the statement / in the statement's own target list) x
# references to context containers x positions of the whole in the template.
REBIND_CONTAINER_REFS = [r for r, v in TARGET_REFS.items() if v[3] != "namespace"]
REBIND_NAMESPACE_REFS = [r for r, v in TARGET_REFS.items() if v[3] == "namespace"]


def rebind_statements(quick, seed):
    """-> [(key, source, tags, shape)]"""
    out = []
    placements = list(TARGET_PLACEMENTS)
    nc, nn = len(REBIND_CONTAINER_REFS), len(REBIND_NAMESPACE_REFS)
    for row, (form, way, position, text) in enumerate(RB.sources()):
        r = row + seed
        if quick and position != "same-statement":
            # the plain context dict always, two rotating other references, one namespace control
            refs = list(dict.fromkeys(["d", REBIND_CONTAINER_REFS[r % nc],
                                       REBIND_CONTAINER_REFS[(r + 5) % nc],
                                       REBIND_NAMESPACE_REFS[r % nn]]))
        else:
            refs = list(TARGET_REFS)
        for ri, ref in enumerate(refs):
            wrap, name, how, typ = TARGET_REFS[ref]
            if quick:
                pls = ["top" if (r + ri) % 3 == 0 else placements[(r + ri) % len(placements)]]
            else:
                pls = placements
            attr = TARGET_ATTRS[(r + ri) % len(TARGET_ATTRS)]
            stmt = text.replace("@X@", name).replace("@K@", attr)
            for placement in pls:
                tags = ["rebind_cases:" + ("namespace" if typ == "namespace" else "container"),
                        "rebind_position:" + position, "rebind_way:" + way, "rebind_form:" + form]
                src = wrap.replace("BODY", TARGET_PLACEMENTS[placement].replace("BODY", stmt))
                out.append((f"assign-target-rebound:{form}:{way}:{position}", src, tags,
                            [form, way, position, ref, how, placement, attr]))
    return out


def statement_case(ctx, case, count=True):
    source, is_async = case["source"], case["async"]
    autoescape = bool(case.get("autoescape", False))
    data, snap, outcome, msg = render(source, is_async, autoescape)
    if outcome == "syntax":
        if count:
            ctx.count("syntax_rejected")
        return
    if count:
        ctx.ev()
        ctx.count("statement_cases")
        if case.get("group"):
            ctx.count("assign_cases:" + case["group"])
            ctx.count("assign_outcome:" + case["group"] + ":" + outcome)
        for tag in case.get("tags", ()):
            ctx.count(tag)
            if tag == "target_cases:namespace" and outcome == "ok":
                # the statement form ran to the end with a namespace as its object
                ctx.count("target_namespace_controls_ok")
            if tag == "rebind_cases:namespace" and outcome == "ok":
                ctx.count("rebind_namespace_controls_ok")
            if tag == "rebind_cases:container":
                ctx.count("rebind_container_outcome:" + outcome)
        ctx.count("comparisons")
        if is_async:
            ctx.count("async_renders")
        if autoescape:
            ctx.count("autoescape_renders")
        ctx.dist(["s", source, is_async, autoescape])
    ch = changed_vars(data, snap)
    if ch:
        key = case["key"]
        if key.startswith("filter:"):
            key += "/async" if is_async else "/sync"
            key += "/autoescape" if autoescape else ""
        ctx.violation(key, f"{source!r} (async={is_async}, autoescape={autoescape}) modified {ch}: after "
                           f"{[data.get(k) for k in ch]!r}; outcome {outcome}: {msg[:100]!r}", case)


def _ctxfn_impl(context):
    return f"({context.get('cur')}{len(context.get_exported())})"


_ctxfn = []


def ctxfn():
    """a pass_context callable handed in as data (read-only use of the context)"""
    if not _ctxfn:
        from jinja2 import pass_context

        _ctxfn.append(pass_context(_ctxfn_impl))
    return _ctxfn[0]


def entry_case(ctx, case, count=True):
    """One template run through one documented entry point on a caller-supplied
    mapping: the mapping itself (key set and values) and the caller's `locals`
    mapping must equal their copies afterwards."""
    from jinja2.exceptions import SecurityError

    construct, entry, is_async = case["construct"], case["entry"], case["async"]
    autoescape = bool(case.get("autoescape", False))
    source = E.TEMPLATES[construct]
    env = get_env(is_async, autoescape)
    data, snap = make_data(), make_data()
    data["ctxfn"] = snap["ctxfn"] = ctxfn()
    loc, loc_snap = E.make_locals(), E.make_locals()
    tmpl = env.from_string(source)
    try:
        out = E.ENTRIES[entry][1](tmpl, data, loc, is_async)
        outcome = "ok"
    except SecurityError as e:
        out, outcome = str(e), "security"
    except Exception as e:
        out, outcome = f"{type(e).__name__}: {e}"[:200], "other"
    if count:
        ctx.ev()
        ctx.count("entry_cases")
        ctx.count("entry_cases:" + entry)
        ctx.count("entry_outcome:" + outcome)
        if outcome == "ok":
            ctx.count("entry_ok:" + entry)
        if construct in E.SCOPE_CONSTRUCTS:
            ctx.count("entry_scope_construct_cases")
            if entry in E.SHARED_ENTRIES:
                ctx.count("entry_shared_scope_construct_cases")
                if outcome == "ok":
                    ctx.count("entry_shared_scope_construct_ok")
        if entry in E.LOCALS_ENTRIES:
            ctx.count("entry_locals_cases")
        ctx.count("comparisons")
        if is_async:
            ctx.count("async_renders")
            ctx.count("entry_async_cases")
        if autoescape:
            ctx.count("autoescape_renders")
        ctx.dist(["e", construct, entry, is_async, autoescape])
    ch = changed_vars(data, snap)
    lch = changed_vars(loc, loc_snap)
    full = dict(case, source=source)
    if ch:
        added = [k for k in ch if k not in snap]
        ctx.violation(f"entry:{entry}/{E.family(construct)}",
                      f"{entry} on an immutable sandbox (async={is_async}, autoescape={autoescape}) with "
                      f"template {source!r} modified the caller's mapping: "
                      + (f"new keys {added!r} (values of type "
                         f"{[type(data[k]).__name__ for k in added]!r}); " if added else "")
                      + f"changed {[k for k in ch if k in snap]!r}; outcome {outcome}: {out[:100]!r}", full)
    if lch:
        ctx.violation(f"entry-locals:{entry}/{E.family(construct)}",
                      f"{entry} (async={is_async}) with template {source!r} modified the caller's locals "
                      f"mapping: {lch!r} -> {[loc.get(k) for k in lch]!r}; outcome {outcome}", full)


def entry_control(ctx):
    """Self-test: every construct renders through render(**kw) on both a sync and an
    async environment (so the entry-point table exercises live templates), and the
    comparison notices a key added to the mapping."""
    bad = []
    for is_async in (False, True):
        env = get_env(is_async, False)
        for construct, source in E.TEMPLATES.items():
            data = make_data()
            data["ctxfn"] = ctxfn()
            try:
                out = env.from_string(source).render(**data)
                if not out:
                    bad.append(f"{construct}: empty output")
            except Exception as e:
                bad.append(f"{construct}: {type(e).__name__}: {e}"[:160])
    d, s = make_data(), make_data()
    d["item"] = 1
    if changed_vars(d, s) != ["item"]:
        bad.append("comparison does not report an added key")
    if bad:
        ctx.inconc("entry-point self-test failed: " + "; ".join(bad[:4]))
    else:
        ctx.count("entry_controls_ok")


def run(ctx):
    quick = ctx.tier == "quick"
    probe = make_data()
    if changed_vars(probe, copy.deepcopy(probe)) or changed_vars(make_data(), probe):
        ctx.inconc("harness: make_data() is not reproducible / not equal to its deep copy")
        return
    # ---- entry points x constructs that derive contexts / bind names
    entry_control(ctx)
    ei = 0
    esampled = 0
    for construct in E.TEMPLATES:
        for entry in E.ENTRIES:
            for is_async in (False, True):
                if not E.applicable(entry, is_async):
                    continue
                ei += 1
                if not ctx.mine(ei):
                    continue
                for ae in (False, True):
                    # quick: autoescape alternating by row, rotating with the seed
                    if quick and ae != ((ei // ctx.nshards + ctx.seed) % 2 == 0):
                        continue
                    case = {"kind": "entry", "construct": construct, "entry": entry,
                            "async": is_async, "autoescape": ae}
                    entry_case(ctx, case)
                    if esampled < 1 and ctx.shard in (2, 3) and "shared" in entry:
                        esampled += 1
                        ctx.sample(dict(case, source=E.TEMPLATES[construct]))
    idx = 0
    names_seen = set()
    # ---- complete method table
    for tname, typ in TYPES.items():
        for mname in sorted(dir(typ)):
            for ti in range(len(TARGETS[tname])):
                for pi, path in enumerate(PATHS):
                    idx += 1
                    if not ctx.mine(idx):
                        continue
                    names_seen.add((tname, mname))
                    for ai in range(len(ARGPOOL)):
                        # non-mutating argument tuples on nested targets add little: keep
                        # them for the first target only
                        mut = mutates(tname, ti, mname, ai)
                        if ti > 0 and not mut:
                            continue
                        if quick and not mut and (idx + ai) % 6 != ctx.seed % 6:
                            continue
                        if quick and ti > 0 and (idx + ai) % 3 != ctx.seed % 3:
                            continue
                        for is_async in (False, True):
                            if quick and (ti > 0 or not mut) and is_async != ((idx + ai) % 2 == 0):
                                continue
                            # autoescape: alternating by row (seed-rotated); thorough runs
                            # the mutating attempts on the first target under both
                            alt = (idx + ai + is_async + ctx.seed) % 2 == 0
                            aes = (False, True) if (not quick and mut and ti == 0) else (alt,)
                            for ae in aes:
                                method_case(ctx, {"kind": "method", "type": tname, "target": ti,
                                                  "method": mname, "args": ai, "path": path,
                                                  "async": is_async, "autoescape": ae})
            if is_mutator(tname, mname):
                for form in ("dot", "subscript", "attr", "map"):
                    for ti in range(len(TARGETS[tname])):
                        idx += 1
                        if not ctx.mine(idx):
                            continue
                        for is_async in (False, True):
                            defined_case(ctx, {"kind": "defined", "type": tname, "target": ti,
                                               "method": mname, "form": form, "async": is_async,
                                               "autoescape": (idx + is_async + ctx.seed) % 2 == 0})
    # every shard sees a slice of every name; count the table size once
    if ctx.shard == 0:
        ctx.count("method_names", sum(len(dir(t)) for t in TYPES.values()))
        ctx.count("mutators_by_execution",
                  sum(1 for t in TYPES for m in dir(TYPES[t]) if is_mutator(t, m)))
        ctx.sample({"kind": "method", "source": "{% set m = q.appendleft %}{{ m(9) }}"})
    # ---- methods taken from type objects (dict global, types as data / in containers / globals)
    npaths = len(TYPE_PATHS)
    tpaths = list(TYPE_PATHS)
    tsampled = 0
    for si, (yexpr, tyobj, ykind, tnames, rform) in enumerate(TYPE_SOURCES):
        for tname in tnames:
            names, own = type_method_names(tyobj, tname)
            if ctx.shard == 0:
                ctx.count("type_method_names", len(names))
                ctx.count("type_own_method_names_out_of_scope", len(own))
            for mname in names:
                for ti in range(len(TARGETS[tname])):
                    idx += 1
                    if not ctx.mine(idx):
                        continue
                    for ai in range(len(ARGPOOL)):
                        mut = type_mutates(si, tname, ti, mname, ai)
                        if ti > 0 and not mut:
                            continue
                        r = idx // ctx.nshards + ai + ctx.seed
                        if quick and not mut and r % 16:
                            continue
                        if quick and ti > 0 and r % 4:
                            continue
                        if quick:
                            # one path per row, a second one on every fourth mutating row, rotating
                            chosen = [tpaths[r % npaths]] + \
                                ([tpaths[(r + 5) % npaths]] if mut and r % 4 == 1 else [])
                        elif mut:
                            chosen = tpaths
                        else:
                            chosen = [tpaths[r % npaths], tpaths[(r + 5) % npaths]]
                        for pj, path in enumerate(chosen):
                            combos = [(a, e) for a in (False, True) for e in (False, True)]
                            if quick or not (mut and ti == 0):
                                combos = [combos[(r + pj) % 4]]
                            for is_async, ae in combos:
                                case = {"kind": "typemethod", "tsource": si, "type": tname,
                                        "target": ti, "method": mname, "args": ai, "path": path,
                                        "async": is_async, "autoescape": ae}
                                type_case(ctx, case)
                                if mut and tsampled < 1 and ctx.shard == 1:
                                    tsampled += 1
                                    ctx.sample(dict(case, type_expression=yexpr))
                idx += 1
                # (decided only in the shard that owns the row: the ground truth costs 17 executions)
                if ctx.mine(idx) and type_is_mutator(si, tname, mname):
                    for fi, form in enumerate(("dot", "attr", "alias")):
                        r = idx // ctx.nshards + ctx.seed + fi
                        if quick and r % 3:
                            continue
                        for is_async in (False, True):
                            if quick and is_async != (r % 2 == 0):
                                continue
                            type_defined_case(ctx, {"kind": "typedefined", "tsource": si,
                                                    "type": tname, "method": mname, "form": form,
                                                    "async": is_async,
                                                    "autoescape": (r + is_async) % 4 < 2})
    # ---- attribute targets in every syntax that binds a name
    for i, (key, s, tags, shape) in enumerate(target_statements(quick, ctx.seed)):
        if not ctx.mine(i):
            continue
        r = i // ctx.nshards + ctx.seed
        for is_async in (False, True):
            for ae in (False, True):
                if quick and (2 * is_async + ae) != r % 4:
                    continue
                statement_case(ctx, {"kind": "statement", "key": key, "source": s, "group": "target",
                                     "tags": tags, "shape": shape, "async": is_async,
                                     "autoescape": ae})
    if ctx.shard == 0:
        ctx.count("target_forms_total", len(TARGET_FORMS))
        ctx.count("target_forms_executing", sum(1 for f in TARGET_FORMS if form_executes(f)))
    # ---- attribute targets whose base name is shadowed / rebound around the statement
    for i, (key, s, tags, shape) in enumerate(rebind_statements(quick, ctx.seed)):
        if not ctx.mine(i):
            continue
        r = i // ctx.nshards + ctx.seed
        for is_async in (False, True):
            for ae in (False, True):
                if (2 * is_async + ae) != r % 4:
                    # one of the four sync/autoescape combinations per row, rotating with the seed
                    continue
                statement_case(ctx, {"kind": "statement", "key": key, "source": s, "group": "rebind",
                                     "tags": tags, "shape": shape, "async": is_async,
                                     "autoescape": ae})
    # ---- fixed statements
    for i, (key, s) in enumerate(STATEMENTS):
        if ctx.mine(i):
            for is_async in (False, True):
                for ae in (False, True):
                    statement_case(ctx, {"kind": "statement", "key": key, "source": s,
                                         "async": is_async, "autoescape": ae})
    # ---- generated {% set %} attribute targets / namespaces built from context data
    for i, (key, s, group) in enumerate(assignment_statements()):
        if ctx.mine(i):
            for is_async in (False, True):
                for ae in (False, True):
                    if quick and is_async and ae != ((i // ctx.nshards + ctx.seed) % 2 == 0):
                        continue
                    statement_case(ctx, {"kind": "statement", "key": key, "source": s, "group": group,
                                         "async": is_async, "autoescape": ae})
    # ---- complete filter table
    table = filter_table(quick)
    if ctx.shard == 0:
        ctx.count("filters_covered", len({t[0] for t in table}))
        ctx.extra["filter_table_rows"] = len(table)
    for i, (name, inp, argtext, argkey) in enumerate(table):
        if not ctx.mine(i):
            continue
        r = i // ctx.nshards + ctx.seed
        for form in DIRECT_FORMS:
            if quick and form != ("print", "list")[r % 2]:
                continue
            for is_async in (False, True):
                for ae in (False, True):
                    # quick: sync under both autoescape settings, async alternating
                    if quick and is_async and ae != (r % 2 == 0):
                        continue
                    filter_case(ctx, {"kind": "filter", "filter": name, "input": inp,
                                      "argtext": argtext, "argkey": argkey, "form": form,
                                      "async": is_async, "autoescape": ae})
        if inp in NESTED_INPUTS:
            for fi, form in enumerate(MAP_FORMS):
                if quick and fi != (r // 4) % 2:
                    continue
                for is_async in (False, True):
                    for ae in (False, True):
                        # quick: one of the four (async, autoescape) combinations per row
                        if quick and (2 * is_async + ae) != r % 4:
                            continue
                        filter_case(ctx, {"kind": "filter", "filter": name, "input": inp,
                                          "argtext": argtext, "argkey": argkey, "form": form,
                                          "async": is_async, "autoescape": ae})
        if ctx.out_of_time() and quick and i > len(table) * 0.9:
            ctx.count("timeboxed_stop")
            break
    # ---- filters x container arguments under non-default policies (and the string-valued data)
    ptable = policy_filter_table(quick, ctx.seed)
    custom = [p for p in POLICY_SETS if p != "default"]
    if ctx.shard == 0:
        documented = documented_policies()
        ctx.count("policies_documented", len(documented))
        ctx.count("policies_set_non_default",
                  sum(1 for p in documented if all(p in POLICY_SETS[c] for c in custom)))
        ctx.extra["policy_table_rows"] = len(ptable)
    for i, (name, inp, argtext, argkey, val) in enumerate(ptable):
        if not ctx.mine(i):
            continue
        r = i // ctx.nshards + ctx.seed
        psets = [custom[r % len(custom)]] if quick else list(custom)
        if val in POLICY_NEW_VALUES or inp in POLICY_NEW_VALUES:
            psets.append("default")
        for pset in psets:
            for form in DIRECT_FORMS:
                if form != DIRECT_FORMS[r % (2 if quick else 3)]:
                    continue
                for is_async in (False, True):
                    for ae in (False, True):
                        if quick and (2 * is_async + ae) != (r + (pset == "default")) % 4:
                            continue
                        filter_case(ctx, {"kind": "filter", "table": "policy", "filter": name,
                                          "input": inp, "argtext": argtext, "argkey": argkey,
                                          "form": form, "async": is_async, "autoescape": ae,
                                          "policies": pset})
    # ---- thorough: random compositions
    if not quick:
        rng = ctx.rng("compose")
        tn = list(TYPES)
        i = 0
        while ctx.more(i, 6000, floor=500):
            i += 1
            parts = []
            for _ in range(rng.randint(2, 3)):
                t = rng.choice(tn)
                ti = rng.randrange(len(TARGETS[t]))
                m = rng.choice(sorted(dir(TYPES[t])))
                a = rng.randrange(len(ARGPOOL))
                p = rng.choice(list(PATHS))
                src = PATHS[p].replace("T", TARGETS[t][ti][0]).replace("M", m) \
                    .replace("A", ARGPOOL[a][0])
                parts.append({"src": src, "key": f"{t}.{m}"})
            row = table[rng.randrange(len(table))]
            fexpr = row[0] + (f"({row[2]})" if row[2] else "")
            parts.append({"src": "{{ " + row[1] + "|" + fexpr + "|list }}",
                          "key": f"filter:{row[0]}", "input": row[1], "argtext": row[2],
                          "argkey": row[3]})
            rng.shuffle(parts)
            for is_async in (False, True):
                composed_case(ctx, {"kind": "composed", "parts": parts, "async": is_async,
                                    "autoescape": (i + is_async) % 2 == 0})


def composed_case(ctx, case, count=True):
    """Each part rendered in its own template against the SAME data object, so
    a SecurityError in one part does not hide the next."""
    from jinja2.exceptions import TemplateSyntaxError

    autoescape = bool(case.get("autoescape", False))
    env = get_env(case["async"], autoescape)
    data = make_data()
    snap = copy.deepcopy(data)
    for part in case["parts"]:
        src = part["src"]
        try:
            env.from_string(src).render(**data)
        except TemplateSyntaxError:
            continue
        except Exception:
            pass
        ch = changed_vars(data, snap)
        if ch:
            key = part["key"]
            if key.startswith("filter:"):
                key += "/" + _where(part["input"], part["argtext"], part["argkey"], ch) + \
                       ("/async" if case["async"] else "/sync") + \
                       ("/autoescape" if autoescape else "")
            ctx.violation(key, f"{src!r} (async={case['async']}, autoescape={autoescape}) modified {ch} -> "
                               f"{[data.get(k) for k in ch]!r}", dict(case, source=src))
            break
    if count:
        ctx.ev()
        ctx.count("composed_cases")
        ctx.count("comparisons")
        if case["async"]:
            ctx.count("async_renders")
        if autoescape:
            ctx.count("autoescape_renders")
        ctx.dist(["c", [p["src"] for p in case["parts"]], case["async"], autoescape])


def replay(ctx, case):
    k = case["kind"]
    if k == "method":
        method_case(ctx, case, count=False)
    elif k == "typemethod":
        type_case(ctx, case, count=False)
    elif k == "typedefined":
        type_defined_case(ctx, case, count=False)
    elif k == "defined":
        defined_case(ctx, case, count=False)
    elif k == "filter":
        filter_case(ctx, case, count=False)
    elif k == "statement":
        statement_case(ctx, case, count=False)
    elif k == "entry":
        entry_case(ctx, case, count=False)
    else:
        composed_case(ctx, case, count=False)
