"""C19 — the immutable sandbox never modifies list / dict / set / deque data.

Ground truth for "would this call mutate" is obtained by *executing* the same
method with the same arguments on a deep copy in the harness, never from the
sandbox's own table.  Every name in dir() of the four builtin types is invoked
with a pool of generated arguments along many template paths (direct, subscript,
|attr, set/with alias, map(attribute=), loop variable, macro parameter, do
statement, format-field lookup) on top-level and nested containers, and every
built-in filter is applied to container inputs with container-valued positional
and keyword arguments, in sync and async ImmutableSandboxedEnvironments with
autoescape off and on (filters take different code paths on escaped data), on
inputs whose items are ints, floats, None, booleans, nested lists and dicts, and
also applied to the inner containers of an input through map('<filter>', ...).
Generated {% set %} statements with attribute targets complete the workload:
tuples of attribute targets mixing namespace objects with context containers
(all orders, same / different attribute names, aliases and loop variables) and
namespaces built from context data (namespace(d), namespace(pairs),
namespace(**d), ...) that are assigned to afterwards.
After each render every context value is compared with the deep copy taken
before it; the comparison is type-exact at every level (1 != '1' != True).
"""
from __future__ import annotations

import collections
import copy
import inspect

PID = "C19"
LEVEL = "exploration"
TECHNIQUE = "before/after deep comparison of context containers + execution-derived mutator ground truth, enumerated method x argument x path table and filter x argument table"
RULE = ("method cases: (container type, target expression, name from dir(type), argument tuple "
        "from a fixed pool, template path, sync/async), enumerated completely; filter cases: "
        "(filter from env.filters, container input, positional container argument or keyword "
        "argument named after each parameter of the filter's signature with container/scalar "
        "values, consumption form [print, list, loop, via-map = the filter applied to every "
        "element of the input through map('<filter>', args)], sync/async, autoescape off/on), "
        "enumerated completely; set-statement cases: every ordered pair (and 8 triples) of "
        "attribute targets over {2 namespaces, context dicts/list/object, set/with alias of a "
        "context dict, loop variables over dicts and lists} x attribute-name patterns (all same, "
        "partly same, different, existing keys), and 11 ways to build a namespace from context "
        "data x 8 follow-up attribute assignments (plain, tuple, block set, inside macro, inside "
        "loop) (quick: a seed-rotated "
        "quarter of the non-mutating argument tuples and one direct consumption form per row, "
        "via-map on inputs whose elements are containers; method cases alternate autoescape by "
        "row, direct filter cases run sync under both autoescape settings and async under one "
        "alternating by row, via-map cases one of the four combinations per row); inputs hold non-string items (ints, floats, None, bools, "
        "nested lists/dicts/sets/deques); thorough "
        "adds seeded random compositions (2-3 method templates + 1 filter template rendered one "
        "after the other against the same data object); a "
        "case is distinct by that tuple and non-trivial when the template compiled and the "
        "render got as far as evaluating the container expression (a render that ends in "
        "a template *syntax* error is not counted)")
LEVEL_TEXT = ("held (apart from recorded findings) on the complete enumerated table of public+dunder "
              "method names x argument pool x paths and filter x argument table; not a proof over all templates")
ASSUMPTIONS = [
    "containers are of the exact builtin types list, dict, set, collections.deque; subclasses are not generated",
    "equality is element-wise == with exact type at every level (so 1, '1', 1.0 and True are all different; deque maxlen included) between the rendered-with data and a second, identical build of the data; once per shard that build is checked to equal copy.deepcopy of the first (plus attribute dicts of plain holder objects)",
    "a (method, arguments) pair counts as an attempted modification iff executing it on a deep copy changes the copy",
    "set statements with attribute targets: only the before/after comparison of the context data is judged (the documentation promises an exception for non-namespace targets; which one is not checked here); a namespace built from context data is a new object, so assigning its attributes must leave that data as it was",
    "autoescape is an environment option (autoescape=True/False); per-template autoescape blocks are not generated",
]
NSHARDS = {"quick": 16, "thorough": 16}
BUDGET_S = {"quick": 35, "thorough": 400}
FLOORS = {
    "quick": {"evaluations": 11000, "distinct": 11000,
              "counters": {"method_cases": 4000, "mutating_attempts": 1500,
                           "security_errors": 1200, "filter_cases": 7000,
                           "async_renders": 5000, "comparisons": 11000,
                           "method_names": 150, "filters_covered": 40,
                           "defined_checks": 300, "autoescape_renders": 4500,
                           "filter_cases_autoescape": 3500, "via_map_cases": 900,
                           "assign_cases:tuple": 320, "assign_cases:nsinit": 66}},
    "thorough": {"evaluations": 60000, "distinct": 60000,
                 "counters": {"method_cases": 30000, "mutating_attempts": 8000,
                              "security_errors": 6000, "filter_cases": 30000,
                              "async_renders": 30000, "comparisons": 60000,
                              "method_names": 150, "filters_covered": 40,
                              "defined_checks": 300, "autoescape_renders": 60000,
                              "filter_cases_autoescape": 40000, "via_map_cases": 20000,
                              "assign_cases:tuple": 420, "assign_cases:nsinit": 88}},
}

TYPES = {"list": list, "dict": dict, "set": set, "deque": collections.deque}


class Holder:
    pass


def make_data():
    o = Holder()
    o.l = [5, 6]
    return {
        "l": [3, 1, 2, 1],
        "ll": [[3, 1], [2]],
        "d": {"a": 1, "b": [1, 2], "c": {"x": {5, 6}}},
        "s": {1, 2, 3},
        "q": collections.deque([3, 1, 2]),
        "q2": collections.deque([1, 2, 3], maxlen=4),
        "nest": {"l": [1, [2, collections.deque([4, 5])], {7, 1}], "t": ([1, 2], {"z": 1})},
        "o": o,
        # argument containers (also reachable from the context, also compared)
        "alist": [9, 1],
        "adict": {"z": 9, "a": 0},
        "aset": {9, 1},
        "adq": collections.deque([9]),
        "pairs": [("k", "v")],
        "lol": [[1], [2, 3]],
        # non-string items of every kind (a filter that rewrites items in place
        # with their string forms leaves the rendered output unchanged)
        "mx": [1, 2.5, None, [1, 2], {"a": 1}, True, (3, [4])],
        "rows": [[1, 2.5], [None, [3]], collections.deque([4, 5])],
    }


def equal(a, b):
    if isinstance(a, Holder) and isinstance(b, Holder):
        return equal(vars(a), vars(b))
    if type(a) is not type(b):
        return False
    if isinstance(a, (list, tuple, collections.deque)):
        if isinstance(a, collections.deque) and a.maxlen != b.maxlen:
            return False
        return len(a) == len(b) and all(equal(x, y) for x, y in zip(a, b))
    if isinstance(a, dict):
        return len(a) == len(b) and all(k in b and equal(a[k], b[k]) for k in a)
    return a == b


def changed_vars(data, snap):
    return [k for k in snap if k not in data or not equal(data[k], snap[k])] + \
           [k for k in data if k not in snap]


# targets per type: (template expression, resolver on a data dict)
TARGETS = {
    "list": [("l", lambda D: D["l"]), ("d.b", lambda D: D["d"]["b"]),
             ("ll[0]", lambda D: D["ll"][0]), ("nest.t[0]", lambda D: D["nest"]["t"][0]),
             ("o.l", lambda D: D["o"].l)],
    "dict": [("d", lambda D: D["d"]), ("d.c", lambda D: D["d"]["c"]),
             ("nest.t[1]", lambda D: D["nest"]["t"][1])],
    "set": [("s", lambda D: D["s"]), ("d.c.x", lambda D: D["d"]["c"]["x"]),
            ("nest.l[2]", lambda D: D["nest"]["l"][2])],
    "deque": [("q", lambda D: D["q"]), ("q2", lambda D: D["q2"]),
              ("nest.l[1][1]", lambda D: D["nest"]["l"][1][1])],
}

# argument pool: template text -> (args, kwargs) factory on a data dict
ARGPOOL = [
    ("", lambda D: ((), {})),
    ("1", lambda D: ((1,), {})),
    ("0", lambda D: ((0,), {})),
    ("9", lambda D: ((9,), {})),
    ("-1", lambda D: ((-1,), {})),
    ("'a'", lambda D: (("a",), {})),
    ("'z'", lambda D: (("z",), {})),
    ("alist", lambda D: ((D["alist"],), {})),
    ("adict", lambda D: ((D["adict"],), {})),
    ("aset", lambda D: ((D["aset"],), {})),
    ("pairs", lambda D: ((D["pairs"],), {})),
    ("0, 9", lambda D: ((0, 9), {})),
    ("'z', 9", lambda D: (("z", 9), {})),
    ("1, 2", lambda D: ((1, 2), {})),
    ("z=1", lambda D: ((), {"z": 1})),
    ("reverse=true", lambda D: ((), {"reverse": True})),
    ("aset, alist", lambda D: ((D["aset"], D["alist"]), {})),
]

# paths: T = target expression, M = method name, A = argument text
PATHS = {
    "direct": "{{ T.M(A) }}",
    "subscript": "{{ T['M'](A) }}",
    "attr_filter": "{{ (T|attr('M'))(A) }}",
    "set_alias": "{% set m = T.M %}{{ m(A) }}",
    "with_alias": "{% with m = T.M %}{{ m(A) }}{% endwith %}",
    "map_attribute": "{{ ([T]|map(attribute='M')|first)(A) }}",
    "loop_var": "{% for c in [T] %}{{ c.M(A) }}{% endfor %}",
    "macro_param": "{% macro mm(c) %}{{ c.M(A) }}{% endmacro %}{{ mm(T) }}",
    "do_stmt": "{% do T.M(A) %}",
    "call_block": "{% call T.M(A) %}{% endcall %}",
    "filter_arg": "{{ 1|default(T.M(A)) }}",
    "format_field": "{{ '{0.M}'.format(T) }}",
    "format_map_field": "{{ '{x.M}'.format_map({'x': T}) }}",
}
NONCALL_PATHS = {"format_field", "format_map_field"}

_envs = {}


def get_env(is_async, autoescape=False):
    from jinja2.sandbox import ImmutableSandboxedEnvironment

    env = _envs.get((is_async, autoescape))
    if env is None:
        env = ImmutableSandboxedEnvironment(enable_async=is_async, extensions=["jinja2.ext.do"],
                                            cache_size=0, autoescape=autoescape)
        _envs[(is_async, autoescape)] = env
    return env


def render(source, is_async, autoescape=False):
    """-> (data, snapshot, outcome, message); outcome in ok/security/syntax/other"""
    from jinja2.exceptions import SecurityError, TemplateSyntaxError

    env = get_env(is_async, autoescape)
    data = make_data()
    snap = make_data()      # == copy.deepcopy(data): checked once per shard in run()
    try:
        tmpl = env.from_string(source)
    except TemplateSyntaxError as e:
        return data, snap, "syntax", str(e)
    try:
        out = tmpl.render(**data)
        return data, snap, "ok", out
    except SecurityError as e:
        return data, snap, "security", str(e)
    except Exception as e:
        return data, snap, "other", f"{type(e).__name__}: {e}"[:300]


def dry_run(tname, ti, mname, ai):
    """Execute the method on a fresh copy in the harness: does it mutate?"""
    D = make_data()
    snap = copy.deepcopy(D)
    obj = TARGETS[tname][ti][1](D)
    args, kwargs = ARGPOOL[ai][1](D)
    try:
        meth = getattr(obj, mname)
    except AttributeError:
        return False
    if not callable(meth):
        return False
    try:
        meth(*args, **kwargs)
    except Exception:
        pass
    return bool(changed_vars(D, snap))


_mut_cache = {}


def mutates(tname, ti, mname, ai):
    k = (tname, ti, mname, ai)
    if k not in _mut_cache:
        _mut_cache[k] = dry_run(tname, ti, mname, ai)
    return _mut_cache[k]


def is_mutator(tname, mname):
    """ground truth: some argument tuple of the pool makes this method modify a copy"""
    return any(mutates(tname, 0, mname, ai) for ai in range(len(ARGPOOL))) or \
        (tname == "deque" and any(mutates(tname, 1, mname, ai) for ai in range(len(ARGPOOL))))


def method_case(ctx, case, count=True):
    tname, ti, mname, ai, path, is_async = (case["type"], case["target"], case["method"],
                                            case["args"], case["path"], case["async"])
    texpr = TARGETS[tname][ti][0]
    atext = ARGPOOL[ai][0]
    autoescape = bool(case.get("autoescape", False))
    source = PATHS[path].replace("T", texpr).replace("M", mname).replace("A", atext)
    data, snap, outcome, msg = render(source, is_async, autoescape)
    if outcome == "syntax":
        if count:
            ctx.count("syntax_rejected")
        return
    would = mutates(tname, ti, mname, ai) and path not in NONCALL_PATHS
    if count:
        ctx.ev()
        ctx.count("method_cases")
        ctx.count("comparisons")
        ctx.count("outcome:" + outcome)
        if is_async:
            ctx.count("async_renders")
        if autoescape:
            ctx.count("autoescape_renders")
        if would:
            ctx.count("mutating_attempts")
            ctx.count("mutating_attempts:" + tname)
        ctx.dist(["m", tname, ti, mname, ai, path, is_async, autoescape])
    full = dict(case, source=source)
    ch = changed_vars(data, snap)
    key = f"{tname}.{mname}"
    if ch:
        ctx.violation(key, f"{source!r} (async={is_async}, autoescape={autoescape}) modified context value(s) {ch}: "
                           f"before {[snap[k] for k in ch if k in snap]!r} after "
                           f"{[data.get(k) for k in ch]!r}; render outcome {outcome}: {msg[:120]!r}",
                      full)
        return
    if would:
        if outcome == "security":
            if count:
                ctx.count("security_errors")
        else:
            ctx.violation(key, f"{source!r} (async={is_async}, autoescape={autoescape}): the call modifies a copy when "
                               f"executed directly, the data is unchanged, but the render "
                               f"ended with {outcome}: {msg[:200]!r} instead of SecurityError",
                          full)


def defined_case(ctx, case, count=True):
    """A mutator (by execution ground truth) must be an undefined value."""
    tname, ti, mname, is_async = case["type"], case["target"], case["method"], case["async"]
    texpr = TARGETS[tname][ti][0]
    form = case["form"]
    src = {"dot": "{{ T.M is defined }}", "subscript": "{{ T['M'] is defined }}",
           "attr": "{{ T|attr('M') is defined }}",
           "map": "{{ ([T]|map(attribute='M')|first) is defined }}"}[form]
    source = src.replace("T", texpr).replace("M", mname)
    autoescape = bool(case.get("autoescape", False))
    data, snap, outcome, msg = render(source, is_async, autoescape)
    if count:
        ctx.ev()
        ctx.count("defined_checks")
        ctx.count("comparisons")
        if autoescape:
            ctx.count("autoescape_renders")
        ctx.dist(["def", tname, ti, mname, form, is_async, autoescape])
    full = dict(case, source=source)
    if changed_vars(data, snap):
        ctx.violation(f"{tname}.{mname}", f"{source!r} modified data", full)
    elif not (outcome == "security" or (outcome == "ok" and msg == "False")):
        ctx.violation(f"{tname}.{mname}",
                      f"{source!r} (async={is_async}) rendered {outcome}:{msg!r}: the mutating "
                      f"method {tname}.{mname} is handed to the template as a defined value "
                      f"(expected an undefined value)", full)


# --------------------------------------------------------------- filters
INPUTS = ["l", "ll", "d", "s", "q", "lol", "mx", "rows", "nest.l", "pairs", "d.b", "adict"]
QUICK_INPUTS = INPUTS[:7]
#: inputs whose elements are themselves containers: the via-map form applies the
#: filter to each element
NESTED_INPUTS = ["ll", "lol", "mx", "rows", "nest.l", "pairs"]
ARGVALS = ["alist", "adict", "aset", "adq", "lol", "l", "1", "'a'", "true", "none"]
FORMS = {"print": "{{ X|F }}", "list": "{{ X|F|list }}",
         "loop": "{% for i in X|F %}{{ i }}{% endfor %}",
         # the filter named as the first argument of map, remaining arguments passed on
         "map": "{{ X|map(F)|list }}", "map_join": "{{ X|map(F)|join(' ') }}"}
DIRECT_FORMS = ["print", "list", "loop"]
MAP_FORMS = ["map", "map_join"]


def filter_source(name, inp, argtext, form):
    if form in MAP_FORMS:
        fexpr = repr(name) + (f", {argtext}" if argtext else "")
    else:
        fexpr = name + (f"({argtext})" if argtext else "")
    return FORMS[form].replace("X", inp).replace("F", fexpr)


def filter_params(env, name):
    f = env.filters[name]
    try:
        sig = inspect.signature(f)
    except (TypeError, ValueError):
        return []
    names = [p.name for p in sig.parameters.values()
             if p.kind in (p.POSITIONAL_OR_KEYWORD, p.KEYWORD_ONLY)]
    return names


def filter_table(quick=False):
    """Deterministic list of (filter, input, argtext, argkey)."""
    env = get_env(False)
    out = []
    inputs = QUICK_INPUTS if quick else INPUTS
    kwvals = ARGVALS[:5] + ["1"] if quick else ARGVALS
    for name in sorted(env.filters):
        params = filter_params(env, name)
        for inp in inputs:
            out.append((name, inp, "", "none"))
            for v in ARGVALS[:6]:
                out.append((name, inp, v, "pos0"))
            for v in ARGVALS[:3]:
                out.append((name, inp, f"1, {v}", "pos1"))
            for p in params:
                for v in kwvals:
                    out.append((name, inp, f"{p}={v}", p))
    # input and argument must be different context values so a modification
    # can be attributed to one operand
    return [r for r in out if r[2].split("=")[-1].split(",")[-1].strip() != r[1]]


def _where(inp, argtext, argkey, ch):
    """Which operand of the filter was modified: an argument container (named
    by its keyword / position) takes precedence over the input."""
    argval = argtext.split("=")[-1].split(",")[-1].strip()
    if argval in ch:
        return "arg:" + argkey
    if inp.split(".")[0].split("[")[0] in ch:
        return "input"
    return "other:" + ",".join(ch)


def filter_case(ctx, case, count=True):
    name, inp, argtext, argkey, form, is_async = (case["filter"], case["input"], case["argtext"],
                                                  case["argkey"], case["form"], case["async"])
    autoescape = bool(case.get("autoescape", False))
    source = filter_source(name, inp, argtext, form)
    data, snap, outcome, msg = render(source, is_async, autoescape)
    if outcome == "syntax":
        if count:
            ctx.count("syntax_rejected")
        return
    if count:
        ctx.ev()
        ctx.count("filter_cases")
        ctx.count("comparisons")
        ctx.count("filter_outcome:" + outcome)
        if is_async:
            ctx.count("async_renders")
        if autoescape:
            ctx.count("autoescape_renders")
            ctx.count("filter_cases_autoescape")
        if form in MAP_FORMS:
            ctx.count("via_map_cases")
        ctx.dist(["f", name, inp, argtext, form, is_async, autoescape])
    ch = changed_vars(data, snap)
    if ch:
        where = _where(inp, argtext, argkey, ch)
        key = f"filter:{name}/{where}/" + ("async" if is_async else "sync") + \
              ("/autoescape" if autoescape else "")
        ctx.violation(key, f"{source!r} (async={is_async}, autoescape={autoescape}) modified context value(s) {ch}: before "
                           f"{[snap[k] for k in ch if k in snap]!r} after {[data.get(k) for k in ch]!r}; "
                           f"outcome {outcome}: {msg[:100]!r}", dict(case, source=source))


# --------------------------------------------------------- fixed statements
STATEMENTS = [
    ("set-attribute-statement", "{% set l.x = 1 %}"),
    ("set-attribute-statement", "{% set d.a = 5 %}"),
    ("set-attribute-statement", "{% set d.b = [] %}"),
    ("list.pop", "{% for x in l %}{{ l.pop() }}{% endfor %}"),
    ("dict.pop", "{% for k in d %}{{ d.pop(k) }}{% endfor %}"),
    ("list.__setitem__", "{{ l.__setitem__(0, 9) }}"),
    ("list.__delitem__", "{{ l.__delitem__(0) }}"),
    ("list.__iadd__", "{{ l.__iadd__([1]) }}"),
    ("dict.__setitem__", "{{ d.__setitem__('a', 9) }}"),
    ("set.__ior__", "{{ s.__ior__(aset) }}"),
    ("deque.__iadd__", "{{ q.__iadd__([1]) }}"),
    ("list.__init__", "{{ l.__init__([9]) }}"),
    ("dict.__init__", "{{ d.__init__(z=1) }}"),
    ("dict.__class__", "{{ d.__class__.clear(d) }}"),
    ("list.sort.__call__", "{{ l.sort.__call__() }}"),
    ("list.append.__self__", "{{ l.append.__self__.append(1) }}"),
    ("global:cycler", "{{ cycler(*l).next() }}"),
    ("copy-then-mutate", "{{ dict(d).clear() }}{{ d.copy().clear() }}"),
    ("copy-then-mutate", "{{ l.copy().append(1) }}{{ (l + []).append(1) }}"),
    ("namespace-held-list", "{{ namespace(v=l).v.append(1) }}"),
    ("namespace-assign", "{% set ns = namespace(v=l) %}{% set ns.v = 3 %}{{ ns.v }}"),
    ("format-lookup", "{{ '{0.append}'.format(l)[:0] }}{{ '%s'|format(l.append)[:0] }}"),
    ("list.extend", "{{ (l|attr('extend'))(alist) }}"),
    ("dict.items", "{{ d|items|list }}{{ d.items()|list }}"),
    ("list.clear", "{{ [l]|map(attribute='clear')|list }}"),
    ("list.clear", "{{ [l, ll]|map('attr', 'clear')|list }}"),
    ("list.clear", "{{ [l]|selectattr('clear')|list }}"),
    ("list.append", "{{ [d]|map(attribute='b.append')|list }}"),
    ("list.append", "{{ [d]|map(attribute='b.append')|map('string')|list }}"),
    ("deque.appendleft", "{{ ([nest]|map(attribute='l.1.1.appendleft')|first)(3) }}"),
    ("filter:sum/arg:start", "{{ lol|sum(start=alist) }}"),
    ("filter:sum/arg:start", "{{ lol|sum(start=[]) }}"),
    ("filter:sum/arg:start", "{{ lol|sum(attribute=0, start=alist) }}"),
    ("filter:sum/input", "{{ [alist, l]|sum(start=[]) }}"),
    ("filter:sum/arg:start", "{{ lol|map('list')|sum(start=alist) }}"),
    ("filters-on-list", "{{ l|sort }}{{ l|reverse|list }}{{ l|unique|list }}{{ l|batch(2, alist)|list }}"),
    ("filters-on-containers", "{{ l|slice(3, alist)|list }}{{ d|dictsort }}{{ q|list }}{{ s|sort }}"),
]


# ------------------------------------------------ generated {% set %} targets
# Attribute assignment ({% set x.attr = ... %}) is documented for namespace
# objects only; applied to anything else it must not store into it.  Generated
# here: tuples of attribute targets mixing real namespaces with containers
# from the context (every order, same and different attribute names, direct
# names, set/with aliases and loop variables), and namespaces initialised from
# context data (namespace(d), namespace(pairs), namespace(**d), ...) that are
# assigned to afterwards: the namespace is a fresh object, the data it was
# built from stays as it was.
ASSIGN_REFS = {
    # name: (wrapper with BODY, reference name, kind)
    "ns": ("BODY", "ns", "namespace"),
    "ns2": ("BODY", "ns2", "namespace"),
    "d": ("BODY", "d", "context-dict"),
    "adict": ("BODY", "adict", "context-dict"),
    "l": ("BODY", "l", "context-list"),
    "o": ("BODY", "o", "context-object"),
    "set_alias": ("{% set m = d %}BODY", "m", "alias-of-context-dict"),
    "with_alias": ("{% with w = adict %}BODY{% endwith %}", "w", "alias-of-context-dict"),
    "loop_var": ("{% for row in [adict, d.c, nest.t[1]] %}BODY{% endfor %}", "row",
                 "loop-variable-dict"),
    "loop_var_list": ("{% for lrow in ll %}BODY{% endfor %}", "lrow", "loop-variable-list"),
}
ASSIGN_NS_PRELUDE = "{% set ns = namespace() %}{% set ns2 = namespace(a=0, k=0) %}"
ASSIGN_ATTRS2 = [("k", "k"), ("a", "a"), ("j", "k"), ("a", "z")]
ASSIGN_TRIPLES = [("ns", "d", "adict"), ("ns", "ns2", "d"), ("d", "ns", "adict"),
                  ("ns", "d", "ns2"), ("ns", "loop_var", "d"), ("ns2", "set_alias", "with_alias"),
                  ("ns", "l", "d"), ("loop_var", "ns", "loop_var")]
ASSIGN_ATTRS3 = [("k", "k", "k"), ("k", "k", "j"), ("j", "k", "k"), ("k", "j", "k"),
                 ("a", "z", "k")]
NS_SOURCES = {
    # name: (wrapper with BODY, namespace constructor expression)
    "dict": ("BODY", "namespace(d)"),
    "arg-dict": ("BODY", "namespace(adict)"),
    "nested-dict": ("BODY", "namespace(d.c)"),
    "dict-in-tuple": ("BODY", "namespace(nest.t[1])"),
    "pairs": ("BODY", "namespace(pairs)"),
    "double-star": ("BODY", "namespace(**adict)"),
    "dict-plus-keyword": ("BODY", "namespace(adict, q=1)"),
    "set-alias": ("{% set src = adict %}BODY", "namespace(src)"),
    "loop-var": ("{% for row in [adict, d.c] %}BODY{% endfor %}", "namespace(row)"),
    "macro-param": ("{% macro mk(x) %}BODY{% endmacro %}{{ mk(adict) }}{{ mk(d) }}", "namespace(x)"),
    "keyword-holding-container": ("BODY", "namespace(v=alist, w=adict)"),
}
NS_FOLLOWUPS = [
    "{% set ns.x = 1 %}{{ ns.x }}",
    "{% set ns.a = 5 %}{{ ns.a }}",
    "{% set ns.z = [] %}",
    "{% set ns.a, ns.x = 1, 2 %}",
    "{% set ns.k %}text{% endset %}",
    "{% macro bump() %}{% set ns.a = 7 %}{% endmacro %}{{ bump() }}{{ bump() }}",
    "{% for i in [1, 2] %}{% set ns.a = i %}{% set ns.z = i %}{% endfor %}{{ ns.a }}",
    "{% set other = namespace() %}{% set other.a, ns.a = 1, 2 %}",
]


def assignment_statements():
    """-> [(mechanism key, source, group)]"""
    out = []

    def build(refs, attrs):
        body = "{% set " + ", ".join(f"{ASSIGN_REFS[r][1]}.{a}" for r, a in zip(refs, attrs)) + \
               " = " + ", ".join(str(i + 1) for i in range(len(refs))) + " %}"
        src = body
        for r in dict.fromkeys(refs):
            src = ASSIGN_REFS[r][0].replace("BODY", src)
        kinds = ",".join(ASSIGN_REFS[r][2] for r in refs)
        same = "same-attr" if len(set(attrs)) < len(attrs) else "different-attrs"
        return (f"set-attribute-tuple:{kinds}:{same}", ASSIGN_NS_PRELUDE + src, "tuple")

    names = list(ASSIGN_REFS)
    for r1 in names:
        for r2 in names:
            if r1 == r2 and ASSIGN_REFS[r1][2] == "namespace":
                continue
            if ASSIGN_REFS[r1][2] == "namespace" and ASSIGN_REFS[r2][2] == "namespace":
                continue
            for attrs in ASSIGN_ATTRS2:
                out.append(build((r1, r2), attrs))
    for refs in ASSIGN_TRIPLES:
        for attrs in ASSIGN_ATTRS3:
            out.append(build(refs, attrs))
    for sname, (wrap, ctor) in NS_SOURCES.items():
        for fu in NS_FOLLOWUPS:
            out.append((f"namespace-init-from-context:{sname}",
                        wrap.replace("BODY", "{% set ns = " + ctor + " %}" + fu), "nsinit"))
    return out


def statement_case(ctx, case, count=True):
    source, is_async = case["source"], case["async"]
    autoescape = bool(case.get("autoescape", False))
    data, snap, outcome, msg = render(source, is_async, autoescape)
    if outcome == "syntax":
        if count:
            ctx.count("syntax_rejected")
        return
    if count:
        ctx.ev()
        ctx.count("statement_cases")
        if case.get("group"):
            ctx.count("assign_cases:" + case["group"])
            ctx.count("assign_outcome:" + case["group"] + ":" + outcome)
        ctx.count("comparisons")
        if is_async:
            ctx.count("async_renders")
        if autoescape:
            ctx.count("autoescape_renders")
        ctx.dist(["s", source, is_async, autoescape])
    ch = changed_vars(data, snap)
    if ch:
        key = case["key"]
        if key.startswith("filter:"):
            key += "/async" if is_async else "/sync"
            key += "/autoescape" if autoescape else ""
        ctx.violation(key, f"{source!r} (async={is_async}, autoescape={autoescape}) modified {ch}: after "
                           f"{[data.get(k) for k in ch]!r}; outcome {outcome}: {msg[:100]!r}", case)


def run(ctx):
    quick = ctx.tier == "quick"
    probe = make_data()
    if changed_vars(probe, copy.deepcopy(probe)) or changed_vars(make_data(), probe):
        ctx.inconc("harness: make_data() is not reproducible / not equal to its deep copy")
        return
    idx = 0
    names_seen = set()
    # ---- complete method table
    for tname, typ in TYPES.items():
        for mname in sorted(dir(typ)):
            for ti in range(len(TARGETS[tname])):
                for pi, path in enumerate(PATHS):
                    idx += 1
                    if not ctx.mine(idx):
                        continue
                    names_seen.add((tname, mname))
                    for ai in range(len(ARGPOOL)):
                        # non-mutating argument tuples on nested targets add little: keep
                        # them for the first target only
                        mut = mutates(tname, ti, mname, ai)
                        if ti > 0 and not mut:
                            continue
                        if quick and not mut and (idx + ai) % 6 != ctx.seed % 6:
                            continue
                        if quick and ti > 0 and (idx + ai) % 3 != ctx.seed % 3:
                            continue
                        for is_async in (False, True):
                            if quick and (ti > 0 or not mut) and is_async != ((idx + ai) % 2 == 0):
                                continue
                            # autoescape: alternating by row (seed-rotated); thorough runs
                            # the mutating attempts on the first target under both
                            alt = (idx + ai + is_async + ctx.seed) % 2 == 0
                            aes = (False, True) if (not quick and mut and ti == 0) else (alt,)
                            for ae in aes:
                                method_case(ctx, {"kind": "method", "type": tname, "target": ti,
                                                  "method": mname, "args": ai, "path": path,
                                                  "async": is_async, "autoescape": ae})
            if is_mutator(tname, mname):
                for form in ("dot", "subscript", "attr", "map"):
                    for ti in range(len(TARGETS[tname])):
                        idx += 1
                        if not ctx.mine(idx):
                            continue
                        for is_async in (False, True):
                            defined_case(ctx, {"kind": "defined", "type": tname, "target": ti,
                                               "method": mname, "form": form, "async": is_async,
                                               "autoescape": (idx + is_async + ctx.seed) % 2 == 0})
    # every shard sees a slice of every name; count the table size once
    if ctx.shard == 0:
        ctx.count("method_names", sum(len(dir(t)) for t in TYPES.values()))
        ctx.count("mutators_by_execution",
                  sum(1 for t in TYPES for m in dir(TYPES[t]) if is_mutator(t, m)))
        ctx.sample({"kind": "method", "source": "{% set m = q.appendleft %}{{ m(9) }}"})
    # ---- fixed statements
    for i, (key, s) in enumerate(STATEMENTS):
        if ctx.mine(i):
            for is_async in (False, True):
                for ae in (False, True):
                    statement_case(ctx, {"kind": "statement", "key": key, "source": s,
                                         "async": is_async, "autoescape": ae})
    # ---- generated {% set %} attribute targets / namespaces built from context data
    for i, (key, s, group) in enumerate(assignment_statements()):
        if ctx.mine(i):
            for is_async in (False, True):
                for ae in (False, True):
                    if quick and is_async and ae != ((i // ctx.nshards + ctx.seed) % 2 == 0):
                        continue
                    statement_case(ctx, {"kind": "statement", "key": key, "source": s, "group": group,
                                         "async": is_async, "autoescape": ae})
    # ---- complete filter table
    table = filter_table(quick)
    if ctx.shard == 0:
        ctx.count("filters_covered", len({t[0] for t in table}))
        ctx.extra["filter_table_rows"] = len(table)
    for i, (name, inp, argtext, argkey) in enumerate(table):
        if not ctx.mine(i):
            continue
        r = i // ctx.nshards + ctx.seed
        for form in DIRECT_FORMS:
            if quick and form != ("print", "list")[r % 2]:
                continue
            for is_async in (False, True):
                for ae in (False, True):
                    # quick: sync under both autoescape settings, async alternating
                    if quick and is_async and ae != (r % 2 == 0):
                        continue
                    filter_case(ctx, {"kind": "filter", "filter": name, "input": inp,
                                      "argtext": argtext, "argkey": argkey, "form": form,
                                      "async": is_async, "autoescape": ae})
        if inp in NESTED_INPUTS:
            for fi, form in enumerate(MAP_FORMS):
                if quick and fi != (r // 4) % 2:
                    continue
                for is_async in (False, True):
                    for ae in (False, True):
                        # quick: one of the four (async, autoescape) combinations per row
                        if quick and (2 * is_async + ae) != r % 4:
                            continue
                        filter_case(ctx, {"kind": "filter", "filter": name, "input": inp,
                                          "argtext": argtext, "argkey": argkey, "form": form,
                                          "async": is_async, "autoescape": ae})
        if ctx.out_of_time() and quick and i > len(table) * 0.9:
            ctx.count("timeboxed_stop")
            break
    # ---- thorough: random compositions
    if not quick:
        rng = ctx.rng("compose")
        tn = list(TYPES)
        i = 0
        while ctx.more(i, 6000, floor=500):
            i += 1
            parts = []
            for _ in range(rng.randint(2, 3)):
                t = rng.choice(tn)
                ti = rng.randrange(len(TARGETS[t]))
                m = rng.choice(sorted(dir(TYPES[t])))
                a = rng.randrange(len(ARGPOOL))
                p = rng.choice(list(PATHS))
                src = PATHS[p].replace("T", TARGETS[t][ti][0]).replace("M", m) \
                    .replace("A", ARGPOOL[a][0])
                parts.append({"src": src, "key": f"{t}.{m}"})
            row = table[rng.randrange(len(table))]
            fexpr = row[0] + (f"({row[2]})" if row[2] else "")
            parts.append({"src": "{{ " + row[1] + "|" + fexpr + "|list }}",
                          "key": f"filter:{row[0]}", "input": row[1], "argtext": row[2],
                          "argkey": row[3]})
            rng.shuffle(parts)
            for is_async in (False, True):
                composed_case(ctx, {"kind": "composed", "parts": parts, "async": is_async,
                                    "autoescape": (i + is_async) % 2 == 0})


def composed_case(ctx, case, count=True):
    """Each part rendered in its own template against the SAME data object, so
    a SecurityError in one part does not hide the next."""
    from jinja2.exceptions import TemplateSyntaxError

    autoescape = bool(case.get("autoescape", False))
    env = get_env(case["async"], autoescape)
    data = make_data()
    snap = copy.deepcopy(data)
    for part in case["parts"]:
        src = part["src"]
        try:
            env.from_string(src).render(**data)
        except TemplateSyntaxError:
            continue
        except Exception:
            pass
        ch = changed_vars(data, snap)
        if ch:
            key = part["key"]
            if key.startswith("filter:"):
                key += "/" + _where(part["input"], part["argtext"], part["argkey"], ch) + \
                       ("/async" if case["async"] else "/sync") + \
                       ("/autoescape" if autoescape else "")
            ctx.violation(key, f"{src!r} (async={case['async']}, autoescape={autoescape}) modified {ch} -> "
                               f"{[data.get(k) for k in ch]!r}", dict(case, source=src))
            break
    if count:
        ctx.ev()
        ctx.count("composed_cases")
        ctx.count("comparisons")
        if case["async"]:
            ctx.count("async_renders")
        if autoescape:
            ctx.count("autoescape_renders")
        ctx.dist(["c", [p["src"] for p in case["parts"]], case["async"], autoescape])


def replay(ctx, case):
    k = case["kind"]
    if k == "method":
        method_case(ctx, case, count=False)
    elif k == "defined":
        defined_case(ctx, case, count=False)
    elif k == "filter":
        filter_case(ctx, case, count=False)
    elif k == "statement":
        statement_case(ctx, case, count=False)
    else:
        composed_case(ctx, case, count=False)
