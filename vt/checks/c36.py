"""C36 — async rendering closes every async generator it opens.

Every async generator is registered on first iteration through
``sys.set_asyncgen_hooks``; each render is driven by hand (coroutine stepper:
CancelledError at exactly the k-th suspension; consumer ``aclose()`` after
exactly k chunks; data raising at exactly the j-th data event) or as a task
under a real, fresh event loop; when the driven coroutine / task is finished a
census decides: no async generator whose code is compiled template code or
engine code (other than the value a filter returned) may still have a frame.
The iterables of the data are of every kind (sync generators, iterators,
__iter__-only objects, async generators, async iterators without aclose(),
__aiter__-only objects, user-wrapped sync generators) at every iteration site."""
from __future__ import annotations

import asyncio
import contextlib
import inspect
import os
import re

from vt import core
from vt.mon import c36_agen as A
from vt.mon import c36_gen as GEN

PID = "C36"
LEVEL = "fault_enumeration"
RULE = ("case = generated template set (main + parent chain + include targets inc.j2 / inc2.j2 (which "
        "includes again) + import library; include statements = target form {name, name list with "
        "the existing name first / last, variable, list of variables, missing} x {-, ignore missing} "
        "x {-, with context, without context}, missing targets only with ignore missing, so every "
        "close / cancel / raise point also falls inside included output: blocks, "
        "super, self.block(), scoped blocks in loops, macros/call blocks, loop filters on list / "
        "async-iterable / async-generator / filter-pipeline iterables, nested + recursive loops, "
        "break/continue; ITERABLE KINDS at every iteration site: mk(kind, ...) with kind in {sync "
        "generator object, iterator object, object with __iter__ only (list iterator / generator "
        "function), data async generator, async iterator without aclose whose __aiter__ returns "
        "self, object whose __aiter__ returns a new async iterator / is an async generator "
        "function, sync generator wrapped by user code in an async generator} + list / range / "
        "filter result, at the sites {for, for..if, for..else, recursive for (top iterable and the "
        "iterable handed to loop()), filters that iterate (map/select/reject/list/sum/first/join/"
        "unique/slice/groupby; sync kinds also batch/sort/max/reverse), `in` tests, unpacking "
        "targets ({% set a, b = it %}, for a, b in it-of-pairs, for a, b in list-of-iterables)}) "
        "x one run spec (driver in {manual render_async, manual generate_async, "
        "task running render_async, task consuming generate_async} x outcome in {completes; data "
        "raises at j-th data event, every j; consumer aclose() after k chunks, every k; "
        "CancelledError at k-th suspension, every k (manual) / task.cancel() at sampled k (real "
        "loop)}); after each run: census of all async generators registered by the firstiter hook: "
        "none made by compiled template code or by engine code outside the filter/test modules may "
        "still be suspended (the key names what data iterable its frame holds); state of the "
        "data's sync generators recorded. "
        "distinct = (template-set hash, driver, outcome, index) of runs in which >= 2 "
        "template-created generators were registered (something besides the root)")
TECHNIQUE = "asyncgen-hook census after exhaustive fault/cancel/close-point enumeration"
LEVEL_TEXT = ("held/violated on the enumerated runs only: every data-raise point, every chunk "
              "boundary and every suspension point of each generated template set, manual "
              "stepper for all, real event loop for a sample")
ASSUMPTIONS = [
    "template-created generator == async generator whose code object's co_filename is not a file "
    "on disk; engine-created generator == code in a file under the repository src that does not "
    "define a registered filter/test (found by unwrapping env.filters / env.tests): both decide. "
    "Async generators made by code in the filter/test modules are values RETURNED by filters "
    "(map, select, ...), handed on like the data's own async generators; neither Python's async "
    "for nor the documentation closes an iterable it was given, so these and the data's generators "
    "are counted but do not decide",
    "sync generators handed in by the data: the documentation says nothing about their state "
    "after a render that left a loop early (the sync engine leaves them suspended as well), so "
    "their state at the census is recorded, not judged",
    "suspension points are those of the data (async callables / iterables awaiting a bare yield); "
    "the engine itself adds none",
    "a consumer that stops early calls aclose() (the harness never abandons a coroutine)",
    "census is taken when the driven coroutine returned/raised (manual) or inside the task right "
    "after the render returned/raised (real loop), before loop.shutdown_asyncgens()",
]
NSHARDS = {"quick": 16, "thorough": 16}
BUDGET_S = {"quick": 12, "thorough": 420}
FLOORS = {
    "quick": {"evaluations": 6000, "distinct": 5500,
              "counters": {"runs_cancel_manual": 2600, "runs_aclose": 1100, "runs_raise": 1800,
                           "runs_real_loop": 580, "gens_template_registered": 80000,
                           "gens_loop_filter_registered": 30000, "gens_block_registered": 19000,
                           "census_checks": 6000,
                           "gens_of_include_templates_registered": 4000,
                           "cases_with_include_ignore_missing_of_existing_target": 25,
                           # iterable kinds x iteration sites (a quarter of a run at load ~8x:
                           # 165 cases / 24k runs)
                           "gens_engine_registered": 3500,
                           "iterables_made:sgen": 1500, "iterables_made:sit": 1500,
                           "iterables_made:sobj": 1500, "iterables_made:sgobj": 1500,
                           "iterables_made:agen": 1500, "iterables_made:aiter": 1500,
                           "iterables_made:aobj": 1500, "iterables_made:agobj": 1500,
                           "iterables_made:wgen": 1500,
                           "site_class:for": 40, "site_class:for-if": 110,
                           "site_class:for-else": 35, "site_class:recursive": 40,
                           "site_class:recursive-kids": 25, "site_class:filter": 30,
                           "site_class:filter-sync": 12, "site_class:in-test": 10,
                           "site_class:unpack-set": 8, "site_class:unpack-for": 9,
                           "site_class:unpack-items": 4,
                           "site_kind:sgen": 20, "site_kind:sit": 20, "site_kind:sobj": 20,
                           "site_kind:sgobj": 20, "site_kind:agen": 20, "site_kind:aiter": 20,
                           "site_kind:aobj": 20, "site_kind:agobj": 20, "site_kind:wgen": 20,
                           "sync_generator_left_early:sgen": 600,
                           "sync_generator_left_early:sgobj.__iter__()": 700,
                           "sync_generator_left_early:wgen.inner": 600,
                           "sync_generator_left_early_when:body-raises": 750,
                           "sync_generator_left_early_when:cancelled": 1100,
                           "sync_generator_left_early_when:consumer-aclose": 400,
                           "sync_generator_left_early_when:break": 45,
                           "sync_generator_left_early_when:completes": 4}},
    "thorough": {"evaluations": 140000, "distinct": 140000,
                 "counters": {"runs_cancel_manual": 50000, "runs_aclose": 20000,
                              "runs_raise": 40000, "runs_real_loop": 30000,
                              "gens_template_registered": 1800000,
                              "gens_loop_filter_registered": 700000,
                              "gens_block_registered": 400000, "census_checks": 140000,
                              "gens_of_include_templates_registered": 100000,
                              "cases_with_include_ignore_missing_of_existing_target": 600,
                              # a quarter of a 441 s run under load (2401 cases / 486k runs)
                              "gens_engine_registered": 65000,
                              "iterables_made:sgen": 50000, "iterables_made:sit": 50000,
                              "iterables_made:sobj": 50000, "iterables_made:sgobj": 50000,
                              "iterables_made:agen": 50000, "iterables_made:aiter": 50000,
                              "iterables_made:aobj": 50000, "iterables_made:agobj": 50000,
                              "iterables_made:wgen": 50000,
                              "site_class:for": 700, "site_class:for-if": 2000,
                              "site_class:for-else": 700, "site_class:recursive": 700,
                              "site_class:recursive-kids": 450, "site_class:filter": 500,
                              "site_class:filter-sync": 160, "site_class:in-test": 180,
                              "site_class:unpack-set": 180, "site_class:unpack-for": 180,
                              "site_class:unpack-items": 90,
                              "site_kind:sgen": 330, "site_kind:sit": 330, "site_kind:sobj": 330,
                              "site_kind:sgobj": 330, "site_kind:agen": 330,
                              "site_kind:aiter": 330, "site_kind:aobj": 330,
                              "site_kind:agobj": 330, "site_kind:wgen": 330,
                              "sync_generator_left_early:sgen": 16000,
                              "sync_generator_left_early:sgobj.__iter__()": 17000,
                              "sync_generator_left_early:wgen.inner": 13000,
                              "sync_generator_left_early_when:body-raises": 17000,
                              "sync_generator_left_early_when:cancelled": 22000,
                              "sync_generator_left_early_when:consumer-aclose": 7000,
                              "sync_generator_left_early_when:break": 850,
                              "sync_generator_left_early_when:completes": 160}},
}

INC_IGN_EXISTING = re.compile(
    r"\{% include (?:'inc2?\.j2'|\[[^\]]*'inc\.j2'[^\]]*\]|incname|\[nonename, incname\])"
    r" ignore missing")

CAUSE = {"complete": "completes", "raise": "body-raises", "aclose": "consumer-aclose",
         "cancel": "cancelled"}


class CaseEnv:
    def __init__(self, case):
        from jinja2 import DictLoader, Environment

        self.case = case
        self.data = GEN.Data(case["params"])
        self.env = Environment(loader=DictLoader(dict(case["tpls"])), enable_async=True,
                               extensions=["jinja2.ext.loopcontrols"],
                               autoescape=bool(case["autoescape"]))
        self.env.globals.update(self.data.globals())
        # files of the repository that define registered filters / tests: async
        # generators made by code in them are values returned by filters
        src = os.path.realpath(core.REPO_SRC) + os.sep
        self.value_files = set()
        for f in list(self.env.filters.values()) + list(self.env.tests.values()):
            try:
                code = getattr(inspect.unwrap(f), "__code__", None)
            except ValueError:
                code = None
            if code is not None and os.path.isfile(code.co_filename):
                rp = os.path.realpath(code.co_filename)
                if rp.startswith(src):
                    self.value_files.add(rp)
        self.codemap = {}
        for name in sorted(case["tpls"]):
            t = self.env.get_template(name)
            role = case["roles"].get(name, "other")
            self.codemap[t.root_render_func.__code__] = (role, "root")
            for b in t.blocks.values():
                self.codemap[b.__code__] = (role, "block")
        if case.get("cold"):
            # extra template globals make every import build a fresh module
            # (documented behaviour of imports), so each run re-executes them
            self.main = self.env.get_template(case["main"], globals={"cold": 1})
        else:
            self.main = self.env.get_template(case["main"])

    def kind_of(self, rec):
        if rec.origin != "template":
            return (rec.origin, rec.origin)
        return self.codemap.get(
            rec.code, (self.case["roles"].get(rec.filename, "other"), "nested"))


def run_one(ce, spec, ctx=None):
    """Execute one run.  Returns a dict with the observations."""
    driver, outcome, k = spec["driver"], spec["outcome"], spec.get("k")
    d = ce.data
    real = driver.startswith("real")
    d.reset(raise_at=k if outcome == "raise" else None,
            cancel_at=k if outcome == "cancel" else None, real=real)
    tr = A.Tracker(core.REPO_SRC, ce.value_files)

    def is_nested(r):
        return r.origin == "template" and r.code not in ce.codemap

    def on_break():
        r = tr.latest_open_unmarked(is_nested)
        if r is not None:
            r.mark = "break"

    d.on_break = on_break
    res = {"kind": None, "val": None, "chunks": None, "aclose_exc": None}
    census = []

    syncgens = []

    def take_census():
        wanted = None
        for r, is_open in tr.census():
            role, sub = ce.kind_of(r)
            held = None
            if is_open and r.origin == "engine":
                if wanted is None:
                    wanted = {id(o): GEN.KIND_TEXT[k] for k, o in d.iterables}
                try:
                    held = A.holds(r.ag, wanted)
                except Exception:  # noqa: BLE001 - description only
                    held = ["?"]
            census.append((r.origin, role, sub, is_open, r.mark, r.name, held))
        for k, o in d.iterables:
            if inspect.isgenerator(o):
                syncgens.append((k, inspect.getgeneratorstate(o)))

    main = ce.main
    if not real:
        with tr.manual():
            if driver == "render":
                kind, val, n = A.step_coro(main.render_async(),
                                           cancel_at=k if outcome == "cancel" else None)
                res.update(kind=kind, val=val)
            else:
                kind, val, n, chunks, aexc = A.step_agen(
                    main.generate_async(),
                    stop_after=k if outcome == "aclose" else None,
                    cancel_at=k if outcome == "cancel" else None)
                res.update(kind=kind, val=val, chunks=chunks, aclose_exc=aexc)
            take_census()
            tr.release()
    else:
        loop = asyncio.new_event_loop()
        try:
            async def consume():
                if driver == "real_render":
                    return await main.render_async()
                chunks = []
                res["chunks"] = chunks
                ag = main.generate_async()
                async with contextlib.aclosing(ag):
                    if outcome == "aclose" and k == 0:
                        return None
                    async for ch in ag:
                        chunks.append(ch)
                        if outcome == "aclose" and len(chunks) >= k:
                            break
                return None

            async def runner():
                # census inside the task, right after the render is over
                try:
                    return await consume()
                finally:
                    take_census()

            async def amain():
                with tr.chained():
                    task = loop.create_task(runner())
                    await asyncio.wait([task])
                    if task.cancelled():
                        res.update(kind="exc", val=asyncio.CancelledError())
                    elif task.exception() is not None:
                        res.update(kind="exc", val=task.exception())
                    else:
                        res.update(kind="ok" if outcome != "aclose" else "closed",
                                   val=task.result())
                    del task
                    tr.release()
                    # let the loop's own finalizer tasks (if any) run
                    for _ in range(3):
                        await asyncio.sleep(0)

            loop.run_until_complete(amain())
            loop.run_until_complete(loop.shutdown_asyncgens())
        finally:
            loop.close()
    d.on_break = None
    res["census"] = census
    res["syncgens"] = syncgens
    res["made"] = [k for k, _o in d.iterables]
    res["finals"] = list(tr.final_calls)
    res["calls"] = d.calls
    res["susp"] = d.susp
    res["breaks"] = d.breaks
    res["boom"] = d.boom
    return res


def judge(ctx, ce, spec, res, san):
    """Apply the oracle to one run's observations."""
    case = ce.case
    outcome = spec["outcome"]
    rcase = {"case": case, "spec": spec}
    ctx.ev()
    ctx.count("census_checks")
    ntpl = 0
    nopen_tpl = 0
    for k in res["made"]:
        ctx.count("iterables_made:" + k)
    for k, state in res["syncgens"]:
        # data's sync generators: the documentation promises nothing about their
        # state after a render (the sync engine leaves them suspended too)
        ctx.count("data_sync_generators_at_census:%s(not deciding)" % state)
        if state == "GEN_SUSPENDED":
            ctx.count("sync_generator_left_early:" + k)
            ctx.count("sync_generator_left_early_when:" + (
                "break" if outcome == "complete" and res["breaks"] else CAUSE[outcome]))
    nopen_eng = 0
    for origin, role, sub, is_open, mark, name, held in res["census"]:
        ctx.count("gens_%s_registered" % origin)
        if origin == "engine":
            if is_open:
                # an async generator made by the engine's own machinery (not a
                # filter's return value) is suspended although the render is over
                nopen_eng += 1
                cause = CAUSE[outcome]
                if outcome == "complete" and res["breaks"]:
                    cause = "break"
                key = "engine-generator-open:holds-%s:%s" % ("+".join(held) or "no-data-iterable",
                                                           cause)
                ctx.count("open_at_census:" + key)
                ctx.violation(
                    key,
                    "async generator %r created by engine code (not a filter result) still has a "
                    "live frame when the render finished; its frame holds %s; driver=%s outcome=%s "
                    "k=%s kind=%s main=%r"
                    % (name, held or "no data iterable", spec["driver"], outcome, spec.get("k"),
                       case["kind"], case["tpls"][case["main"]][:300]),
                    rcase)
            continue
        if origin != "template":
            if is_open:
                ctx.count("gens_%s_open_at_census(not deciding)" % origin)
            continue
        ntpl += 1
        if role == "include":
            ctx.count("gens_of_include_templates_registered")
        if sub == "nested":
            ctx.count("gens_loop_filter_registered")
        else:
            ctx.count("gens_%s_registered" % sub)
        if not is_open:
            continue
        nopen_tpl += 1
        cause = "break" if mark == "break" else CAUSE[outcome]
        if sub == "nested":
            key = "loop-filter-generator-open:" + cause
        else:
            key = "%s-%s-generator-open:%s" % (role, sub, cause)
        ctx.count("open_at_census:" + key)
        ctx.violation(
            key,
            "async generator %r (%s of %s template) still has a live frame when the render "
            "finished; driver=%s outcome=%s k=%s kind=%s main=%r"
            % (name, sub, role, spec["driver"], outcome, spec.get("k"), case["kind"],
               case["tpls"][case["main"]][:300]),
            rcase)
    nfin_tpl = sum(1 for f in res["finals"] if f[0] == "template")
    if nfin_tpl:
        ctx.count("finalizer_calls_template", nfin_tpl)
    for f in res["finals"]:
        if f[0] != "template":
            ctx.count("finalizer_calls_%s(not deciding)" % f[0])
    nfin_eng = sum(1 for f in res["finals"] if f[0] == "engine")
    if nfin_eng > nopen_eng:
        ctx.violation("finalizer-called-for-engine-generator:" + CAUSE[outcome],
                      "finalizer hook called for %d engine generators but only %d were open "
                      "at the census: %r" % (nfin_eng, nopen_eng, res["finals"]), rcase)
    if nfin_tpl > nopen_tpl:
        ctx.violation("finalizer-called-for-template-generator:" + CAUSE[outcome],
                      "finalizer hook called for %d template generators but only %d were open "
                      "at the census: %r" % (nfin_tpl, nopen_tpl, res["finals"]), rcase)
    for w in san.drain():
        kind = ("never-awaited" if "never awaited" in w else "asyncgen")
        ctx.count("sanitizer_events")
        ctx.violation("warning:%s:%s" % (kind, CAUSE[outcome]), w, rcase)
    # harness validity counters (not part of this property's oracle)
    if outcome == "raise" and not (res["kind"] == "exc" and res["val"] is res["boom"]):
        ctx.count("note_raise_did_not_surface_identically")
    if outcome == "cancel" and not (res["kind"] == "exc"
                                    and isinstance(res["val"], asyncio.CancelledError)):
        ctx.count("note_cancel_did_not_surface")
    if res.get("aclose_exc") is not None:
        ctx.count("note_consumer_aclose_raised")
    if ntpl >= 2:
        ctx.dist((core.h8(case["tpls"]), spec["driver"], outcome, spec.get("k")))
    return nopen_tpl


def run_case(ctx, case, quick, rng):
    try:
        ce = CaseEnv(case)
    except Exception as e:  # generated template does not compile: not a case
        ctx.count("case_rejected_compile:" + type(e).__name__)
        return False
    with A.Sanitizer() as san:
        def go(spec):
            res = run_one(ce, spec)
            judge(ctx, ce, spec, res, san)
            ctx.count("runs_" + ("real_loop" if spec["driver"].startswith("real") else
                                 {"complete": "complete", "raise": "raise", "aclose": "aclose",
                                  "cancel": "cancel_manual"}[spec["outcome"]]))
            return res

        # warm-up (import caches), then the counting clean runs
        r0 = run_one(ce, {"driver": "render", "outcome": "complete"})
        if r0["kind"] != "ok":
            ctx.count("case_rejected_clean_run_raises:" + type(r0["val"]).__name__)
            return False
        r1 = go({"driver": "render", "outcome": "complete"})
        r2 = go({"driver": "generate", "outcome": "complete"})
        if r1["kind"] != "ok" or r2["kind"] != "ok":
            ctx.count("case_rejected_clean_run_raises")
            return False
        N, S, C = r1["calls"], r1["susp"], len(r2["chunks"])
        if "".join(r2["chunks"]) != r1["val"]:
            ctx.count("note_generate_differs_from_render")
        ctx.count("cases")
        ctx.count("case_kind:" + case["kind"].split(":")[0])
        ctx.count("data_events_total", N)
        ctx.count("suspension_points_total", S)
        ctx.count("chunks_total", C)
        if r1["breaks"]:
            ctx.count("cases_with_break_taken")
        allsrc = "".join(case["tpls"][n] for n in sorted(case["tpls"]))
        if INC_IGN_EXISTING.search(allsrc):
            ctx.count("cases_with_include_ignore_missing_of_existing_target")
        if "without context %}" in allsrc and "include" in allsrc:
            ctx.count("cases_with_include_without_context")
        for k, n in case.get("sites", {}).items():
            if k.startswith("kind:"):
                ctx.count("site_" + k, n)
            else:
                ctx.count("site:" + k, n)
                ctx.count("site_class:" + k.split(":")[0], n)
        if len(ctx.samples) < 3:
            ctx.sample({"tpls": case["tpls"], "N_data_events": N, "S_suspensions": S,
                        "C_chunks": C, "kind": case["kind"]})
        cap = 60 if quick else 200
        js = list(range(1, N + 1))
        ks = list(range(1, S + 1))
        cs = list(range(0, C + 1))
        if len(js) > cap or len(ks) > cap or len(cs) > cap:
            ctx.count("cases_enumeration_sampled")
            js = sorted(rng.sample(js, min(cap, len(js))))
            ks = sorted(rng.sample(ks, min(cap, len(ks))))
            cs = sorted(rng.sample(cs, min(cap, len(cs))))
        else:
            ctx.count("cases_enumeration_complete")
        for i, j in enumerate(js):
            go({"driver": "render" if i % 2 == 0 else "generate", "outcome": "raise", "k": j})
        for k in cs:
            go({"driver": "generate", "outcome": "aclose", "k": k})
        for k in ks:
            go({"driver": "render", "outcome": "cancel", "k": k})
            go({"driver": "generate", "outcome": "cancel", "k": k})
        # real event loop
        nreal = 3 if quick else 10
        go({"driver": "real_render", "outcome": "complete"})
        go({"driver": "real_generate", "outcome": "complete"})
        for k in rng.sample(ks, min(nreal, len(ks))):
            go({"driver": "real_render", "outcome": "cancel", "k": k})
            go({"driver": "real_generate", "outcome": "cancel", "k": k})
        for j in rng.sample(js, min(nreal, len(js))):
            go({"driver": "real_render", "outcome": "raise", "k": j})
        for k in rng.sample(cs, min(nreal, len(cs))):
            go({"driver": "real_generate", "outcome": "aclose", "k": k})
        # end of case: flush cycles, then anything the sanitizers saw
        del r0, r1, r2
        A.collect()
        for w in san.drain():
            kind = ("never-awaited" if "never awaited" in w else "asyncgen")
            ctx.count("sanitizer_events")
            ctx.violation("warning:%s:after-case" % kind, w,
                          {"case": case, "spec": {"driver": "all"}})
    return True


def run(ctx):
    quick = ctx.tier == "quick"
    fixed = GEN.fixed_cases()
    for i, case in enumerate(fixed):
        if ctx.mine(i):
            run_case(ctx, case, quick, ctx.rng("fixed%d" % i))
    rng = ctx.rng("gen")
    i = 0
    nmax = 400 if quick else 20000
    while ctx.more(i, nmax, floor=3):
        case = GEN.gen_case(rng)
        run_case(ctx, case, quick, ctx.rng("case%d" % i))
        i += 1


def replay(ctx, obj):
    case, spec = obj["case"], obj["spec"]
    if spec.get("driver") == "all":
        import random
        run_case(ctx, case, False, random.Random(0))
        return
    ce = CaseEnv(case)
    with A.Sanitizer() as san:
        run_one(ce, {"driver": "render", "outcome": "complete"})
        res = run_one(ce, spec)
        judge(ctx, ce, spec, res, san)
        A.collect()
