"""C31 — precompiled templates render exactly like templates compiled from source."""
from __future__ import annotations

import os
import shutil
import tempfile

from vt import util
from vt.gen import corpus

PID = "C31"
LEVEL = "exploration"
TECHNIQUE = "differential monitor: DictLoader (source) vs compile_templates + ModuleLoader (directory, deflated zip, stored zip) on the real engine"
RULE = ("generated template sets (inheritance chains, include/import sets, statement and expression "
        "programs; names with '/', dots and non-ASCII) compiled ahead of time with every zip mode and "
        "loaded through ModuleLoader in a fresh environment (sync and async); every template of the set "
        "is rendered both ways and must give the same text or the same exception class; then every "
        "template of the set is requested and rendered a SECOND time (reverse order) in the same two "
        "environments: same text, and the second get_template returns the object of the first call "
        "on both sides or on neither. HISTORIES (every 10th set, modes / sync-async / renames rotating): "
        "a stateful template set -- a library template keeping a cycler / namespace / joiner (random "
        "non-empty subset) at module level and advancing it in an exported macro; users that import it "
        "(as / from / with context), a two-level import, an include of the importer, an extends+include "
        "chain -- is precompiled and, for four (auto_reload, cache_size) configurations (default cache "
        "with auto_reload on and off always, two of {0,1,2} x {on,off} in rotation), one environment per "
        "side (DictLoader vs ModuleLoader) executes the same random history of 6..12 operations "
        "{get_template+render (few names repeated), get_template(lib).module.tick(), render a template "
        "object obtained earlier again, env.cache.clear()}; the sequences of (text | exception, which "
        "of the template objects seen so far get_template returned) must be equal. "
        "REBUILDS IN PLACE (every 6th set, modes rotating): the set plus a probe template is written to "
        "disk, compiled from a FileSystemLoader into a target, compared; then every second source file is "
        "edited with its mtime forced one hour back / kept equal / left to advance, the set is compiled AGAIN "
        "into the SAME target (same or fresh environment) and a fresh ModuleLoader must render every template "
        "like the current sources. LOOK-ALIKE NAMES (every 5th set): one set of 22 templates whose names are "
        "distinct strings that differ only by Unicode normal form, case, compatibility characters, blanks, "
        "'.' vs '_' or redundant path segments, each including its neighbour: every name must stay a template "
        "of its own after precompiling. distinct = "
        "distinct set shapes x packaging mode + stateful (mode, carriers, rename)")
LEVEL_TEXT = "held on the generated template sets only"
ASSUMPTIONS = ["the precompiling and the loading environment share the same options and extensions",
               "histories: the source side is a DictLoader whose mapping never changes, so with auto_reload "
               "on or off a cached template stays valid and the documented template cache (cache_size) "
               "hands out the same Template object until it is evicted / cleared; the precompiled files "
               "are not modified either, so the same is expected of the module loader",
               "state kept in template modules is observed only through cycler / namespace / joiner "
               "objects set at the top level of an imported template"]
NSHARDS = {"quick": 16, "thorough": 16}
BUDGET_S = {"quick": 20, "thorough": 500}
FLOORS = {
    "quick": {"evaluations": 1500, "distinct": 200,
              "counters": {"mode_dir": 150, "mode_deflated": 150, "mode_stored": 150,
                           "templates_compared": 1500, "sets_with_inheritance_or_import": 150,
                           "shared_loader_sequences": 100, "name_dependent_autoescape_compares": 100,
                           "multi_location_compares": 300,
                           "second_pass_compares": 550, "second_pass_same_template_object": 550,
                           "stateful_histories": 90, "stateful_auto_reload_on": 45,
                           "stateful_auto_reload_off": 45,
                           "stateful_histories_where_state_shows": 90,
                           "stateful_histories_with_a_template_served_again": 55,
                           "stateful_sets_dir": 6, "stateful_sets_deflated": 6,
                           "stateful_sets_stored": 6, "sets_with_non_ascii_identifiers": 12,
                           "rebuild_histories": 35, "rebuild_compares": 250, "rebuild_mode_dir": 10,
                           "rebuild_mode_deflated": 10, "rebuild_mode_stored": 10,
                           "rebuild_edit_mtime_back": 20, "rebuild_edit_mtime_equal": 20,
                           "lookalike_name_compares": 900}},
    "thorough": {"evaluations": 40000, "distinct": 4000,
                 "counters": {"mode_dir": 3000, "mode_deflated": 3000, "mode_stored": 3000,
                              "templates_compared": 40000, "sets_with_inheritance_or_import": 3000,
                              "shared_loader_sequences": 2000, "name_dependent_autoescape_compares": 1500,
                              "multi_location_compares": 5000,
                              "second_pass_compares": 11000, "second_pass_same_template_object": 11000,
                              "stateful_histories": 1800, "stateful_auto_reload_on": 900,
                              "stateful_auto_reload_off": 900,
                              "stateful_histories_where_state_shows": 1800,
                              "stateful_histories_with_a_template_served_again": 1100,
                              "stateful_sets_dir": 120, "stateful_sets_deflated": 120,
                              "stateful_sets_stored": 120, "sets_with_non_ascii_identifiers": 400,
                              "rebuild_histories": 700, "rebuild_compares": 5000, "rebuild_mode_dir": 200,
                              "rebuild_mode_deflated": 200, "rebuild_mode_stored": 200,
                              "rebuild_edit_mtime_back": 400, "rebuild_edit_mtime_equal": 400,
                              "lookalike_name_compares": 18000}},
}

_n = 0
RENAMES = [lambda n: n, lambda n: "dir/sub/" + n + ".html", lambda n: "ü/" + n + ".x.y", lambda n: n + ".txt"]


def rename_case(case, f):
    """Rename templates (names appear as string constants in extends/include/import)."""
    import json

    names = list(case["asts"])
    mp = {n: f(n) for n in names}

    def fix(node):
        if isinstance(node, list):
            if len(node) == 2 and node[0] == "const" and isinstance(node[1], str) and node[1] in mp:
                return ["const", mp[node[1]]]
            return [fix(x) for x in node]
        return node

    out = dict(case)
    out["asts"] = {mp[n]: fix(b) for n, b in case["asts"].items()}
    out["main"] = mp[case["main"]]
    d = {}
    for k, v in case["data"].items():
        if isinstance(v, str) and v in mp and k.startswith("layout"):
            d[k] = mp[v]
        elif isinstance(v, dict) and "$tpl" in v:
            d[k] = {"$tpl": mp[v["$tpl"]]}
        else:
            d[k] = v
    out["data"] = d
    return out


def check_case(ctx, case, mode, is_async, tmp):
    import jinja2

    src_env = corpus.make_env(case, enable_async=is_async)
    # a fresh target per case here; rebuilding a compiled set in place is check_rebuild's history
    global _n
    _n += 1
    target = os.path.join(tmp, f"out{_n}.zip" if mode != "dir" else f"outdir{_n}")
    zipmode = {"dir": None, "deflated": "deflated", "stored": "stored"}[mode]
    import importlib

    try:
        src_env.compile_templates(target, zip=zipmode, ignore_errors=False, log_function=lambda m: None)
    except Exception as e:
        # a template that does not compile from source cannot be precompiled either
        so = util.capture(lambda: [src_env.get_template(n) for n in case["asts"]])
        if so.ok:
            ctx.violation("compile_templates:raises", f"{type(e).__name__}: {e} | {corpus.sources(case)}",
                          {"case": case, "mode": mode, "async": is_async})
        return
    importlib.invalidate_caches()
    mod_env = jinja2.Environment(loader=jinja2.ModuleLoader(target), extensions=corpus.EXTENSIONS,
                                 enable_async=is_async)
    mod_env.globals.update(case["globals"])
    ctx.count("mode_" + mode)
    for name in case["asts"]:
        a = util.capture(lambda: src_env.get_template(name).render(corpus.realize_data(case, src_env)))
        b = util.capture(lambda: mod_env.get_template(name).render(corpus.realize_data(case, mod_env)))
        ctx.ev()
        ctx.count("templates_compared")
        ok = (a.ok and b.ok and a.value == b.value) or (not a.ok and not b.ok and type(a.exc) is type(b.exc))
        if not ok:
            ctx.violation(f"precompiled:{mode}:{case['kind']}",
                          f"template {name!r}: source {a!r} vs precompiled {b!r} | {corpus.sources(case)}",
                          {"case": case, "mode": mode, "async": is_async})
            return
    # history on the generated set: every template is requested and rendered a second time (reverse
    # order) in the SAME two environments; text and "is it the template object handed out before"
    # must agree
    if not second_pass(ctx, case, mode, is_async, src_env, mod_env):
        return
    # two differently configured environments may share ONE ModuleLoader, and globals may be
    # installed after a precompiled template was first loaded: both must behave like source loading
    def second(loader):
        e = jinja2.Environment(loader=loader, extensions=corpus.EXTENSIONS, enable_async=is_async)
        e.globals.update(case["globals"])
        e.filters["mark"] = lambda v: f"[2{v}]"
        e.globals["late"] = "two"
        return e

    probe = "zz_probe"
    psrc = "{{ v|mark }}{{ late|default('-') }}"   # v is data: nothing to fold at precompile time
    srcs = dict(corpus.sources(case))
    srcs[probe] = psrc
    import tempfile as _tf

    s_env1 = jinja2.Environment(loader=jinja2.DictLoader(srcs), extensions=corpus.EXTENSIONS, enable_async=is_async)
    s_env1.filters["mark"] = lambda v: f"[1{v}]"
    target2 = target + ".probe" + (".zip" if mode != "dir" else "")
    try:
        s_env1.compile_templates(target2, zip=zipmode, ignore_errors=True, log_function=lambda m: None)
        importlib.invalidate_caches()
        shared = jinja2.ModuleLoader(target2)
        m_env1 = jinja2.Environment(loader=shared, extensions=corpus.EXTENSIONS, enable_async=is_async)
        m_env1.filters["mark"] = lambda v: f"[1{v}]"
        seqs = {}
        for label, e1, mk2 in (("source", s_env1, lambda: second(jinja2.DictLoader(srcs))),
                               ("precompiled", m_env1, lambda: second(shared))):
            out = []
            t1 = e1.get_template(probe)
            out.append(util.capture(lambda: t1.render(v='x')))            # first environment alone
            e2 = mk2()
            out.append(util.capture(lambda: e2.get_template(probe).render(v='x')))   # second environment, same loader
            out.append(util.capture(lambda: t1.render(v='x')))            # first environment's template again
            e1.globals["late"] = "one"                               # global installed after the first load
            out.append(util.capture(lambda: t1.render(v='x')))
            out.append(util.capture(lambda: e1.get_template(probe).render(v='x')))
            # the template OBJECT of the first environment used by a template of the second one
            out.append(util.capture(lambda: e2.from_string("{% extends layout %}").render(layout=t1, v='x')))
            out.append(util.capture(lambda: e2.from_string("[{% include layout %}]").render(layout=t1, v='x')))
            out.append(util.capture(lambda: e2.from_string("{% import layout as m %}<{{ m }}>").render(layout=t1, v='x')))
            seqs[label] = [repr(o) for o in out]
        ctx.ev()
        ctx.count("shared_loader_sequences")
        if seqs["source"] != seqs["precompiled"]:
            ctx.violation(f"precompiled:{mode}:shared-loader-or-late-globals",
                          f"sequence [env1, env2, env1 again, env1 after late global, env1 reloaded, env1's template object "
                          f"as extends parent / include / import target in env2]: "
                          f"source {seqs['source']} vs precompiled {seqs['precompiled']}",
                          {"case": case, "mode": mode, "async": is_async})
    finally:
        if os.path.isdir(target2):
            shutil.rmtree(target2, ignore_errors=True)
        elif os.path.exists(target2):
            os.remove(target2)
    # (b) name-dependent configuration and several compiled locations
    try:
        if _n % 5 == 0:
            check_names_and_paths(ctx, case, mode, is_async, target + ".np")
    except Exception as e:  # harness problems must not pass silently
        ctx.inconc(f"names/paths sub-check crashed: {type(e).__name__}: {e}")
    # the module loader lists nothing it does not have
    miss = util.capture(lambda: mod_env.get_template("definitely/not/there"))
    if os.path.isdir(target):
        shutil.rmtree(target, ignore_errors=True)
    else:
        try:
            os.remove(target)
        except OSError:
            pass
    if miss.ok or type(miss.exc).__name__ != "TemplateNotFound":
        ctx.violation("precompiled:missing-name", f"{miss!r}", {"case": case, "mode": mode, "async": is_async})


def second_pass(ctx, case, mode, is_async, src_env, mod_env):
    first = {}
    for label, env in (("source", src_env), ("precompiled", mod_env)):
        first[label] = {n: util.capture(env.get_template, n) for n in case["asts"]}
    for name in reversed(list(case["asts"])):
        obs = {}
        for label, env in (("source", src_env), ("precompiled", mod_env)):
            t = util.capture(env.get_template, name)
            f = first[label][name]
            again = bool(t.ok and f.ok and t.value is f.value)
            r = util.capture(lambda: t.value.render(corpus.realize_data(case, env))) if t.ok else t
            obs[label] = (r, again)
        ctx.ev()
        ctx.count("second_pass_compares")
        (a, ai), (b, bi) = obs["source"], obs["precompiled"]
        if ai:
            ctx.count("second_pass_same_template_object")
        if not ((a.ok and b.ok and a.value == b.value) or
                (not a.ok and not b.ok and type(a.exc) is type(b.exc))):
            ctx.violation(f"precompiled:{mode}:{case['kind']}:second-render-in-same-environment",
                          f"template {name!r} rendered a second time: source {a!r} vs precompiled {b!r} "
                          f"| {corpus.sources(case)}", {"case": case, "mode": mode, "async": is_async})
            return False
        if ai != bi:
            ctx.violation(f"precompiled:{mode}:repeated-get_template:{'rebuilt' if ai else 'reused'}-"
                          f"where-source-loading-{'reuses' if ai else 'rebuilds'}",
                          f"second get_template({name!r}) in the same environment returned the template "
                          f"object of the first call: source loading {ai}, precompiled {bi}",
                          {"case": case, "mode": mode, "async": is_async})
            return False
    return True


# ------------------------------------------------------------ stateful sets
# Template sets in which a template that others import keeps STATE in its
# module (cycler / namespace / joiner set at top level and advanced by an
# exported macro).  An import without context uses the module of the loaded
# Template object, so what a history of renders shows depends on when the
# environment hands out the same Template again and when it builds a new one.
CARRIERS = {
    "cycler": ("{% set counter = cycler('a', 'b', 'c') %}", "{{ counter.next() }}"),
    "namespace": ("{% set ns = namespace(n=0) %}", "{% set ns.n = ns.n + 1 %}{{ ns.n }}"),
    "joiner": ("{% set sep = joiner('|') %}", "{{ sep() }}x"),
}
CACHE_SIZES = (400, 0, 1, 2)


def stateful_set(rng, rename):
    chosen = [c for c in sorted(CARRIERS) if rng.random() < 0.6] or [rng.choice(sorted(CARRIERS))]
    q = {n: rename(n) for n in ("lib", "main", "from", "ctx", "child", "base", "deep", "mid", "incl")}
    lib = "".join(CARRIERS[c][0] for c in chosen) + "{% macro tick() %}" + \
        "".join(CARRIERS[c][1] for c in chosen) + "{% endmacro %}"
    srcs = {
        q["lib"]: lib,
        q["main"]: "{% import '" + q["lib"] + "' as lib %}[{{ lib.tick() }}]",
        q["from"]: "{% from '" + q["lib"] + "' import tick %}<{{ tick() }}{{ tick() }}>",
        q["ctx"]: "{% import '" + q["lib"] + "' as lib with context %}({{ lib.tick() }})",
        q["child"]: "{% extends '" + q["base"] + "' %}{% block body %}{% include '" + q["main"]
                    + "' %}{% endblock %}",
        q["base"]: "<{% block body %}{% endblock %}>",
        q["deep"]: "{% import '" + q["mid"] + "' as mid %}{{ mid.go() }}",
        q["mid"]: "{% import '" + q["lib"] + "' as lib %}{% macro go() %}{{ lib.tick() }}{% endmacro %}",
        q["incl"]: "{% include '" + q["main"] + "' %}{% include '" + q["from"] + "' %}",
    }
    return srcs, q, chosen


def stateful_history(rng, q):
    """ops: ['render', name] | ['module', lib] (call the exported macro through
    Template.module) | ['held', k] (render the k-th template object obtained so
    far once more) | ['clear'] (empty the environment's template cache)."""
    users = [q[n] for n in ("main", "from", "ctx", "child", "deep", "incl", "lib")]
    focus = rng.sample(users, rng.randint(1, 3))       # repeated loads of few names
    ops = []
    for _ in range(rng.randint(6, 12)):
        x = rng.random()
        if x < 0.70:
            ops.append(["render", rng.choice(focus) if rng.random() < 0.75 else rng.choice(users)])
        elif x < 0.82:
            ops.append(["module", q["lib"]])
        elif x < 0.94:
            ops.append(["held", rng.randrange(8)])
        else:
            ops.append(["clear"])
    return ops


def play(env, ops):
    """[(outcome repr, index of the template object among those seen | None)]"""
    seen = []
    out = []

    def ident(t):
        for i, s in enumerate(seen):
            if s is t:
                return i
        seen.append(t)
        return len(seen) - 1

    for op in ops:
        if op[0] == "clear":
            if env.cache is not None:
                env.cache.clear()
            out.append(("cleared", None))
            continue
        if op[0] == "held":
            if not seen:
                out.append(("nothing-held", None))
                continue
            t = seen[op[1] % len(seen)]
            out.append((repr(util.capture(t.render)), None))
            continue
        t = util.capture(env.get_template, op[1])
        if not t.ok:
            out.append((repr(t), None))
            continue
        i = ident(t.value)
        if op[0] == "module":
            out.append((repr(util.capture(lambda: str(t.value.module.tick()))), i))
        else:
            out.append((repr(util.capture(t.value.render)), i))
    return out


def check_stateful(ctx, spec, mode, is_async, base):
    """spec: {'srcs', 'histories': [[auto_reload, cache_size, ops], ...]}"""
    import importlib

    import jinja2

    zipmode = {"dir": None, "deflated": "deflated", "stored": "stored"}[mode]
    srcs = spec["srcs"]
    target = base + (".zip" if zipmode else "")
    try:
        jinja2.Environment(loader=jinja2.DictLoader(srcs), enable_async=is_async).compile_templates(
            target, zip=zipmode, ignore_errors=False, log_function=lambda m: None)
        importlib.invalidate_caches()
        for ar, cs, ops in spec["histories"]:
            res = {}
            for label, mk in (("source", lambda: jinja2.DictLoader(srcs)),
                              ("precompiled", lambda: jinja2.ModuleLoader(target))):
                env = jinja2.Environment(loader=mk(), auto_reload=ar, cache_size=cs,
                                         enable_async=is_async)
                res[label] = play(env, ops)
            ctx.ev()
            ctx.count("stateful_histories")
            ctx.count("stateful_history_ops", len(ops))
            ctx.count("stateful_auto_reload_" + ("on" if ar else "off"))
            a, b = res["source"], res["precompiled"]
            if len({i for _, i in a if i is not None}) < sum(1 for _, i in a if i is not None):
                ctx.count("stateful_histories_with_a_template_served_again")
            if len({r for r, i in a if i is not None}) > 1:
                ctx.count("stateful_histories_where_state_shows")
            if a == b:
                continue
            cfg = f"auto_reload={'on' if ar else 'off'}:cache_size={'n' if cs > 0 else cs}"
            k = next(i for i in range(len(ops)) if a[i] != b[i])
            what = "output" if a[k][0] != b[k][0] else "template-identity"
            ctx.violation(f"precompiled:{mode}:history:{what}:{cfg}",
                          f"one environment ({cfg}, async={is_async}), history {ops}: step {k} {ops[k]} "
                          f"gives {a[k]} when the set is loaded from source and {b[k]} when it is "
                          f"precompiled ({mode}); full: source {a} vs precompiled {b} | {srcs}",
                          {"stateful": spec, "mode": mode, "async": is_async})
            return
    finally:
        if os.path.isdir(target):
            shutil.rmtree(target, ignore_errors=True)
        elif os.path.exists(target):
            os.remove(target)


def gen_stateful(rng, rename_index):
    srcs, q, chosen = stateful_set(rng, RENAMES[rename_index % len(RENAMES)])
    # the default cache with auto_reload on and off always, two of the six other
    # (auto_reload, cache size) combinations in rotation
    rest = [(ar, cs) for cs in CACHE_SIZES[1:] for ar in (True, False)]
    cfgs = [(True, CACHE_SIZES[0]), (False, CACHE_SIZES[0]),
            rest[(2 * rename_index) % 6], rest[(2 * rename_index + 1) % 6]]
    hists = [[ar, cs, stateful_history(rng, q)] for ar, cs in cfgs]
    return {"srcs": srcs, "carriers": chosen, "histories": hists}


def check_names_and_paths(ctx, case, mode, is_async, base):
    """select_autoescape decides by template NAME; a ModuleLoader with several compiled
    locations resolves a name to the FIRST location that has it (documented search order)."""
    import importlib

    import jinja2

    zipmode = {"dir": None, "deflated": "deflated", "stored": "stored"}[mode]
    hot = "<b>&</b>"
    srcs = {"page.html": "{{ v }}|{% include 'part.txt' %}|{% import 'mac.xml' as m %}{{ m.f(v) }}",
            "part.txt": "{{ v }}", "mac.xml": "{% macro f(x) %}{{ x }}{% endmacro %}",
            "zeta/page.txt": "{{ v }}{% include 'page.html' %}"}
    ae = jinja2.select_autoescape(enabled_extensions=("html", "xml"), disabled_extensions=("txt",))
    s_env = jinja2.Environment(loader=jinja2.DictLoader(srcs), autoescape=ae, enable_async=is_async)
    t1 = base + ("_a.zip" if zipmode else "_a")
    made = [t1]
    try:
        s_env.compile_templates(t1, zip=zipmode, ignore_errors=False, log_function=lambda m: None)
        importlib.invalidate_caches()
        m_env = jinja2.Environment(loader=jinja2.ModuleLoader(t1), autoescape=ae, enable_async=is_async)
        for name in srcs:
            a = util.capture(lambda: s_env.get_template(name).render(v=hot))
            b = util.capture(lambda: m_env.get_template(name).render(v=hot))
            ctx.ev()
            ctx.count("name_dependent_autoescape_compares")
            if not ((a.ok and b.ok and a.value == b.value) or (not a.ok and not b.ok and type(a.exc) is type(b.exc))):
                ctx.violation(f"precompiled:{mode}:name-dependent-configuration",
                              f"select_autoescape by name: template {name!r} source {a!r} vs precompiled {b!r}",
                              {"case": case, "mode": mode, "async": is_async})
                break
        # (c) names that are DISTINCT strings but look alike (canonically equivalent Unicode forms,
        # case variants, compatibility characters, surrounding blanks, '.' vs '_'): every one is a
        # template of its own on the source side, so it must be one on the precompiled side
        groups = [["caf\u00e9.html", "cafe\u0301.html"], ["Page.html", "page.html", "PAGE.html"],
                  ["\ufb01le.txt", "file.txt"], ["a.b", "a_b", "a b", "a.b "], ["\u212b", "\u00c5", "A\u030a"],
                  ["x/y", "x//y", "x/./y"], ["\u0131.t", "i.t", "I.t", "\u0130.t"]]
        lk = {}
        for gi, g in enumerate(groups):
            for ni, nm in enumerate(g):
                other = g[(ni + 1) % len(g)]
                lk[nm] = f"<{gi}.{ni}>" + ("{% include " + repr(other) + " ignore missing %}") * (ni % 2)
        lk["zz_all"] = "".join("{% include " + repr(nm) + " %}|" for nm in lk)
        ls_env = jinja2.Environment(loader=jinja2.DictLoader(lk), enable_async=is_async)
        t3 = base + ("_lk.zip" if zipmode else "_lk")
        made.append(t3)
        ls_env.compile_templates(t3, zip=zipmode, ignore_errors=False, log_function=lambda m: None)
        importlib.invalidate_caches()
        lm_env = jinja2.Environment(loader=jinja2.ModuleLoader(t3), enable_async=is_async)
        for name in lk:
            a = util.capture(lambda: ls_env.get_template(name).render())
            b = util.capture(lambda: lm_env.get_template(name).render())
            ctx.ev()
            ctx.count("lookalike_name_compares")
            if not ((a.ok and b.ok and a.value == b.value) or (not a.ok and not b.ok and type(a.exc) is type(b.exc))):
                ctx.violation(f"precompiled:{mode}:look-alike-names",
                              f"set with distinct look-alike names: template {name!r} ({ascii(name)}) source {a!r} vs "
                              f"precompiled {b!r}", {"case": case, "mode": mode, "async": is_async})
                break
        # several locations with overlapping names: directory names chosen so that the
        # priority order differs from the lexicographic order
        locs = []
        contents = [("zz_first", {"a": "FIRST-a{% include 'b' %}", "b": "FIRST-b"}),
                    ("mm_second", {"a": "SECOND-a", "b": "SECOND-b", "c": "SECOND-c{% include 'a' %}"}),
                    ("aa_third", {"b": "THIRD-b", "c": "THIRD-c", "d": "{% extends 'c' %}"})]
        for dn, tp in contents:
            e = jinja2.Environment(loader=jinja2.DictLoader(tp), enable_async=is_async)
            loc = base + "_" + dn + (".zip" if zipmode else "")
            e.compile_templates(loc, zip=zipmode, ignore_errors=False, log_function=lambda m: None)
            locs.append(loc)
            made.append(loc)
        importlib.invalidate_caches()
        for order in ([0, 1, 2], [2, 1, 0], [1, 0, 2]):
            paths = [locs[i] for i in order]
            ml = jinja2.Environment(loader=jinja2.ModuleLoader(paths), enable_async=is_async)
            sl = jinja2.Environment(loader=jinja2.ChoiceLoader([jinja2.DictLoader(contents[i][1]) for i in order]),
                                    enable_async=is_async)
            for name in ("a", "b", "c", "d", "nope"):
                a = util.capture(lambda: sl.get_template(name).render())
                b = util.capture(lambda: ml.get_template(name).render())
                ctx.ev()
                ctx.count("multi_location_compares")
                if not ((a.ok and b.ok and a.value == b.value) or (not a.ok and not b.ok and type(a.exc) is type(b.exc))):
                    ctx.violation(f"precompiled:{mode}:location-order",
                                  f"ModuleLoader({[os.path.basename(p) for p in paths]}) name {name!r}: first-location-wins "
                                  f"expects {a!r}, got {b!r}", {"case": case, "mode": mode, "async": is_async})
                    return
    finally:
        for p in made:
            if os.path.isdir(p):
                shutil.rmtree(p, ignore_errors=True)
            elif os.path.exists(p):
                os.remove(p)


def check_rebuild(ctx, case, mode, is_async, base, salt=0):
    """A compiled set is REBUILT IN PLACE: templates on disk (FileSystemLoader) are compiled into a
    target, some sources are edited (their mtimes forced backwards, kept equal, or left to move on),
    and the set is compiled again into the SAME target; a fresh ModuleLoader must then render every
    template like the current sources do."""
    import importlib

    import jinja2

    zipmode = {"dir": None, "deflated": "deflated", "stored": "stored"}[mode]
    srcdir = base + "_src"
    target = base + ("_out.zip" if zipmode else "_out")
    srcs = dict(corpus.sources(case))
    srcs["zz_rebuild.txt"] = "build-one {{ 1 + 1 }}"
    paths = {}
    try:
        for name, text in srcs.items():
            fp = os.path.join(srcdir, *name.split("/"))
            os.makedirs(os.path.dirname(fp), exist_ok=True)
            with open(fp, "w", encoding="utf-8", newline="") as f:
                f.write(text)
            paths[name] = fp
        def mk(loader):
            e = jinja2.Environment(loader=loader, extensions=corpus.EXTENSIONS, enable_async=is_async)
            e.globals.update(case["globals"])
            return e

        def compare(step):
            importlib.invalidate_caches()
            s_env = mk(jinja2.FileSystemLoader(srcdir))
            m_env = mk(jinja2.ModuleLoader(target))
            for name in srcs:
                a = util.capture(lambda: s_env.get_template(name).render(corpus.realize_data(case, s_env)))
                b = util.capture(lambda: m_env.get_template(name).render(corpus.realize_data(case, m_env)))
                ctx.ev()
                ctx.count("rebuild_compares")
                if not ((a.ok and b.ok and a.value == b.value) or (not a.ok and not b.ok and type(a.exc) is type(b.exc))):
                    ctx.violation(f"precompiled:{mode}:rebuilt-in-place:{step}",
                                  f"template {name!r} after {step}: current source {a!r} vs precompiled {b!r} | "
                                  f"{sorted(srcs.items())}", {"rebuild": True, "salt": salt, "case": case, "mode": mode, "async": is_async})
                    return False
            return True

        b_env = mk(jinja2.FileSystemLoader(srcdir))
        b_env.compile_templates(target, zip=zipmode, ignore_errors=True, log_function=lambda m: None)
        if not compare("first build"):
            return
        # edit: every second template gets visible text in front (children of an inheritance
        # chain ignore it, which both sides must agree on); the probe changes its whole body
        names = sorted(srcs)
        edited = 0
        for k, name in enumerate(names):
            if name != "zz_rebuild.txt" and (k + salt) % 2:
                continue
            st = os.stat(paths[name])
            srcs[name] = "build-two {{ 2 + 2 }}" if name == "zz_rebuild.txt" else "<r" + str(k) + ">" + srcs[name]
            with open(paths[name], "w", encoding="utf-8", newline="") as f:
                f.write(srcs[name])
            how = (k + salt // 2) % 3
            if how == 0:      # restored from a backup / checked out from version control: older than before
                os.utime(paths[name], ns=(st.st_atime_ns, st.st_mtime_ns - 3_600_000_000_000))
            elif how == 1:    # edited within the timestamp granularity
                os.utime(paths[name], ns=(st.st_atime_ns, st.st_mtime_ns))
            ctx.count("rebuild_edit_mtime_" + ("back", "equal", "natural")[how])
            edited += 1
        r_env = b_env if salt % 2 else mk(jinja2.FileSystemLoader(srcdir))
        r_env.compile_templates(target, zip=zipmode, ignore_errors=True, log_function=lambda m: None)
        ctx.count("rebuild_histories")
        ctx.count("rebuild_mode_" + mode)
        compare("rebuild into the same target")
    finally:
        shutil.rmtree(srcdir, ignore_errors=True)
        if os.path.isdir(target):
            shutil.rmtree(target, ignore_errors=True)
        elif os.path.exists(target):
            os.remove(target)


def run(ctx):
    rng = ctx.rng("c31")
    tmp = tempfile.mkdtemp(prefix="vt_c31_")
    modes = ["dir", "deflated", "stored"]
    try:
        n = 600 if ctx.tier == "quick" else 15000
        i = 0
        while ctx.more(i, n, floor=40):
            kinds = ("inherit", "incimp", "inherit", "incimp", "stmt", "expr", "loop")
            case = corpus.gen_case(rng, kinds=kinds)
            case = rename_case(case, RENAMES[i % len(RENAMES)])
            if case["kind"] == "stmt" and i % 2:
                # non-ASCII identifiers (variables, loop and set targets, macro parameters,
                # keyword arguments): they become identifiers of the generated module
                from vt.gen import stmtgen

                mp = {"a": "\u043f\u0435\u0440\u0435\u043c", "b": "\u53d8\u91cf", "c": "\u00f1u",
                      "d": "gr\u00f6\u00dfe", "e": "\u00e9e"}
                case = dict(case, asts={n: stmtgen.rename_body(b, mp) for n, b in case["asts"].items()},
                            data={mp.get(k, k): v for k, v in case["data"].items()})
                ctx.count("sets_with_non_ascii_identifiers")
            if case["kind"] in ("inherit", "incimp"):
                ctx.count("sets_with_inheritance_or_import")
            mode = modes[i % 3]
            check_case(ctx, case, mode, is_async=(i % 4 == 3), tmp=tmp)
            ctx.dist([mode, corpus.shape(case)])
            if i % 10 == 1:
                j = i // 10
                spec = gen_stateful(rng, j)
                smode = modes[j % 3]
                try:
                    check_stateful(ctx, spec, smode, (j % 4 == 3), os.path.join(tmp, f"st{i}"))
                except Exception as e:  # harness problems must not pass silently
                    ctx.inconc(f"stateful-history sub-check crashed: {type(e).__name__}: {e}")
                ctx.count("stateful_sets_" + smode)
                ctx.dist(["stateful", smode, spec["carriers"], j % 4])
            if i % 6 == 2:
                try:
                    check_rebuild(ctx, case, modes[(i // 6) % 3], (i % 4 == 3), os.path.join(tmp, f"rb{i}"), salt=i // 6)
                except Exception as e:  # harness problems must not pass silently
                    ctx.inconc(f"rebuild sub-check crashed: {type(e).__name__}: {e}")
            if i < 2:
                ctx.sample({"sources": corpus.sources(case), "mode": mode})
            i += 1
    finally:
        shutil.rmtree(tmp, ignore_errors=True)


def replay(ctx, case):
    tmp = tempfile.mkdtemp(prefix="vt_c31_")
    try:
        if case.get("rebuild"):
            check_rebuild(ctx, case["case"], case["mode"], case["async"], os.path.join(tmp, "rb"), salt=case.get("salt", 0))
            return
        if "stateful" in case:
            check_stateful(ctx, case["stateful"], case["mode"], case["async"], os.path.join(tmp, "st"))
            return
        check_case(ctx, case["case"], case["mode"], case["async"], tmp)
    finally:
        shutil.rmtree(tmp, ignore_errors=True)
