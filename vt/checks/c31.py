"""C31 — precompiled templates render exactly like templates compiled from source."""
from __future__ import annotations

import os
import shutil
import tempfile

from vt import util
from vt.gen import corpus

PID = "C31"
LEVEL = "exploration"
TECHNIQUE = "differential monitor: DictLoader (source) vs compile_templates + ModuleLoader (directory, deflated zip, stored zip) on the real engine"
RULE = ("generated template sets (inheritance chains, include/import sets, statement and expression "
        "programs; names with '/', dots and non-ASCII) compiled ahead of time with every zip mode and "
        "loaded through ModuleLoader in a fresh environment (sync and async); every template of the set "
        "is rendered both ways and must give the same text or the same exception class. distinct = "
        "distinct set shapes x packaging mode")
LEVEL_TEXT = "held on the generated template sets only"
ASSUMPTIONS = ["the precompiling and the loading environment share the same options and extensions"]
NSHARDS = {"quick": 16, "thorough": 16}
BUDGET_S = {"quick": 20, "thorough": 500}
FLOORS = {
    "quick": {"evaluations": 1500, "distinct": 200,
              "counters": {"mode_dir": 150, "mode_deflated": 150, "mode_stored": 150,
                           "templates_compared": 1500, "sets_with_inheritance_or_import": 150,
                           "shared_loader_sequences": 100, "name_dependent_autoescape_compares": 100,
                           "multi_location_compares": 300}},
    "thorough": {"evaluations": 40000, "distinct": 4000,
                 "counters": {"mode_dir": 3000, "mode_deflated": 3000, "mode_stored": 3000,
                              "templates_compared": 40000, "sets_with_inheritance_or_import": 3000,
                              "shared_loader_sequences": 2000, "name_dependent_autoescape_compares": 1500,
                              "multi_location_compares": 5000}},
}

_n = 0
RENAMES = [lambda n: n, lambda n: "dir/sub/" + n + ".html", lambda n: "ü/" + n + ".x.y", lambda n: n + ".txt"]


def rename_case(case, f):
    """Rename templates (names appear as string constants in extends/include/import)."""
    import json

    names = list(case["asts"])
    mp = {n: f(n) for n in names}

    def fix(node):
        if isinstance(node, list):
            if len(node) == 2 and node[0] == "const" and isinstance(node[1], str) and node[1] in mp:
                return ["const", mp[node[1]]]
            return [fix(x) for x in node]
        return node

    out = dict(case)
    out["asts"] = {mp[n]: fix(b) for n, b in case["asts"].items()}
    out["main"] = mp[case["main"]]
    d = {}
    for k, v in case["data"].items():
        if isinstance(v, str) and v in mp and k.startswith("layout"):
            d[k] = mp[v]
        elif isinstance(v, dict) and "$tpl" in v:
            d[k] = {"$tpl": mp[v["$tpl"]]}
        else:
            d[k] = v
    out["data"] = d
    return out


def check_case(ctx, case, mode, is_async, tmp):
    import jinja2

    src_env = corpus.make_env(case, enable_async=is_async)
    # a fresh target per case: zipimport and importlib cache directory
    # listings per path, and real users do not overwrite a compiled set in place
    global _n
    _n += 1
    target = os.path.join(tmp, f"out{_n}.zip" if mode != "dir" else f"outdir{_n}")
    zipmode = {"dir": None, "deflated": "deflated", "stored": "stored"}[mode]
    import importlib

    try:
        src_env.compile_templates(target, zip=zipmode, ignore_errors=False, log_function=lambda m: None)
    except Exception as e:
        # a template that does not compile from source cannot be precompiled either
        so = util.capture(lambda: [src_env.get_template(n) for n in case["asts"]])
        if so.ok:
            ctx.violation("compile_templates:raises", f"{type(e).__name__}: {e} | {corpus.sources(case)}",
                          {"case": case, "mode": mode, "async": is_async})
        return
    importlib.invalidate_caches()
    mod_env = jinja2.Environment(loader=jinja2.ModuleLoader(target), extensions=corpus.EXTENSIONS,
                                 enable_async=is_async)
    mod_env.globals.update(case["globals"])
    ctx.count("mode_" + mode)
    for name in case["asts"]:
        a = util.capture(lambda: src_env.get_template(name).render(corpus.realize_data(case, src_env)))
        b = util.capture(lambda: mod_env.get_template(name).render(corpus.realize_data(case, mod_env)))
        ctx.ev()
        ctx.count("templates_compared")
        ok = (a.ok and b.ok and a.value == b.value) or (not a.ok and not b.ok and type(a.exc) is type(b.exc))
        if not ok:
            ctx.violation(f"precompiled:{mode}:{case['kind']}",
                          f"template {name!r}: source {a!r} vs precompiled {b!r} | {corpus.sources(case)}",
                          {"case": case, "mode": mode, "async": is_async})
            return
    # two differently configured environments may share ONE ModuleLoader, and globals may be
    # installed after a precompiled template was first loaded: both must behave like source loading
    def second(loader):
        e = jinja2.Environment(loader=loader, extensions=corpus.EXTENSIONS, enable_async=is_async)
        e.globals.update(case["globals"])
        e.filters["mark"] = lambda v: f"[2{v}]"
        e.globals["late"] = "two"
        return e

    probe = "zz_probe"
    psrc = "{{ v|mark }}{{ late|default('-') }}"   # v is data: nothing to fold at precompile time
    srcs = dict(corpus.sources(case))
    srcs[probe] = psrc
    import tempfile as _tf

    s_env1 = jinja2.Environment(loader=jinja2.DictLoader(srcs), extensions=corpus.EXTENSIONS, enable_async=is_async)
    s_env1.filters["mark"] = lambda v: f"[1{v}]"
    target2 = target + ".probe" + (".zip" if mode != "dir" else "")
    try:
        s_env1.compile_templates(target2, zip=zipmode, ignore_errors=True, log_function=lambda m: None)
        importlib.invalidate_caches()
        shared = jinja2.ModuleLoader(target2)
        m_env1 = jinja2.Environment(loader=shared, extensions=corpus.EXTENSIONS, enable_async=is_async)
        m_env1.filters["mark"] = lambda v: f"[1{v}]"
        seqs = {}
        for label, e1, mk2 in (("source", s_env1, lambda: second(jinja2.DictLoader(srcs))),
                               ("precompiled", m_env1, lambda: second(shared))):
            out = []
            t1 = e1.get_template(probe)
            out.append(util.capture(lambda: t1.render(v='x')))            # first environment alone
            e2 = mk2()
            out.append(util.capture(lambda: e2.get_template(probe).render(v='x')))   # second environment, same loader
            out.append(util.capture(lambda: t1.render(v='x')))            # first environment's template again
            e1.globals["late"] = "one"                               # global installed after the first load
            out.append(util.capture(lambda: t1.render(v='x')))
            out.append(util.capture(lambda: e1.get_template(probe).render(v='x')))
            seqs[label] = [repr(o) for o in out]
        ctx.ev()
        ctx.count("shared_loader_sequences")
        if seqs["source"] != seqs["precompiled"]:
            ctx.violation(f"precompiled:{mode}:shared-loader-or-late-globals",
                          f"sequence [env1, env2, env1 again, env1 after late global, env1 reloaded]: "
                          f"source {seqs['source']} vs precompiled {seqs['precompiled']}",
                          {"case": case, "mode": mode, "async": is_async})
    finally:
        if os.path.isdir(target2):
            shutil.rmtree(target2, ignore_errors=True)
        elif os.path.exists(target2):
            os.remove(target2)
    # (b) name-dependent configuration and several compiled locations
    try:
        if _n % 5 == 0:
            check_names_and_paths(ctx, case, mode, is_async, target + ".np")
    except Exception as e:  # harness problems must not pass silently
        ctx.inconc(f"names/paths sub-check crashed: {type(e).__name__}: {e}")
    # the module loader lists nothing it does not have
    miss = util.capture(lambda: mod_env.get_template("definitely/not/there"))
    if os.path.isdir(target):
        shutil.rmtree(target, ignore_errors=True)
    else:
        try:
            os.remove(target)
        except OSError:
            pass
    if miss.ok or type(miss.exc).__name__ != "TemplateNotFound":
        ctx.violation("precompiled:missing-name", f"{miss!r}", {"case": case, "mode": mode, "async": is_async})


def check_names_and_paths(ctx, case, mode, is_async, base):
    """select_autoescape decides by template NAME; a ModuleLoader with several compiled
    locations resolves a name to the FIRST location that has it (documented search order)."""
    import importlib

    import jinja2

    zipmode = {"dir": None, "deflated": "deflated", "stored": "stored"}[mode]
    hot = "<b>&</b>"
    srcs = {"page.html": "{{ v }}|{% include 'part.txt' %}|{% import 'mac.xml' as m %}{{ m.f(v) }}",
            "part.txt": "{{ v }}", "mac.xml": "{% macro f(x) %}{{ x }}{% endmacro %}",
            "zeta/page.txt": "{{ v }}{% include 'page.html' %}"}
    ae = jinja2.select_autoescape(enabled_extensions=("html", "xml"), disabled_extensions=("txt",))
    s_env = jinja2.Environment(loader=jinja2.DictLoader(srcs), autoescape=ae, enable_async=is_async)
    t1 = base + ("_a.zip" if zipmode else "_a")
    made = [t1]
    try:
        s_env.compile_templates(t1, zip=zipmode, ignore_errors=False, log_function=lambda m: None)
        importlib.invalidate_caches()
        m_env = jinja2.Environment(loader=jinja2.ModuleLoader(t1), autoescape=ae, enable_async=is_async)
        for name in srcs:
            a = util.capture(lambda: s_env.get_template(name).render(v=hot))
            b = util.capture(lambda: m_env.get_template(name).render(v=hot))
            ctx.ev()
            ctx.count("name_dependent_autoescape_compares")
            if not ((a.ok and b.ok and a.value == b.value) or (not a.ok and not b.ok and type(a.exc) is type(b.exc))):
                ctx.violation(f"precompiled:{mode}:name-dependent-configuration",
                              f"select_autoescape by name: template {name!r} source {a!r} vs precompiled {b!r}",
                              {"case": case, "mode": mode, "async": is_async})
                break
        # several locations with overlapping names: directory names chosen so that the
        # priority order differs from the lexicographic order
        locs = []
        contents = [("zz_first", {"a": "FIRST-a{% include 'b' %}", "b": "FIRST-b"}),
                    ("mm_second", {"a": "SECOND-a", "b": "SECOND-b", "c": "SECOND-c{% include 'a' %}"}),
                    ("aa_third", {"b": "THIRD-b", "c": "THIRD-c", "d": "{% extends 'c' %}"})]
        for dn, tp in contents:
            e = jinja2.Environment(loader=jinja2.DictLoader(tp), enable_async=is_async)
            loc = base + "_" + dn + (".zip" if zipmode else "")
            e.compile_templates(loc, zip=zipmode, ignore_errors=False, log_function=lambda m: None)
            locs.append(loc)
            made.append(loc)
        importlib.invalidate_caches()
        for order in ([0, 1, 2], [2, 1, 0], [1, 0, 2]):
            paths = [locs[i] for i in order]
            ml = jinja2.Environment(loader=jinja2.ModuleLoader(paths), enable_async=is_async)
            sl = jinja2.Environment(loader=jinja2.ChoiceLoader([jinja2.DictLoader(contents[i][1]) for i in order]),
                                    enable_async=is_async)
            for name in ("a", "b", "c", "d", "nope"):
                a = util.capture(lambda: sl.get_template(name).render())
                b = util.capture(lambda: ml.get_template(name).render())
                ctx.ev()
                ctx.count("multi_location_compares")
                if not ((a.ok and b.ok and a.value == b.value) or (not a.ok and not b.ok and type(a.exc) is type(b.exc))):
                    ctx.violation(f"precompiled:{mode}:location-order",
                                  f"ModuleLoader({[os.path.basename(p) for p in paths]}) name {name!r}: first-location-wins "
                                  f"expects {a!r}, got {b!r}", {"case": case, "mode": mode, "async": is_async})
                    return
    finally:
        for p in made:
            if os.path.isdir(p):
                shutil.rmtree(p, ignore_errors=True)
            elif os.path.exists(p):
                os.remove(p)


def run(ctx):
    rng = ctx.rng("c31")
    tmp = tempfile.mkdtemp(prefix="vt_c31_")
    modes = ["dir", "deflated", "stored"]
    try:
        n = 600 if ctx.tier == "quick" else 15000
        i = 0
        while ctx.more(i, n, floor=40):
            kinds = ("inherit", "incimp", "inherit", "incimp", "stmt", "expr", "loop")
            case = corpus.gen_case(rng, kinds=kinds)
            case = rename_case(case, RENAMES[i % len(RENAMES)])
            if case["kind"] in ("inherit", "incimp"):
                ctx.count("sets_with_inheritance_or_import")
            mode = modes[i % 3]
            check_case(ctx, case, mode, is_async=(i % 4 == 3), tmp=tmp)
            ctx.dist([mode, corpus.shape(case)])
            if i < 2:
                ctx.sample({"sources": corpus.sources(case), "mode": mode})
            i += 1
    finally:
        shutil.rmtree(tmp, ignore_errors=True)


def replay(ctx, case):
    tmp = tempfile.mkdtemp(prefix="vt_c31_")
    try:
        check_case(ctx, case["case"], case["mode"], case["async"], tmp)
    finally:
        shutil.rmtree(tmp, ignore_errors=True)
