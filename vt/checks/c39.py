"""C39 — the raw token stream of Environment.lex is lossless and line-accurate.

For generated sources (C12 skeletons plus multi-line expressions / comments /
raw bodies, custom delimiters, all trim/lstrip settings) the (lineno, type,
value) triples of ``list(env.lex(src))`` must

1. concatenate to the normalised source (line breaks -> LF, one trailing
   newline dropped unless keep_trailing_newline) except that each whitespace
   span the C12 model predicts as removed may be absent (it may also still be
   present attached to a tag token: the statement does not say where stripped
   whitespace goes, only that nothing else is lost);
2. never carry predicted-removed whitespace in ``data`` tokens, and carry all
   other text: the concatenated ``data`` values equal the model's kept runs;
3. report for every non-empty token the line on which its first character
   lies in the source (1 + number of line breaks before it).

The blanks of the sources come from the whole whitespace class, not only space
and tab: form feed, vertical tab, NEL, no-break space, em space, line separator,
ideographic space ... alone or mixed (vt.gen.c39_ws); none of them is a line
break of a template source.  See ASSUMPTIONS for what is demanded there.
"""
from __future__ import annotations

import itertools

from vt.gen import c12_skel as G
from vt.gen import c39_ws as W
from vt.model import c12_trim as M

PID = "C39"
LEVEL = "exploration"
RULE = ("source = C12 skeleton (text runs over space/tab/LF/CRLF/CR/letters alternating with block, "
        "comment, variable and raw tags, every documented '-'/'+' modifier) whose tags may span "
        "lines (multi-line expressions, strings, comments, raw bodies); in every other random "
        "source (and 30% of the overlay sources) the blanks - indentation before tags, whitespace "
        "after tags and next to '-'/'+', in raw bodies and between the words inside tags - are "
        "drawn from 12 further Unicode White_Space characters (FF, VT, NEL, NBSP, em/hair/narrow/"
        "medium-math/ogham/ideographic space, LS, PS), alone or mixed with spaces/tabs, plus ZERO "
        "WIDTH SPACE as a blank-looking text character; built with one of 4 "
        "delimiter sets, lexed under all 4 trim_blocks/lstrip_blocks settings (and "
        "keep_trailing_newline on/off); plus line-statement/line-comment sources without "
        "modifiers (there, additionally, no data token may contain the '#' of a line statement / "
        "line comment: the generated text lines have none). Overlays: a fresh base environment "
        "with random lexer options, optionally used first (lex / from_string / parse), then "
        "base.overlay(<only the options that differ>) [optionally a second overlay on top]; "
        "every environment of the chain lexes a source written for ITS OWN delimiters and is "
        "checked against the model run with ITS OWN trim_blocks/lstrip_blocks/"
        "keep_trailing_newline/line prefixes, the base again after the overlay exists. "
        "Exhaustive: all tag sequences of <=2 tags x modifiers x settings over fixed "
        "run sets, once with space/tab runs and once with runs of the other whitespace "
        "characters (alone at the source start / after a line break, mixed with spaces, after "
        "text, before and after the line break following a tag); then random 1-8 tag sources. "
        "One evaluation = one env.lex call checked for "
        "losslessness, data-token content and the line of every token. distinct = distinct "
        "(delimiter set, settings, left/right neighbour kind+modifier, run class, number of "
        "line breaks stripped before the next token) gap contexts + distinct (delimiter set, "
        "token type, starts-after-stripped-newline, inside-multi-line-tag) token contexts")
TECHNIQUE = "token-stream alignment against the normalised source with model-predicted optional gaps; per-token line oracle"
LEVEL_TEXT = ("held on K lexed sources covering every modifier/setting combination for <=2 tags "
              "(space/tab runs and runs of other Unicode whitespace), random sources up to 8 tags "
              "with multi-line tags, 4 delimiter sets and line statements; says nothing about "
              "sources that do not lex (syntax errors), about non-space/tab whitespace in "
              "line-statement sources, or about characters Python but not Unicode calls "
              "whitespace (U+001C-U+001F)")
ASSUMPTIONS = [
    "whitespace class. The docs never define 'whitespace': the Whitespace Control section speaks "
    "of 'other whitespace (spaces, tabs, newlines etc.)', says of '-' that 'the whitespaces before "
    "or after that block will be removed' (no restriction), and of lstrip_blocks 'strip tabs and "
    "spaces from the beginning of a line to the start of a block' (api.rst: 'leading spaces and "
    "tabs'); the property statements (C12/C39) use the one word 'whitespace' for every rule: '-' "
    "'removes all adjacent whitespace', lstrip_blocks 'removes the whitespace between the start "
    "of a line and a block or comment tag when nothing else precedes the tag on that line'. "
    "Decision: (a) '-' removes every character with the Unicode White_Space property (the "
    "engine-independent definition of 'whitespace'; the docs put no restriction on '-'); (b) for "
    "lstrip_blocks the check demands ONE whitespace class in all rules, as the property "
    "statement words it: a line start that consists only of characters which a '-' on that tag "
    "would remove as whitespace has 'nothing else' before the tag, so lstrip_blocks removes it "
    "exactly as it removes spaces and tabs, for all four tag kinds alike, and '+' keeps it; a "
    "blank-looking non-whitespace character (ZERO WIDTH SPACE) is text and blocks the stripping. "
    "The enumeration 'tabs and spaces' of the lstrip_blocks docs is read as naming the usual "
    "indentation characters, not as a second, narrower whitespace class: read literally ('other "
    "characters' = anything but U+0020/U+0009) it would make a form-feed- or NBSP-indented tag "
    "keep its indentation while '{%-' on the same tag removes it, and the unchanged engine "
    "(any \\s) would then contradict its documentation. That wording gap is reported as a "
    "documentation remark, not as a violation: the property statement says 'the whitespace'. "
    "Violation keys for runs holding such characters end in ':non-space-tab-ws'",
    "template line breaks are LF, CRLF, CR only (Lexer.tokeniter: 'Only \\n, \\r\\n and \\r are "
    "treated as line breaks'): FF, VT, NEL, LS, PS are whitespace but neither start a line for "
    "lstrip_blocks, nor count for line numbers, nor are the 'first newline' of trim_blocks",
    "which whitespace characters may separate the words INSIDE a tag is not documented: a "
    "source with non-space/tab whitespace inside a block/variable/raw tag that the lexer rejects "
    "with TemplateSyntaxError is skipped (counter exotic_inner_rejected; floors on "
    "exotic_inner_lexed:* make a run in which none lexes INCONCLUSIVE); when it lexes, the "
    "three oracles apply",
    "whitespace removed by '-'/trim_blocks/lstrip_blocks may either be absent from the stream or "
    "stay attached to a non-data token; only data tokens are required to be free of it",
    "token values are compared after normalising their line breaks to LF",
    "empty tokens have no start character, so their line number is not checked",
    "line statements: only losslessness, line numbers and 'no # in data tokens' are checked (no "
    "trimming prediction)",
    "an overlay's own options are the ones handed to overlay() plus, for everything not handed "
    "in, those of the environment it was made from (docs/api.rst Environment.overlay)",
]
NSHARDS = {"quick": 16, "thorough": 16}
BUDGET_S = {"quick": 15, "thorough": 420}
FLOORS = {
    "quick": {"evaluations": 45000, "distinct": 8000,
              "counters": {"lex_calls": 45000, "tokens_line_checked": 500000,
                           "oracle_lossless": 45000, "oracle_data": 42000,
                           "tokens_after_stripped_newline": 300000,
                           "tokens_in_multiline_tag": 30000,
                           "cases_exhaustive": 35000, "cases_random": 7000,
                           "cases_custom_delims": 3000, "cases_linestmt": 2000,
                           "overlay_lex_checks": 1500, "overlay_after_base_used": 500,
                           "overlay_before_base_used": 200, "overlay_base_rechecks": 700,
                           "overlay_linestmt_checks": 100,
                           "cases_exotic": 10000, "cases_exotic_exhaustive": 12000,
                           "cases_exotic_random": 3500,
                           "exotic_removed_by_lstrip:block": 1000,
                           "exotic_removed_by_lstrip:comment": 500,
                           "exotic_removed_by_lstrip:raw_open": 200,
                           "exotic_removed_by_lstrip:raw_close": 90,
                           "exotic_removed_by_lstrip_mixed_with_blanks": 600,
                           "exotic_kept_by_plus": 1100,
                           "exotic_removed_by_minus_left": 4000,
                           "exotic_removed_by_minus_right": 4500,
                           "exotic_between_tag_and_newline": 1900,
                           "exotic_after_trimmed_newline": 1000,
                           "exotic_in_raw_body": 1900, "exotic_kept_in_data": 20000,
                           "exotic_inner_lexed:block": 2300, "exotic_inner_lexed:var": 1200,
                           "exotic_inner_lexed:raw_open": 600,
                           "exotic_inner_lexed:raw_close": 600,
                           "zero_width_space_runs": 1000}},
    "thorough": {"evaluations": 700000, "distinct": 20000,
                 "counters": {"lex_calls": 700000, "tokens_line_checked": 15000000,
                              "oracle_lossless": 700000, "oracle_data": 680000,
                              "tokens_after_stripped_newline": 6000000,
                              "tokens_in_multiline_tag": 3000000,
                              "cases_exhaustive": 220000, "cases_random": 450000,
                              "cases_custom_delims": 250000, "cases_linestmt": 60000,
                              "overlay_lex_checks": 15000, "overlay_after_base_used": 5000,
                              "overlay_before_base_used": 2000, "overlay_base_rechecks": 7000,
                              "overlay_linestmt_checks": 1000,
                              "cases_exotic": 100000, "cases_exotic_exhaustive": 12000,
                              "cases_exotic_random": 100000,
                              "exotic_removed_by_lstrip:block": 12000,
                              "exotic_removed_by_lstrip:comment": 4500,
                              "exotic_removed_by_lstrip:raw_open": 3500,
                              "exotic_removed_by_lstrip:raw_close": 1500,
                              "exotic_removed_by_lstrip_mixed_with_blanks": 7000,
                              "exotic_kept_by_plus": 7500,
                              "exotic_removed_by_minus_left": 40000,
                              "exotic_removed_by_minus_right": 40000,
                              "exotic_between_tag_and_newline": 38000,
                              "exotic_after_trimmed_newline": 12000,
                              "exotic_in_raw_body": 30000, "exotic_kept_in_data": 250000,
                              "exotic_inner_lexed:block": 45000,
                              "exotic_inner_lexed:var": 24000,
                              "exotic_inner_lexed:raw_open": 11000,
                              "exotic_inner_lexed:raw_close": 11000,
                              "zero_width_space_runs": 19000}},
}

SETTINGS = [(False, False), (False, True), (True, False), (True, True)]
MAX_RECORDED = 150


class State:
    def __init__(self, ctx):
        from jinja2 import Environment

        self.ctx = ctx
        self.Environment = Environment
        self.envs = {}
        self.seen = set()
        self.recorded = 0

    def env(self, dname, tb, ls, keep=False, line=False):
        k = (dname, tb, ls, keep, line)
        e = self.envs.get(k)
        if e is None:
            d = G.DELIMS[dname]
            kw = {}
            if line:
                kw = {"line_statement_prefix": "#", "line_comment_prefix": "##"}
            e = self.envs[k] = self.Environment(
                block_start_string=d["bs"], block_end_string=d["be"],
                variable_start_string=d["vs"], variable_end_string=d["ve"],
                comment_start_string=d["cs"], comment_end_string=d["ce"],
                trim_blocks=tb, lstrip_blocks=ls, keep_trailing_newline=keep, **kw)
        return e

    def record(self, key, what, case):
        if self.recorded < MAX_RECORDED:
            self.recorded += 1
            self.ctx.violation(key, what, case)
        else:
            self.ctx.count("violations_not_recorded")


def align(norm, spans, toks, want_lines):
    """Lay the token values onto `norm`.  `spans` are the optional gaps: each
    may be skipped as a whole at a token boundary.  Returns (starts, None) for
    a complete alignment, or (None, (token index, position)) describing the
    furthest point reached.  With want_lines, a non-empty token must also carry
    the line of its start offset."""
    span_at = {}
    for s, e in spans:
        if e > s:
            span_at[s] = e
    n = len(toks)
    N = len(norm)
    dead = set()
    best = [0, 0]
    starts = [0] * n

    def positions(pos):
        out = [pos]
        while pos in span_at:
            pos = span_at[pos]
            out.append(pos)
        return out

    def rec(ti, pos):
        if (ti, pos) in dead:
            return False
        if ti > best[0] or (ti == best[0] and pos > best[1]):
            best[0], best[1] = ti, pos
        if ti == n:
            if N in positions(pos):
                return True
            dead.add((ti, pos))
            return False
        lineno, _, v = toks[ti]
        for q in positions(pos):
            if v == "":
                starts[ti] = q
                if rec(ti + 1, q):
                    return True
                continue
            if norm.startswith(v, q):
                if want_lines and lineno != 1 + norm.count("\n", 0, q):
                    continue
                starts[ti] = q
                if rec(ti + 1, q + len(v)):
                    return True
        dead.add((ti, pos))
        return False

    if rec(0, 0):
        return list(starts), None
    return None, (best[0], best[1])


def check_tokens(st, p, toks, case, dname, tb, ls, optional_spans=None, check_data=True):
    """The three oracles on one token list.  Returns True when all hold."""
    ctx = st.ctx
    norm = p.norm if hasattr(p, "norm") else p["norm"]
    spans = optional_spans if optional_spans is not None else p.removed_spans()
    toks = [(ln, ty, M.norm_nl(v)) for ln, ty, v in toks]
    ok = True
    ctx.count("oracle_lossless")
    starts, fail = align(norm, spans, toks, want_lines=True)
    if starts is None:
        ok = False
        starts2, fail2 = align(norm, spans, toks, want_lines=False)
        if starts2 is None:
            ti, pos = fail2
            ty = toks[ti][1] if ti < len(toks) else "end-of-stream"
            st.record(
                f"lossless:{dname}:tb={int(tb)},ls={int(ls)}:at-{ty}",
                f"token values do not reproduce the source: source {case['source']!r} "
                f"normalised {norm!r}, predicted removable spans {spans}, tokens {toks}; stuck at "
                f"token #{ti} ({ty}) source offset {pos}", case)
        else:
            # content is fine, some line number is not
            removed_nl = [(s, e) for s, e in spans if "\n" in norm[s:e]]
            for (ln, ty, v), q in zip(toks, starts2):
                if v == "":
                    continue
                exp = 1 + norm.count("\n", 0, q)
                if ln != exp:
                    after = any(e <= q for s, e in removed_nl)
                    st.record(
                        f"lineno:{dname}:{ty}:{'too-low' if ln < exp else 'too-high'}:"
                        f"{'after-stripped-newlines' if after else 'no-stripped-newlines-before'}",
                        f"token ({ln}, {ty!r}, {v!r}) starts at offset {q} = line {exp} of source "
                        f"{case['source']!r} (trim_blocks={tb} lstrip_blocks={ls}); tokens {toks}",
                        case)
                    break
        starts = starts2
    # oracle 2: data tokens == kept runs
    if check_data:
        ctx.count("oracle_data")
        got = "".join(v for _, ty, v in toks if ty == "data")
        exp = "".join(p.runs)
        if got != exp:
            ok = False
            key, g = M.divergence_key(p, exp, got, tb, ls, with_var_out=False)
            if M.has_exotic(g["run"]):
                # the diverging run holds whitespace other than space/tab/line breaks
                key += ":non-space-tab-ws"
            st.record(
                f"data-whitespace:{dname}:{key}",
                f"source {case['source']!r} trim_blocks={tb} lstrip_blocks={ls}: data tokens "
                f"carry {got!r}, documented rules keep {exp!r} (first divergence in the run "
                f"{g['run']!r} between {M.tagname(g['A'], 'start')} and {M.tagname(g['B'], 'end')})", case)
    # coverage of the line oracle
    if starts is not None:
        nchk = 0
        removed_nl_ends = sorted(e for s, e in spans if "\n" in norm[s:e])
        tags_ml = []
        if hasattr(p, "pieces"):
            tags_ml = [(pc["start"], pc["end"]) for pc in p.pieces
                       if pc["type"] == "tag" and "\n" in norm[pc["start"]:pc["end"]]]
        for (ln, ty, v), q in zip(toks, starts):
            if v == "":
                continue
            nchk += 1
            after = bool(removed_nl_ends) and removed_nl_ends[0] <= q
            inml = any(s < q < e for s, e in tags_ml)
            if after:
                ctx.count("tokens_after_stripped_newline")
            if inml:
                ctx.count("tokens_in_multiline_tag")
            k = ("tok", dname, ty, after, inml)
            if k not in st.seen:
                st.seen.add(k)
                ctx.dist(k)
        ctx.count("tokens_line_checked", nchk)
        ctx.count("tokens_seen", len(toks))
    return ok


def check_case(st, skel, dname, tb, ls, keep=False, part="random", env=None, label=None,
               extra=None):
    """`env`/`label`: lex through this environment (an overlay chain member built by
    the caller with exactly these options) instead of a plain one; `label` then
    replaces the delimiter-set name in keys."""
    ctx = st.ctx
    d = G.DELIMS[dname]
    p = M.predict(skel, tb, ls, keep, "\n", d)
    case = {"kind": "skel", "skel": skel, "delims": dname, "tb": tb, "ls": ls, "keep": keep,
            "source": p.source}
    if extra:
        case.update(extra)
    label = label or dname
    ctx.ev()
    ctx.count("lex_calls")
    exotic = M.has_exotic(p.norm)
    inner_x = W.inner_exotic_kinds(skel) if exotic else []
    try:
        toks = list((env or st.env(dname, tb, ls, keep)).lex(p.source))
    except Exception as e:
        if inner_x and type(e).__name__ == "TemplateSyntaxError":
            # the docs do not say which whitespace characters may separate the words
            # inside a tag: a source the lexer rejects is outside this property
            ctx.count("exotic_inner_rejected")
            return True
        st.record(f"lex-raises:{label}:{type(e).__name__}",
                  f"{type(e).__name__}: {e} for source {p.source!r}", case)
        return False
    if exotic:
        exotic_coverage(ctx, p, inner_x, part)
    # gap coverage
    for g in p.gaps:
        if g["rl"] or g["rr"]:
            k = ("gap", label, tb, ls, g["A"], g["B"], M.run_class(g["run"], g["A"] is None),
                 min(g["run"].count("\n") - g["kept"].count("\n"), 3))
            if k not in st.seen:
                st.seen.add(k)
                ctx.dist(k)
    if dname != "default":
        ctx.count("cases_custom_delims")
    return check_tokens(st, p, toks, case, label, tb, ls)


def exotic_coverage(ctx, p, inner_x, part):
    """Monitor counters of the widened whitespace alphabet: which rules met whitespace
    other than space/tab/line breaks in this (successfully lexed) source."""
    ctx.count("cases_exotic")
    ctx.count("cases_exotic_" + ("exhaustive" if part == "exotic-exhaustive" else "random"))
    for k in inner_x:
        ctx.count("exotic_inner_lexed:" + k)
    for g in p.gaps:
        run = g["run"]
        if not M.has_exotic(run):
            continue
        left, right = run[:g["a"]], run[g["b"]:]
        if g["rr"] == "lstrip_blocks" and M.has_exotic(right):
            ctx.count("exotic_removed_by_lstrip:" + g["B"][0])
            if right.strip("".join(M.EXOTIC)) != "":
                ctx.count("exotic_removed_by_lstrip_mixed_with_blanks")
        if g["rr"] == "plus-cancels-lstrip" and M.has_exotic(run[run.rfind("\n") + 1:]):
            ctx.count("exotic_kept_by_plus")
        if g["rr"] == "minus" and M.has_exotic(right):
            ctx.count("exotic_removed_by_minus_left")
        if g["rl"] == "minus" and M.has_exotic(left):
            ctx.count("exotic_removed_by_minus_right")
        if g["rl"] is None and g["A"] is not None and g["A"][0] in M.TRIM_AFTER \
                and run[:1] in M.EXOTIC and "\n" in run:
            ctx.count("exotic_between_tag_and_newline")
        if g["rl"] == "trim_blocks" and M.has_exotic(g["kept"]):
            ctx.count("exotic_after_trimmed_newline")
        if M.has_exotic(g["kept"]):
            ctx.count("exotic_kept_in_data")
        if g["raw_body"]:
            ctx.count("exotic_in_raw_body")
        if W.ZWSP in run:
            ctx.count("zero_width_space_runs")


# ----------------------------------------------------------- line statements
_LS_LINES = ["text", "  more text", "", "   ", "# for x in y", "  # endfor", "\t# if a:", "# endif",
             "#set z = [1,", "      2]", "a ## note", "  ## whole line note", "{{ v }} tail",
             "{% if q %}", "{% endif %}", "{# c #}x", "# for k in {'a':", "  1}", "<li>{{ x }}</li>"]


def linestmt_source(rng):
    n = rng.randint(1, 8)
    lines = []
    i = 0
    while i < n:
        ln = rng.choice(_LS_LINES)
        lines.append(ln)
        # keep bracket continuations together
        if ln.endswith("[1,"):
            lines.append("      2]")
        elif ln.endswith("{'a':"):
            lines.append("  1}")
        i += 1
    # drop stray continuation lines that would be unbalanced brackets in text (harmless as
    # text, but keep sources tidy)
    seps = [rng.choice(("\n", "\n", "\r\n", "\r")) for _ in lines]
    src = "".join(a + b for a, b in zip(lines, seps))
    if rng.random() < 0.3:
        src = src[:-len(seps[-1])]
    return src


def check_linestmt(st, src, keep, env=None, label="linestmt", extra=None):
    ctx = st.ctx
    ctx.ev()
    ctx.count("lex_calls")
    ctx.count("cases_linestmt")
    case = {"kind": "linestmt", "source": src, "keep": keep}
    if extra:
        case.update(extra)
    norm = M.norm_nl(src)
    if not keep and norm.endswith("\n"):
        norm = norm[:-1]
    try:
        toks = list((env or st.env("default", False, False, keep, line=True)).lex(src))
    except Exception as e:
        st.record(f"lex-raises:{label}:{type(e).__name__}",
                  f"{type(e).__name__}: {e} for source {src!r}", case)
        return False
    # "they strip leading whitespace automatically up to the beginning of the line": the
    # blanks before a line-statement / line-comment prefix may be absent from the stream
    spans = []
    off = 0
    for line in norm.split("\n"):
        body = line.lstrip(" \t")
        if body.startswith("#") and len(body) < len(line):
            spans.append((off, off + len(line) - len(body)))
        j = line.find("##")
        if j > 0:
            k = j
            while k > 0 and line[k - 1] in " \t":
                k -= 1
            if k < j and (off + k, off + j) not in spans and k > 0:
                spans.append((off + k, off + j))
        off += len(line) + 1
    ok = check_tokens(st, {"norm": norm}, toks, case, label, False, False,
                      optional_spans=sorted(spans), check_data=False)
    # the generated text lines contain no '#': every '#' of the source belongs to a line
    # statement, a line comment or a {# #} comment, none of which is template data
    ctx.count("oracle_linestmt_data")
    bad = [t for t in toks if t[1] == "data" and "#" in t[2]]
    if bad:
        ok = False
        st.record(f"linestmt-in-data:{label}",
                  f"source {src!r} lexed with line_statement_prefix='#', line_comment_prefix='##': "
                  f"data token {bad[0]!r} carries a line statement / line comment", case)
    return ok


# ------------------------------------------------------------------ overlays
def _opts_kw(o):
    d = G.DELIMS[o["dname"]]
    return {"block_start_string": d["bs"], "block_end_string": d["be"],
            "variable_start_string": d["vs"], "variable_end_string": d["ve"],
            "comment_start_string": d["cs"], "comment_end_string": d["ce"],
            "trim_blocks": o["tb"], "lstrip_blocks": o["ls"], "keep_trailing_newline": o["keep"],
            "line_statement_prefix": "#" if o["line"] else None,
            "line_comment_prefix": "##" if o["line"] else None}


def _rand_opts(rng, base=None):
    """Lexer options; with `base`, options differing from it in >= 1 dimension."""
    while True:
        o = {"dname": rng.choice(("default", "default", "angle", "html", "square")),
             "tb": rng.random() < 0.5, "ls": rng.random() < 0.5, "keep": rng.random() < 0.4,
             "line": False}
        if base is not None:
            # change a few dimensions only, keep the rest inherited
            o2 = dict(base)
            for k in rng.sample(("dname", "tb", "ls", "keep"), rng.choice((1, 1, 2, 3))):
                o2[k] = o[k] if k == "dname" else (not base[k])
            if rng.random() < 0.12 and o2["dname"] == "default":
                o2["line"] = not base["line"]
            o = o2
        elif rng.random() < 0.1 and o["dname"] == "default":
            o["line"] = True
        if o["line"]:
            # the line-statement sources are written in the default delimiters and their
            # oracle has no trimming prediction
            if o["dname"] != "default":
                o["line"] = False
            else:
                o["tb"] = o["ls"] = False
        if o == base:
            continue
        return o


def gen_overlay_case(rng):
    base = _rand_opts(rng)
    chain = [base, _rand_opts(rng, base)]
    if rng.random() < 0.25:
        chain.append(_rand_opts(rng, chain[-1]))
    srcs = []
    for o in chain:
        if o["line"]:
            srcs.append({"linestmt": linestmt_source(rng)})
        else:
            nt = rng.choice((1, 2, 3, 4, 5))
            skel = G.random_skeleton(rng, nt, lex=True, delims=o["dname"])
            if rng.random() < 0.3:
                skel = W.exoticize(rng, skel)
            srcs.append({"skel": skel})
    return {"kind": "overlay", "chain": chain, "srcs": srcs,
            "use": rng.choice(("no", "lex", "from_string", "parse", "lex")),
            "explicit": rng.random() < 0.2}


def check_overlay(st, oc):
    """Every environment of an overlay chain lexes by its own options."""
    ctx = st.ctx
    chain, srcs, use = oc["chain"], oc["srcs"], oc["use"]
    envs = [st.Environment(**_opts_kw(chain[0]))]
    d0 = G.DELIMS[chain[0]["dname"]]
    if use == "lex":
        list(envs[0].lex("a " + d0["vs"] + " x " + d0["ve"] + "\n"))
    elif use == "from_string":
        envs[0].from_string("a " + d0["vs"] + " 1 " + d0["ve"] + "\n").render()
    elif use == "parse":
        envs[0].parse(d0["bs"] + " if x " + d0["be"] + "y" + d0["bs"] + " endif " + d0["be"])
    ctx.count("overlay_after_base_used" if use != "no" else "overlay_before_base_used")
    for prev, cur in zip(chain, chain[1:]):
        kw_prev, kw = _opts_kw(prev), _opts_kw(cur)
        if not oc["explicit"]:
            kw = {k: v for k, v in kw.items() if v != kw_prev[k]}
        envs.append(envs[-1].overlay(**kw))
    # the overlays first (innermost last), then every parent again
    order = list(range(1, len(chain))) + list(range(len(chain) - 2, -1, -1))
    ok = True
    for i in order:
        o, env = chain[i], envs[i]
        diff = sorted(k for k in o if i and o[k] != chain[i - 1][k]) if i else []
        role = "overlay" if i else "base-after-overlay"
        when = "after-base-used" if use != "no" else "before-base-used"
        label = f"{role}({when}):{o['dname']}"
        extra = {"overlay_case": oc, "member": i, "changed": diff}
        ctx.count("overlay_lex_checks" if i else "overlay_base_rechecks")
        if o["line"]:
            ctx.count("overlay_linestmt_checks")
            r = check_linestmt(st, srcs[i]["linestmt"], o["keep"], env=env,
                               label=f"{role}({when}):linestmt", extra=extra)
        else:
            r = check_case(st, srcs[i]["skel"], o["dname"], o["tb"], o["ls"], o["keep"],
                           env=env, label=label, extra=extra)
        ok = ok and r
        k = ("overlay", role, when, tuple(diff), o["dname"], o["tb"], o["ls"], o["keep"], o["line"])
        if k not in st.seen:
            st.seen.add(k)
            ctx.dist(k)
    return ok


def mod_products(seq):
    return itertools.product(*[M.mod_choices(t) for t in seq])


def run(ctx):
    st = State(ctx)
    quick = ctx.tier == "quick"
    idx = 0
    complete = True

    # ---- exhaustive: <=2 tags, all modifiers x settings, default delimiters
    T1 = G.T1_QUICK if quick else G.T1
    for seq in M.tag_sequences(1):
        for mods in mod_products(seq):
            for texts in itertools.product(T1, repeat=2):
                idx += 1
                if not ctx.mine(idx):
                    continue
                skel = G.skeleton_from(seq, mods, texts)
                for tb, ls in SETTINGS:
                    check_case(st, skel, "default", tb, ls)
                    ctx.count("cases_exhaustive")
    T2 = ["\n ", " \n\n "] if quick else G.T2_THOROUGH + ["\n\n"]
    t2_all = list(itertools.product(T2, repeat=3))
    rng = ctx.rng("n2")
    for seq in M.tag_sequences(2):
        for mods in mod_products(seq):
            idx += 1
            if not ctx.mine(idx):
                continue
            if not quick and ctx.elapsed() > ctx.budget_s * 0.5:
                complete = False
                ctx.count("exhaustive_n2_cut")
                break
            tl = t2_all + [tuple(rng.choice(G.T1) for _ in range(3)) for _ in range(2)]
            for texts in tl:
                skel = G.skeleton_from(seq, mods, texts)
                for tb, ls in SETTINGS:
                    check_case(st, skel, "default", tb, ls)
            ctx.count("cases_exhaustive", len(tl) * 4)
        if not complete:
            break
    ctx.exhaustive = complete
    ctx.extra["exhaustive_max_tags"] = "2"
    if ctx.shard == 0:
        ctx.sample({"part": "exhaustive", "source": M.build(G.skeleton_from(
            ("cmt", "var"), (("", "+"), ("-", "")), ("a", "\n\n ", "\n")))})

    # ---- exhaustive, whitespace other than space/tab: <=2 tags, all modifiers x settings
    for seq in M.tag_sequences(1):
        for mods in mod_products(seq):
            for texts in itertools.product(W.T1X, repeat=2):
                idx += 1
                if not ctx.mine(idx):
                    continue
                skel = G.skeleton_from(seq, mods, texts)
                for tb, ls in SETTINGS:
                    check_case(st, skel, "default", tb, ls, part="exotic-exhaustive")
    t2x_all = W.T2X_TRIPLES
    for seq in M.tag_sequences(2):
        for mods in mod_products(seq):
            idx += 1
            if not ctx.mine(idx):
                continue
            if ctx.elapsed() > ctx.budget_s * 0.6:
                ctx.exhaustive = False
                ctx.count("exhaustive_exotic_n2_cut")
                break
            for texts in t2x_all:
                skel = G.skeleton_from(seq, mods, texts)
                for tb, ls in SETTINGS:
                    check_case(st, skel, "default", tb, ls, part="exotic-exhaustive")
    if ctx.shard == 0:
        ctx.sample({"part": "exotic-exhaustive", "source": M.build(G.skeleton_from(
            ("cmt", "set"), (("", ""), ("", "-")), ("\n\x0c", " \xa0", "\n\x0c")))})

    # ---- line statements / line comments
    rng = ctx.rng("linestmt")
    for i in range(150 if quick else 4000):
        src = linestmt_source(rng)
        check_linestmt(st, src, keep=rng.random() < 0.3)
        if i == 0 and ctx.shard == 0:
            ctx.sample({"part": "linestmt", "source": src})

    # ---- overlay chains: each member lexes by its own options
    rng = ctx.rng("overlay")
    for i in range(260 if quick else 6000):
        oc = gen_overlay_case(rng)
        check_overlay(st, oc)
        if i == 0 and ctx.shard == 0:
            ctx.sample({"part": "overlay", "chain": oc["chain"], "use": oc["use"]})
        if not quick and ctx.elapsed() > ctx.budget_s * 0.75:
            break

    # ---- random multi-line sources, all delimiter sets, all settings
    rng = ctx.rng("random")
    dnames = ["default", "default", "angle", "html", "square"]
    n_max = 5000 if quick else 120000
    i = 0
    while ctx.more(i, n_max, floor=120):
        i += 1
        dname = rng.choice(dnames)
        nt = rng.choice((1, 2, 3, 4, 4, 5, 6, 8))
        skel = G.random_skeleton(rng, nt, lex=True, delims=dname)
        if i % 2 == 0:
            # every other source: blanks from the whole whitespace class
            skel = W.exoticize(rng, skel)
        keep = rng.random() < 0.25
        for tb, ls in SETTINGS:
            check_case(st, skel, dname, tb, ls, keep)
            ctx.count("cases_random")
        if i <= 2 and ctx.shard == 0:
            ctx.sample({"part": "random", "delims": dname,
                        "source": M.build(skel, G.DELIMS[dname]), "keep_trailing_newline": keep})


def replay(ctx, case):
    st = State(ctx)
    if case.get("overlay_case"):
        check_overlay(st, case["overlay_case"])
    elif case.get("kind") == "linestmt":
        check_linestmt(st, case["source"], case.get("keep", False))
    else:
        check_case(st, case["skel"], case["delims"], case["tb"], case["ls"],
                   case.get("keep", False))
