"""C39 — the raw token stream of Environment.lex is lossless and line-accurate.

For generated sources (C12 skeletons plus multi-line expressions / comments /
raw bodies, custom delimiters, all trim/lstrip settings) the (lineno, type,
value) triples of ``list(env.lex(src))`` must

1. concatenate to the normalised source (line breaks -> LF, one trailing
   newline dropped unless keep_trailing_newline) except that each whitespace
   span the C12 model predicts as removed may be absent (it may also still be
   present attached to a tag token: the statement does not say where stripped
   whitespace goes, only that nothing else is lost);
2. never carry predicted-removed whitespace in ``data`` tokens, and carry all
   other text: the concatenated ``data`` values equal the model's kept runs;
3. report for every non-empty token the line on which its first character
   lies in the source (1 + number of line breaks before it).
"""
from __future__ import annotations

import itertools

from vt.gen import c12_skel as G
from vt.model import c12_trim as M

PID = "C39"
LEVEL = "exploration"
RULE = ("source = C12 skeleton (text runs over space/tab/LF/CRLF/CR/letters alternating with block, "
        "comment, variable and raw tags, every documented '-'/'+' modifier) whose tags may span "
        "lines (multi-line expressions, strings, comments, raw bodies), built with one of 4 "
        "delimiter sets, lexed under all 4 trim_blocks/lstrip_blocks settings (and "
        "keep_trailing_newline on/off); plus line-statement/line-comment sources without "
        "modifiers. Exhaustive: all tag sequences of <=2 tags x modifiers x settings over fixed "
        "run sets; then random 1-8 tag sources. One evaluation = one env.lex call checked for "
        "losslessness, data-token content and the line of every token. distinct = distinct "
        "(delimiter set, settings, left/right neighbour kind+modifier, run class, number of "
        "line breaks stripped before the next token) gap contexts + distinct (delimiter set, "
        "token type, starts-after-stripped-newline, inside-multi-line-tag) token contexts")
TECHNIQUE = "token-stream alignment against the normalised source with model-predicted optional gaps; per-token line oracle"
LEVEL_TEXT = ("held on K lexed sources covering every modifier/setting combination for <=2 tags, "
              "random sources up to 8 tags with multi-line tags, 4 delimiter sets and line "
              "statements; says nothing about sources that do not lex (syntax errors)")
ASSUMPTIONS = [
    "whitespace removed by '-'/trim_blocks/lstrip_blocks may either be absent from the stream or "
    "stay attached to a non-data token; only data tokens are required to be free of it",
    "token values are compared after normalising their line breaks to LF",
    "empty tokens have no start character, so their line number is not checked",
    "line statements: only losslessness and line numbers are checked (no trimming prediction)",
]
NSHARDS = {"quick": 16, "thorough": 16}
BUDGET_S = {"quick": 15, "thorough": 420}
FLOORS = {
    "quick": {"evaluations": 45000, "distinct": 8000,
              "counters": {"lex_calls": 45000, "tokens_line_checked": 500000,
                           "oracle_lossless": 45000, "oracle_data": 42000,
                           "tokens_after_stripped_newline": 300000,
                           "tokens_in_multiline_tag": 30000,
                           "cases_exhaustive": 35000, "cases_random": 7000,
                           "cases_custom_delims": 3000, "cases_linestmt": 2000}},
    "thorough": {"evaluations": 700000, "distinct": 20000,
                 "counters": {"lex_calls": 700000, "tokens_line_checked": 15000000,
                              "oracle_lossless": 700000, "oracle_data": 680000,
                              "tokens_after_stripped_newline": 6000000,
                              "tokens_in_multiline_tag": 3000000,
                              "cases_exhaustive": 220000, "cases_random": 450000,
                              "cases_custom_delims": 250000, "cases_linestmt": 60000}},
}

SETTINGS = [(False, False), (False, True), (True, False), (True, True)]
MAX_RECORDED = 150


class State:
    def __init__(self, ctx):
        from jinja2 import Environment

        self.ctx = ctx
        self.Environment = Environment
        self.envs = {}
        self.seen = set()
        self.recorded = 0

    def env(self, dname, tb, ls, keep=False, line=False):
        k = (dname, tb, ls, keep, line)
        e = self.envs.get(k)
        if e is None:
            d = G.DELIMS[dname]
            kw = {}
            if line:
                kw = {"line_statement_prefix": "#", "line_comment_prefix": "##"}
            e = self.envs[k] = self.Environment(
                block_start_string=d["bs"], block_end_string=d["be"],
                variable_start_string=d["vs"], variable_end_string=d["ve"],
                comment_start_string=d["cs"], comment_end_string=d["ce"],
                trim_blocks=tb, lstrip_blocks=ls, keep_trailing_newline=keep, **kw)
        return e

    def record(self, key, what, case):
        if self.recorded < MAX_RECORDED:
            self.recorded += 1
            self.ctx.violation(key, what, case)
        else:
            self.ctx.count("violations_not_recorded")


def align(norm, spans, toks, want_lines):
    """Lay the token values onto `norm`.  `spans` are the optional gaps: each
    may be skipped as a whole at a token boundary.  Returns (starts, None) for
    a complete alignment, or (None, (token index, position)) describing the
    furthest point reached.  With want_lines, a non-empty token must also carry
    the line of its start offset."""
    span_at = {}
    for s, e in spans:
        if e > s:
            span_at[s] = e
    n = len(toks)
    N = len(norm)
    dead = set()
    best = [0, 0]
    starts = [0] * n

    def positions(pos):
        out = [pos]
        while pos in span_at:
            pos = span_at[pos]
            out.append(pos)
        return out

    def rec(ti, pos):
        if (ti, pos) in dead:
            return False
        if ti > best[0] or (ti == best[0] and pos > best[1]):
            best[0], best[1] = ti, pos
        if ti == n:
            if N in positions(pos):
                return True
            dead.add((ti, pos))
            return False
        lineno, _, v = toks[ti]
        for q in positions(pos):
            if v == "":
                starts[ti] = q
                if rec(ti + 1, q):
                    return True
                continue
            if norm.startswith(v, q):
                if want_lines and lineno != 1 + norm.count("\n", 0, q):
                    continue
                starts[ti] = q
                if rec(ti + 1, q + len(v)):
                    return True
        dead.add((ti, pos))
        return False

    if rec(0, 0):
        return list(starts), None
    return None, (best[0], best[1])


def check_tokens(st, p, toks, case, dname, tb, ls, optional_spans=None, check_data=True):
    """The three oracles on one token list.  Returns True when all hold."""
    ctx = st.ctx
    norm = p.norm if hasattr(p, "norm") else p["norm"]
    spans = optional_spans if optional_spans is not None else p.removed_spans()
    toks = [(ln, ty, M.norm_nl(v)) for ln, ty, v in toks]
    ok = True
    ctx.count("oracle_lossless")
    starts, fail = align(norm, spans, toks, want_lines=True)
    if starts is None:
        ok = False
        starts2, fail2 = align(norm, spans, toks, want_lines=False)
        if starts2 is None:
            ti, pos = fail2
            ty = toks[ti][1] if ti < len(toks) else "end-of-stream"
            st.record(
                f"lossless:{dname}:tb={int(tb)},ls={int(ls)}:at-{ty}",
                f"token values do not reproduce the source: source {case['source']!r} "
                f"normalised {norm!r}, predicted removable spans {spans}, tokens {toks}; stuck at "
                f"token #{ti} ({ty}) source offset {pos}", case)
        else:
            # content is fine, some line number is not
            removed_nl = [(s, e) for s, e in spans if "\n" in norm[s:e]]
            for (ln, ty, v), q in zip(toks, starts2):
                if v == "":
                    continue
                exp = 1 + norm.count("\n", 0, q)
                if ln != exp:
                    after = any(e <= q for s, e in removed_nl)
                    st.record(
                        f"lineno:{dname}:{ty}:{'too-low' if ln < exp else 'too-high'}:"
                        f"{'after-stripped-newlines' if after else 'no-stripped-newlines-before'}",
                        f"token ({ln}, {ty!r}, {v!r}) starts at offset {q} = line {exp} of source "
                        f"{case['source']!r} (trim_blocks={tb} lstrip_blocks={ls}); tokens {toks}",
                        case)
                    break
        starts = starts2
    # oracle 2: data tokens == kept runs
    if check_data:
        ctx.count("oracle_data")
        got = "".join(v for _, ty, v in toks if ty == "data")
        exp = "".join(p.runs)
        if got != exp:
            ok = False
            key, g = M.divergence_key(p, exp, got, tb, ls, with_var_out=False)
            st.record(
                f"data-whitespace:{dname}:{key}",
                f"source {case['source']!r} trim_blocks={tb} lstrip_blocks={ls}: data tokens "
                f"carry {got!r}, documented rules keep {exp!r} (first divergence in the run "
                f"{g['run']!r} between {M.tagname(g['A'], 'start')} and {M.tagname(g['B'], 'end')})", case)
    # coverage of the line oracle
    if starts is not None:
        nchk = 0
        removed_nl_ends = sorted(e for s, e in spans if "\n" in norm[s:e])
        tags_ml = []
        if hasattr(p, "pieces"):
            tags_ml = [(pc["start"], pc["end"]) for pc in p.pieces
                       if pc["type"] == "tag" and "\n" in norm[pc["start"]:pc["end"]]]
        for (ln, ty, v), q in zip(toks, starts):
            if v == "":
                continue
            nchk += 1
            after = bool(removed_nl_ends) and removed_nl_ends[0] <= q
            inml = any(s < q < e for s, e in tags_ml)
            if after:
                ctx.count("tokens_after_stripped_newline")
            if inml:
                ctx.count("tokens_in_multiline_tag")
            k = ("tok", dname, ty, after, inml)
            if k not in st.seen:
                st.seen.add(k)
                ctx.dist(k)
        ctx.count("tokens_line_checked", nchk)
        ctx.count("tokens_seen", len(toks))
    return ok


def check_case(st, skel, dname, tb, ls, keep=False, part="random"):
    ctx = st.ctx
    d = G.DELIMS[dname]
    p = M.predict(skel, tb, ls, keep, "\n", d)
    case = {"kind": "skel", "skel": skel, "delims": dname, "tb": tb, "ls": ls, "keep": keep,
            "source": p.source}
    ctx.ev()
    ctx.count("lex_calls")
    try:
        toks = list(st.env(dname, tb, ls, keep).lex(p.source))
    except Exception as e:
        st.record(f"lex-raises:{dname}:{type(e).__name__}",
                  f"{type(e).__name__}: {e} for source {p.source!r}", case)
        return False
    # gap coverage
    for g in p.gaps:
        if g["rl"] or g["rr"]:
            k = ("gap", dname, tb, ls, g["A"], g["B"], M.run_class(g["run"], g["A"] is None),
                 min(g["run"].count("\n") - g["kept"].count("\n"), 3))
            if k not in st.seen:
                st.seen.add(k)
                ctx.dist(k)
    if dname != "default":
        ctx.count("cases_custom_delims")
    return check_tokens(st, p, toks, case, dname, tb, ls)


# ----------------------------------------------------------- line statements
_LS_LINES = ["text", "  more text", "", "   ", "# for x in y", "  # endfor", "\t# if a:", "# endif",
             "#set z = [1,", "      2]", "a ## note", "  ## whole line note", "{{ v }} tail",
             "{% if q %}", "{% endif %}", "{# c #}x", "# for k in {'a':", "  1}", "<li>{{ x }}</li>"]


def linestmt_source(rng):
    n = rng.randint(1, 8)
    lines = []
    i = 0
    while i < n:
        ln = rng.choice(_LS_LINES)
        lines.append(ln)
        # keep bracket continuations together
        if ln.endswith("[1,"):
            lines.append("      2]")
        elif ln.endswith("{'a':"):
            lines.append("  1}")
        i += 1
    # drop stray continuation lines that would be unbalanced brackets in text (harmless as
    # text, but keep sources tidy)
    seps = [rng.choice(("\n", "\n", "\r\n", "\r")) for _ in lines]
    src = "".join(a + b for a, b in zip(lines, seps))
    if rng.random() < 0.3:
        src = src[:-len(seps[-1])]
    return src


def check_linestmt(st, src, keep):
    ctx = st.ctx
    ctx.ev()
    ctx.count("lex_calls")
    ctx.count("cases_linestmt")
    case = {"kind": "linestmt", "source": src, "keep": keep}
    norm = M.norm_nl(src)
    if not keep and norm.endswith("\n"):
        norm = norm[:-1]
    try:
        toks = list(st.env("default", False, False, keep, line=True).lex(src))
    except Exception as e:
        st.record(f"lex-raises:linestmt:{type(e).__name__}",
                  f"{type(e).__name__}: {e} for source {src!r}", case)
        return False
    # "they strip leading whitespace automatically up to the beginning of the line": the
    # blanks before a line-statement / line-comment prefix may be absent from the stream
    spans = []
    off = 0
    for line in norm.split("\n"):
        body = line.lstrip(" \t")
        if body.startswith("#") and len(body) < len(line):
            spans.append((off, off + len(line) - len(body)))
        j = line.find("##")
        if j > 0:
            k = j
            while k > 0 and line[k - 1] in " \t":
                k -= 1
            if k < j and (off + k, off + j) not in spans and k > 0:
                spans.append((off + k, off + j))
        off += len(line) + 1
    return check_tokens(st, {"norm": norm}, toks, case, "linestmt", False, False,
                        optional_spans=sorted(spans), check_data=False)


def mod_products(seq):
    return itertools.product(*[M.mod_choices(t) for t in seq])


def run(ctx):
    st = State(ctx)
    quick = ctx.tier == "quick"
    idx = 0
    complete = True

    # ---- exhaustive: <=2 tags, all modifiers x settings, default delimiters
    T1 = G.T1_QUICK if quick else G.T1
    for seq in M.tag_sequences(1):
        for mods in mod_products(seq):
            for texts in itertools.product(T1, repeat=2):
                idx += 1
                if not ctx.mine(idx):
                    continue
                skel = G.skeleton_from(seq, mods, texts)
                for tb, ls in SETTINGS:
                    check_case(st, skel, "default", tb, ls)
                    ctx.count("cases_exhaustive")
    T2 = ["\n ", " \n\n "] if quick else G.T2_THOROUGH + ["\n\n"]
    t2_all = list(itertools.product(T2, repeat=3))
    rng = ctx.rng("n2")
    for seq in M.tag_sequences(2):
        for mods in mod_products(seq):
            idx += 1
            if not ctx.mine(idx):
                continue
            if not quick and ctx.elapsed() > ctx.budget_s * 0.5:
                complete = False
                ctx.count("exhaustive_n2_cut")
                break
            tl = t2_all + [tuple(rng.choice(G.T1) for _ in range(3)) for _ in range(2)]
            for texts in tl:
                skel = G.skeleton_from(seq, mods, texts)
                for tb, ls in SETTINGS:
                    check_case(st, skel, "default", tb, ls)
            ctx.count("cases_exhaustive", len(tl) * 4)
        if not complete:
            break
    ctx.exhaustive = complete
    ctx.extra["exhaustive_max_tags"] = "2"
    if ctx.shard == 0:
        ctx.sample({"part": "exhaustive", "source": M.build(G.skeleton_from(
            ("cmt", "var"), (("", "+"), ("-", "")), ("a", "\n\n ", "\n")))})

    # ---- line statements / line comments
    rng = ctx.rng("linestmt")
    for i in range(150 if quick else 4000):
        src = linestmt_source(rng)
        check_linestmt(st, src, keep=rng.random() < 0.3)
        if i == 0 and ctx.shard == 0:
            ctx.sample({"part": "linestmt", "source": src})

    # ---- random multi-line sources, all delimiter sets, all settings
    rng = ctx.rng("random")
    dnames = ["default", "default", "angle", "html", "square"]
    n_max = 5000 if quick else 120000
    i = 0
    while ctx.more(i, n_max, floor=120):
        i += 1
        dname = rng.choice(dnames)
        nt = rng.choice((1, 2, 3, 4, 4, 5, 6, 8))
        skel = G.random_skeleton(rng, nt, lex=True, delims=dname)
        keep = rng.random() < 0.25
        for tb, ls in SETTINGS:
            check_case(st, skel, dname, tb, ls, keep)
            ctx.count("cases_random")
        if i <= 2 and ctx.shard == 0:
            ctx.sample({"part": "random", "delims": dname,
                        "source": M.build(skel, G.DELIMS[dname]), "keep_trailing_newline": keep})


def replay(ctx, case):
    st = State(ctx)
    if case.get("kind") == "linestmt":
        check_linestmt(st, case["source"], case.get("keep", False))
    else:
        check_case(st, case["skel"], case["delims"], case["tb"], case["ls"],
                   case.get("keep", False))
