"""C05 — include / import context visibility and module exports vs a model."""
from __future__ import annotations

from vt import util
from vt.gen import c05_mixlists, jast
from vt.model import interp as M

PID = "C05"
LEVEL = "exploration"
TECHNIQUE = "reference-model monitor: random include/import template sets rendered by the engine and by a model of context propagation and module export"
RULE = ("random template sets: a main template with include / import / from-import sites (with, "
        "without and default context; ignore missing; name lists; Template objects; aliases; nested "
        "imports/includes; name lists MIXING existing names, missing names and Template objects in "
        "every order - object first / after missing names only / after an existing name - as list "
        "literals and as lists passed through the context) placed at top level, in loops, with-blocks and macros; helpers print every "
        "probe variable they can see and modules export public/private/conditional/loop/block-set "
        "names; engine (sync+async, DictLoader) compared with vt.model.interp and with dir() of the "
        "module; the same mixed lists given to Environment.select_template / get_or_select_template "
        "must return the first entry that exists (in order; an object returned unchanged); distinct = distinct sets of exercised features x site kinds")
LEVEL_TEXT = "held on the generated template sets only"
ASSUMPTIONS = ["`loop` is not referenced from included templates", "globals are plain values"]
NSHARDS = {"quick": 16, "thorough": 16}
BUDGET_S = {"quick": 20, "thorough": 500}
FLOORS = {
    "quick": {"evaluations": 2500, "distinct": 60,
              "counters": {"compares": 2500, "module_export_checks": 500,
                           "f_include_without_context": 100, "f_import_with_context": 100,
                           "f_ignore_missing": 100, "f_include_list": 100, "f_include_object": 50,
                           "f_in_loop": 100, "f_in_macro": 100, "f_in_with": 100,
                           "f_in_block": 50, "f_in_block_after_set": 30,
                           "template_globals_order_compares": 400,
                           "f_include_list_with_object": 130, "f_list_object_after_existing_name": 80,
                           "f_include_list_from_context": 50, "select_api_checks": 1500,
                           "select_api_object_after_existing_name": 700}},
    "thorough": {"evaluations": 50000, "distinct": 150,
                 "counters": {"compares": 50000, "module_export_checks": 10000,
                              "f_include_without_context": 2000, "f_import_with_context": 2000,
                              "f_ignore_missing": 2000, "f_include_list": 2000,
                              "f_include_object": 1000, "f_in_loop": 2000, "f_in_macro": 2000,
                              "f_in_with": 2000, "f_in_block": 1000, "f_in_block_after_set": 600,
                              "template_globals_order_compares": 8000,
                              "f_include_list_with_object": 2600, "f_list_object_after_existing_name": 1600,
                              "f_include_list_from_context": 1000, "select_api_checks": 30000,
                              "select_api_object_after_existing_name": 14000}},
}


def build_env(templates, glob, is_async):
    import jinja2

    srcs = {n: jast.ps(b) for n, b in templates.items()}
    env = jinja2.Environment(loader=jinja2.DictLoader(srcs), enable_async=is_async)
    env.globals.update(glob)
    return env, srcs


def conv_value(v, env=None):
    if isinstance(v, dict) and "$tpl" in v:
        return env.get_template(v["$tpl"]) if env is not None else M.TplRef(v["$tpl"])
    if isinstance(v, list):
        return [conv_value(x, env) for x in v]
    return v


def conv_data(data, env=None):
    return {k: conv_value(v, env) for k, v in data.items()}


def public_names(body):
    """Documented export rule: top-level assignments and macros (also inside
    top-level if), names not starting with an underscore; import aliases are
    not exported."""
    out = []

    def top(b):
        for s in b:
            if s[0] in ("set", "setblock", "macro") and not s[1].startswith("_"):
                if s[1] not in out:
                    out.append(s[1])
            elif s[0] == "if":
                for _, bb in s[1]:
                    top(bb)
                if s[2]:
                    top(s[2])
    top(body)
    return out


def check(ctx, templates, data, glob):
    it = M.Interp(templates, globals=glob)
    mo = util.capture(lambda: it.render("main", conv_data(data)))
    for is_async in (False, True):
        env, srcs = build_env(templates, glob, is_async)
        eo = util.capture(lambda: env.get_template("main").render(**conv_data(data, env)))
        ctx.ev()
        ctx.count("compares")
        bad = None
        if mo.ok and eo.ok:
            if mo.value != eo.value:
                bad = f"engine {eo.value!r} != model {mo.value!r}"
        elif not mo.ok and not eo.ok:
            if not util.same_error(mo.exc, eo.exc):
                bad = f"engine {eo!r} / model {mo!r}"
            else:
                ctx.count("both_raise_" + util.model_exc_name(mo.exc))
        else:
            bad = f"engine {eo!r} / model {mo!r}"
        if bad:
            kinds = set()
            def fn(st):
                if st[0] == "include":
                    tgt = ""
                    if st[1][0] == "list" and any(x[0] == "name" for x in st[1][1]):
                        tgt = "[names+objects]"
                    elif st[1][0] == "name" and isinstance(data.get(st[1][1]), list):
                        tgt = "[list from context]"
                    kinds.add("include" + tgt + {None: "", True: "+ctx", False: "-ctx"}[st[2]] + ("?miss" if st[3] else ""))
                if st[0] in ("import", "from"):
                    kinds.add(st[0] + {None: "", True: "+ctx", False: "-ctx"}[st[3]])
            jast.walk_stmts(templates["main"], fn)
            ctx.violation("ctxvis:" + "+".join(sorted(kinds))[:90],
                          f"{bad} | templates={srcs} data={data}",
                          {"templates": templates, "data": data, "glob": glob})
            return
        if not is_async:
            # module exports via the Python API
            for n, b in templates.items():
                if not n.startswith("mod"):
                    continue
                try:
                    mod = env.get_template(n).module
                except Exception as e:
                    ctx.violation("module:raises", f"{n}: {type(e).__name__}: {e} | {srcs[n]}",
                                  {"templates": templates, "data": data, "glob": glob})
                    continue
                got = sorted(k for k in vars(mod) if not k.startswith("_"))
                exp = sorted(public_names(b))
                ctx.count("module_export_checks")
                if got != exp:
                    ctx.violation("module:exports", f"{n}: exported {got}, expected {exp} | {srcs[n]}",
                                  {"templates": templates, "data": data, "glob": glob})


def check_globals_order(ctx, templates, data, glob):
    """Template-level globals (get_template(name, globals=...)) reach the templates that `main`
    imports / includes the same way whether or not those templates (and main itself) were
    already loaded, rendered or turned into modules before the globals arrived."""
    tg = {"p": "TP", "lv": "TL", "q": "TQ"}
    for is_async in (False, True):
        outs = {}
        for history in ("fresh", "warmed"):
            env, srcs = build_env(templates, glob, is_async)
            d = {k: v for k, v in conv_data(data, env).items() if k not in tg}
            if history == "warmed":
                util.capture(lambda: env.get_template("main").render(**d))
                if not is_async:
                    for n in templates:
                        if n.startswith("mod"):
                            util.capture(lambda: env.get_template(n).module)
            o = util.capture(lambda: env.get_template("main", globals=dict(tg)).render(**d))
            outs[history] = ("ok", o.value) if o.ok else ("exc", type(o.exc).__name__)
        ctx.ev(2)
        ctx.count("template_globals_order_compares")
        if outs["fresh"] != outs["warmed"]:
            ctx.violation("ctxvis:template-globals:depends-on-load-order",
                          f"get_template('main', globals={tg}).render(): fresh environment {outs['fresh']!r}, after the "
                          f"same templates were rendered / turned into modules without them {outs['warmed']!r} | "
                          f"templates={srcs} data={data} async={is_async}",
                          {"templates": templates, "data": data, "glob": glob, "order": True})
            return


def check_select_api(ctx, templates, api, glob):
    """Environment.select_template / get_or_select_template on lists of names and Template
    objects: the names are tried in order and the first entry that exists is the result (a
    Template object exists by itself and is returned unchanged); TemplatesNotFound if none."""
    import jinja2

    env, srcs = build_env(templates, glob, False)
    for ents in api:
        sh = c05_mixlists.shape(ents, set(templates))
        for meth in ("select_template", "get_or_select_template"):
            args = conv_value(ents, env)
            exp = next((a for e, a in zip(ents, args) if c05_mixlists.is_obj(e) or e in templates), None)
            o = util.capture(lambda: getattr(env, meth)(list(args)))
            ctx.ev()
            ctx.count("select_api_checks")
            for x in sh:
                ctx.count("select_api_" + x)
            if exp is None:
                ok = (not o.ok) and isinstance(o.exc, jinja2.TemplatesNotFound)
                want = "TemplatesNotFound"
            elif isinstance(exp, str):
                ok = o.ok and isinstance(o.value, jinja2.Template) and o.value.name == exp
                want = f"the template named {exp!r}"
            else:
                ok = o.ok and o.value is exp
                want = f"the Template object {exp.name!r} itself"
            if not ok:
                got = (f"template {getattr(o.value, 'name', o.value)!r}" if o.ok
                       else f"{type(o.exc).__name__}: {o.exc}")
                ctx.violation(f"select_api:{meth}:" + "+".join(sh),
                              f"env.{meth}({ents}) gave {got}, expected {want} (first entry that exists) | "
                              f"loader has {sorted(templates)}",
                              {"templates": templates, "api": [ents], "glob": glob, "select": True})
                return


def run(ctx):
    rng = ctx.rng("s")
    n = 2500 if ctx.tier == "quick" else 60000
    i = 0
    while ctx.more(i, n, floor=100):
        g = c05_mixlists.IGenMix(rng)
        templates, data, glob = g.tset()
        for f in g.info:
            ctx.count("f_" + f)
        check(ctx, templates, data, glob)
        check_select_api(ctx, templates, g.api, glob)
        if i % 2 == 0:
            check_globals_order(ctx, templates, data, glob)
        ctx.dist(sorted(g.info))
        if i < 2:
            ctx.sample({"templates": {n: jast.ps(b) for n, b in templates.items()}, "data": data})
        i += 1


def replay(ctx, case):
    if case.get("select"):
        return check_select_api(ctx, case["templates"], case["api"], case["glob"])
    if case.get("order"):
        return check_globals_order(ctx, case["templates"], case["data"], case["glob"])
    check(ctx, case["templates"], case["data"], case["glob"])
