"""C02 — compiled expressions vs the reference evaluator."""
from __future__ import annotations

import json

from vt import util
from vt.gen import closedexpr_c02, exprgen, jast
from vt.model import interp as M

PID = "C02"
LEVEL = "exploration"
TECHNIQUE = "reference-model monitor: random type-directed expression trees evaluated by the real compiler and by an independent evaluator"
RULE = ("random type-directed expression trees (depth<=5) printed with minimal parentheses, each on 3 "
        "data assignments, evaluated through compile_expression and {{ }} rendering in default, "
        "optimized=False, async and sandboxed environments and compared (structural equality with "
        "type, or same exception class) with vt.model.interp; every third tree is CLOSED (no context "
        "names: all operands are literals, container literals or constant sub-expressions, i.e. what "
        "the compiler may evaluate itself), centred on comparisons and containment between operands of "
        "one type family (str/str, list/list-of-lists, tuple/tuple-of-tuples, number/number) related "
        "either way round or not at all, also chained and inside conditional expressions / concat; "
        "distinct = distinct operator-shape skeletons containing >=2 different precedence classes")
LEVEL_TEXT = ("held on the generated trees/data only; evaluator written from docs/templates.rst "
              "(Math, Comparisons, Logic, Other Operators, If Expression, Variables)")
ASSUMPTIONS = [
    "unary minus next to ** or a filter is always parenthesised (interplay undocumented)",
    "`~` binds tighter than + - and looser than * / // % (de-facto grammar; documentation has no table)",
    "filters/tests used: a fixed small set whose definitions are restated in vt.model.builtins_spec",
]
NSHARDS = {"quick": 16, "thorough": 16}
BUDGET_S = {"quick": 22, "thorough": 600}
FLOORS = {
    "quick": {"evaluations": 8000, "distinct": 400,
              "counters": {"oracle_value_compares": 5000, "oracle_text_compares": 2000,
                           "both_raise_same": 100, "closed_trees": 300,
                           "closed_containment_cmp": 160, "closed_container_in_container": 65,
                           "closed_chained_containment": 35, "closed_ordering_cmp": 110}},
    "thorough": {"evaluations": 200000, "distinct": 30000,
                 "counters": {"oracle_value_compares": 100000, "oracle_text_compares": 50000,
                              "both_raise_same": 2000, "closed_trees": 7500,
                              "closed_containment_cmp": 4000, "closed_container_in_container": 1600,
                              "closed_chained_containment": 900, "closed_ordering_cmp": 2750}},
}
ENVS = ["default", "unopt", "async", "sandbox", "autoescape"]
_envs = None


def envs():
    global _envs
    if _envs is None:
        _envs = util.make_envs(ENVS[:4])
        _envs["autoescape"] = util.make_envs(["default"], autoescape=True)["default"]
    return _envs


def model_eval(tree, data, autoescape=False):
    it = M.Interp({})
    it.autoescape = autoescape
    scope = M.Scope(M.Scope(None, dict(it.globals)), dict(data))
    return util.capture(lambda: it.ev(tree, scope, None))


def compare(mo, eo, text=False, autoescape=False):
    """None if consistent else description."""
    if mo.ok and eo.ok:
        if text:
            if autoescape:
                from markupsafe import escape

                exp = str(escape(M.soft(mo.value)))
            else:
                exp = M.model_str(mo.value)
            return None if eo.value == exp else f"text {eo.value!r} != model {exp!r}"
        return None if util.struct_eq(mo.value, eo.value) else f"value {eo.value!r} != model {mo.value!r}"
    if not mo.ok and not eo.ok:
        if util.same_error(mo.exc, eo.exc):
            return None
        return f"engine raised {eo!r}, model raised {mo!r}"
    return f"engine {eo!r} vs model {mo!r}"


def engine_eval(envname, src, data, text):
    env = envs()[envname]
    if text:
        def f():
            t = env.from_string("{{ " + src + " }}")
            return t.render(**data)
    else:
        def f():
            return env.compile_expression(src)(**data)
    return util.capture(f)


def check_tree(tree, recipe, envname, text):
    _, data = exprgen.make_data(None, recipe)
    src = jast.pe_root(tree) if False else jast.pe(tree)
    ae = envname == "autoescape"
    mo = model_eval(tree, data, ae)
    if not mo.ok and isinstance(mo.exc, (RecursionError, MemoryError)):
        return None, src
    eo = engine_eval(envname, src, data, text)
    return compare(mo, eo, text, ae), src


def subtrees(e):
    out = []
    jast.walk_expr(e, out.append)
    return out[1:]


def minimise(tree, recipe, envname, text):
    """Descend into the smallest sub-expression that still disagrees."""
    cur = tree
    changed = True
    while changed:
        changed = False
        for sub in sorted(subtrees(cur), key=lambda x: len(json.dumps(x))):
            if sub[0] in ("const", "name"):
                continue
            try:
                bad, _ = check_tree(sub, recipe, envname, text)
            except Exception:
                continue
            if bad:
                cur = sub
                changed = True
                break
    return cur


def run_case(ctx, tree, recipe, idx):
    levels = exprgen.prec_levels(tree)
    nontrivial = len(levels) >= 2
    for envname in ENVS:
        # async env goes through the event loop: sample it
        if envname == "async" and idx % 4:
            continue
        for text in (False, True):
            if envname == "async" and not text:
                continue  # compile_expression is sync-only by documentation
            try:
                bad, src = check_tree(tree, recipe, envname, text)
            except ValueError:
                return  # unprintable literal
            ctx.ev()
            ctx.count("oracle_text_compares" if text else "oracle_value_compares")
            if bad is None:
                continue
            mini = minimise(tree, recipe, envname, text)
            key = "expr:" + json.dumps(exprgen.skeleton(mini))[:100]
            ctx.violation(key, f"{bad} | src={jast.pe(mini)!r} (from {src!r}) env={envname} text={text}",
                          {"expr": tree, "data": recipe, "env": envname, "text": text})
    if nontrivial:
        ctx.dist(exprgen.skeleton(tree))
        ctx.count("trees_with_2plus_precedence_classes")
    ctx.count("trees")


def run(ctx):
    rng = ctx.rng("trees")
    g = exprgen.Gen(rng, features={"markup"})
    cg = closedexpr_c02.ClosedGen(ctx.rng("closed_trees"))
    n = 6000 if ctx.tier == "quick" else 250000
    i = 0
    while ctx.more(i, n, floor=200):
        depth = rng.choice([2, 3, 3, 4, 4, 5])
        closed = i % 3 == 2
        if closed:
            # no context names: one data assignment is enough
            tree = cg.expr(min(depth, 4))
            ctx.count("closed_trees")
            for name in closedexpr_c02.classify(tree):
                ctx.count(name)
        else:
            tree = g.expr(depth)
        for j in range(1 if closed else 3):
            recipe, data = exprgen.make_data(rng)
            mo = model_eval(tree, data)
            if not mo.ok:
                ctx.count("model_raises")
            before = ctx.nviol
            run_case(ctx, tree, recipe, i)
            if not mo.ok and ctx.nviol == before:
                ctx.count("both_raise_same")
        if i < 3:
            ctx.sample({"src": jast.pe(tree), "data": recipe})
        i += 1


def replay(ctx, case):
    bad, src = check_tree(case["expr"], case["data"], case["env"], case["text"])
    if bad:
        ctx.violation("replay", f"{bad} | src={src!r}", case)
