"""C14 — template literals denote the same values as the same Python literals."""
from __future__ import annotations

import ast
import itertools
import math

from vt.model import c14_literal as L

PID = "C14"
LEVEL = "exploration"
RULE = ("strings: random Python str values from 17 code-point classes (quotes, backslash, "
        "escape letters, line breaks, controls, Latin-1, U+2028-like breaks, BMP, lone "
        "surrogates, astral) spelled as repr/ascii, other quote style, per-character choice of "
        "raw / simple / octal / \\x / \\u / \\U / \\N{} escapes, line continuations and 2-4 "
        "adjacent literals; ints (to 3000 bits) in dec/hex/oct/bin with underscores and prefix "
        "case, floats (boundary values, random bit patterns) as repr, %.17e, fixed, underscore, "
        "leading-zero and zero-padded-exponent forms, optionally negated; each evaluated with "
        "compile_expression and rendered. every string case runs in the default environment and "
        "in two of the five other newline_sequence (\\n|\\r\\n|\\r) x keep_trailing_newline "
        "configurations in rotation; the systematic single-atom section (every code-point class x "
        "every escape kind, incl. escaped \\n / \\r as simple, octal, \\x, \\u, \\U, \\N{} "
        "escapes) runs under all six: an ESCAPED line break denotes the Python value whatever "
        "the newline_sequence. literal boundaries: adjacent literals ('a' \"b\" 'c'; same and mixed "
        "quote styles; nothing, blanks, tabs, \\n, \\r\\n, \\r between them) whose boundary "
        "falls directly after every kind of escape - octal with 1, 2 and 3 digits, \\x, \\u, \\U, "
        "\\N{}, simple, escaped backslash, backslash-newline, or a raw character - while the next "
        "literal starts with octal digits, 8/9, hex letters, braces / {NAME}, escape letters "
        "(n t x41 u0041 N{..}), an escape of its own or something neutral: the full table tail x "
        "head (quick: one quote-pair/joiner variant per cell, thorough: all 32; default + 2 rotating newline configurations each) plus random 2-4 "
        "literal chains with random prefixes; expected = concatenation of the values Python gives "
        "each literal on its own (every literal is escape-complete; cases where decoding the "
        "glued bodies would give another value or no value are counted). numbers: EVERY string up to length L over the 20 "
        "symbols 0-9 _ . e E x X o O b B is lexed with Environment.lex; those read as exactly "
        "one integer/float token are evaluated and compared with ast.literal_eval. distinct = "
        "(value classes, spelling form, atom kinds) for strings, (form, magnitude class) for "
        "random numbers, and each decided number spelling in the exhaustive part")
TECHNIQUE = "differential oracle: Python's literal evaluator / by-construction value vs template value"
LEVEL_TEXT = ("held on every generated spelling and on the exhaustive number-spelling space up to "
              "the reported length; only valid Python spellings are generated")
ASSUMPTIONS = [
    "numbers: default Environment only; strings: all six newline_sequence x "
    "keep_trailing_newline configurations",
    "no raw CR/LF inside a literal except the backslash-newline continuation, and that one only "
    "under newline_sequence '\\n' (what a raw line break inside a literal denotes under another "
    "newline_sequence is not documented; such cases are counted as skipped)",
    "only escapes that Python accepts without a warning are generated (octal <= \\377)",
    "a number spelling is decided only when Environment.lex yields exactly one integer/float "
    "token spanning the whole spelling",
    "nan/inf cannot be spelled as literals (inf only through overflowing exponents)",
    "adjacent literals: CHANGES.rst 2.5 'implicit string literal concatenation', the property "
    "statement ('same values as Python literals ... adjacent string concatenation') and the "
    "Python reference ('their meaning is the same as their concatenation') - the value is the "
    "concatenation of the values of the individual literals; only literals that are valid "
    "Python on their own are generated (\"\\x4\" \"1\" or \"\\N\" \"{DIGIT ONE}\" have no Python "
    "value and are outside the property), and the whole spelling is cross-checked with "
    "ast.literal_eval",
]
NSHARDS = {"quick": 16, "thorough": 16}
BUDGET_S = {"quick": 10, "thorough": 500}
EXH_LEN = {"quick": 4, "thorough": 5}
FLOORS = {
    # the exhaustive number-spelling part is not time-boxed: 20+20^2+20^3+20^4 = 168420 lexed
    "quick": {"evaluations": 16000, "distinct": 8000,
              "counters": {"string_cases": 2500, "int_cases": 800, "float_cases": 800,
                           "lexed_spellings": 168420, "single_number_spellings": 15000,
                           "single_integer": 8000, "single_float": 4000,
                           "render_checks": 6000, "python_crosschecks": 4000,
                           "single_atom_cases": 600, "string_evals": 9000,
                           "string_evals_nondefault_newline": 5000,
                           "string_evals_keep_trailing_newline": 4000,
                           "escaped_linebreak_nondefault_newline": 350,
                           # literal-boundary section: the table (870 cells) is never time-boxed,
                           # the random chains have a floor of 100 per shard
                           "boundary_table_cells": 870, "boundary_cases": 1200,
                           "boundary_cases_random": 700,
                           "boundary_octal_escape_then_octal_digit": 120,
                           "boundary_glued_bodies_changes-value": 60,
                           "boundary_after:esc-oct-1digit": 70,
                           "boundary_after:esc-oct-2digit": 300,
                           "boundary_after:esc-oct-3digit": 110, "boundary_after:esc-x": 180,
                           "boundary_after:esc-u": 200, "boundary_after:esc-U": 220,
                           "boundary_after:esc-N": 110, "boundary_after:esc-backslash": 45,
                           "boundary_after:esc-simple": 60, "boundary_after:linecont": 20,
                           "boundary_next_starts_with:octal-digit": 400,
                           "boundary_next_starts_with:digit-8-9": 60,
                           "boundary_next_starts_with:hex-letter": 200,
                           "boundary_next_starts_with:brace": 100,
                           "boundary_next_starts_with:escape-letter": 300,
                           "boundary_next_starts_with:escape": 200,
                           "boundary_no_space_between_literals": 150,
                           "boundary_linebreak_between_literals": 500}},
    "thorough": {"evaluations": 400000, "distinct": 250000,
                 "counters": {"string_cases": 60000, "int_cases": 15000, "float_cases": 15000,
                              "lexed_spellings": 3368420, "single_number_spellings": 250000,
                              "single_integer": 120000, "single_float": 80000,
                              "render_checks": 50000, "python_crosschecks": 50000,
                              "single_atom_cases": 10000, "string_evals": 150000,
                              "string_evals_nondefault_newline": 90000,
                              "string_evals_keep_trailing_newline": 70000,
                              "escaped_linebreak_nondefault_newline": 5000,
                              "boundary_table_cells": 870, "boundary_cases": 8450,
                              "boundary_cases_table": 4550, "boundary_cases_random": 3900,
                              "boundary_octal_escape_then_octal_digit": 1240,
                              "boundary_glued_bodies_changes-value": 600,
                              "boundary_after:esc-oct-1digit": 600,
                              "boundary_after:esc-oct-2digit": 2540,
                              "boundary_after:esc-oct-3digit": 980,
                              "boundary_after:esc-x": 1760, "boundary_after:esc-u": 1950,
                              "boundary_after:esc-U": 2210, "boundary_after:esc-N": 1100,
                              "boundary_after:esc-backslash": 380,
                              "boundary_after:esc-simple": 440, "boundary_after:linecont": 130,
                              "boundary_next_starts_with:octal-digit": 3960,
                              "boundary_next_starts_with:digit-8-9": 510,
                              "boundary_next_starts_with:hex-letter": 2020,
                              "boundary_next_starts_with:brace": 980,
                              "boundary_next_starts_with:escape-letter": 3180,
                              "boundary_next_starts_with:escape": 1950,
                              "boundary_no_space_between_literals": 1560,
                              "boundary_linebreak_between_literals": 5200}},
}

ALPHABET = "0123456789_.eExXoObB"


def same_value(a, b):
    if type(a) is not type(b):
        return False
    if isinstance(a, float):
        if a != a or b != b:
            return a != a and b != b
        return a == b and math.copysign(1.0, a) == math.copysign(1.0, b)
    return a == b


def evaluate(env, spelling):
    try:
        return ("ok", env.compile_expression(spelling, undefined_to_none=False)())
    except Exception as e:  # noqa: BLE001
        return ("exc", e)


def render(env, spelling):
    try:
        return ("ok", env.from_string("{{ " + spelling + " }}").render())
    except Exception as e:  # noqa: BLE001
        return ("exc", e)


def short(v, n=120):
    r = ascii(v)
    return r if len(r) <= n else r[:n] + "..."


# ------------------------------------------------------------------ strings
def string_key(env, value, spelling, info):
    """Mechanism key for a failing string: which atom kinds fail on their own."""
    bad = set()
    for kind, text, ch in info.get("atoms") or ():
        q = '"' if "'" in text else "'"
        if kind == "linecont":
            r = evaluate(env, "'a" + text + "b'")
            ch = "ab"
        else:
            r = evaluate(env, q + text + q)
        if not (r[0] == "ok" and r[1] == ch):
            bad.add(kind)
    if bad:
        return "string:" + "+".join(sorted(bad))
    if info.get("parts"):
        # adjacent literals with known per-literal values: a literal that fails alone, else the
        # first boundary whose two literals fail together
        parts = info["parts"]
        for text, val in parts:
            r = evaluate(env, text)
            if not (r[0] == "ok" and r[1] == val):
                return "string:single-literal"
        for (a, b), j, (tk, hc) in zip(zip(parts, parts[1:]), info["joiners"], info["boundaries"]):
            r = evaluate(env, a[0] + j + b[0])
            if not (r[0] == "ok" and r[1] == a[1] + b[1]):
                return f"string:adjacent-concat:after-{tk}:next-starts-with-{hc}"
    if info["nparts"] > 1:
        return "string:adjacent-concat"
    return "string:form-" + info["form"]


CONFIGS = [(nl, keep) for nl in ("\n", "\r\n", "\r") for keep in (False, True)]   # default first
NLNAME = {"\n": "lf", "\r\n": "crlf", "\r": "cr"}


def make_envs():
    from jinja2 import Environment

    return {(nl, keep): Environment(newline_sequence=nl, keep_trailing_newline=keep)
            for nl, keep in CONFIGS}


def cfg_suffix(nl, keep):
    """'' for the default configuration, else the configuration as part of the mechanism."""
    if (nl, keep) == CONFIGS[0]:
        return ""
    return ":newline_sequence=" + NLNAME[nl] + ("+keep_trailing_newline" if keep else "")


def has_raw_linebreak(info, spelling):
    """A raw CR/LF INSIDE a quoted literal (only the backslash-newline continuation is ever
    generated).  Line breaks between adjacent literals are token whitespace."""
    kinds = info.get("kinds") or ()
    if "linecont" in kinds:
        return True
    if info.get("form") in ("repr", "ascii", "single-atom"):
        return False
    return info.get("nparts", 1) == 1 and ("\n" in spelling or "\r" in spelling)


def check_string(ctx, envs, value, spelling, info, classes, do_render, cfgs=None):
    ctx.count("string_cases")
    ctx.count("string_form_" + info["form"])
    case = {"kind": "string", "value": value, "spelling": spelling, "info":
            {k: v for k, v in info.items() if k != "atoms"}}
    pv = L.python_value(spelling)
    if pv[0] == "ok":
        ctx.count("python_crosschecks")
        if pv[1] != value:
            ctx.inconc(f"generator self-check: Python reads {short(spelling)} as {short(pv[1])}, "
                       f"intended {short(value)}")
            return
    elif pv[0] == "rejected":
        ctx.inconc(f"generator produced a spelling Python rejects: {short(spelling)}: {pv[1]}")
        return
    else:
        ctx.count("python_unreadable_by_construction_only")
    ctx.dist(("s", classes, info["form"], sorted(set(info["kinds"])), info["nparts"]))
    raw_break = has_raw_linebreak(info, spelling)
    has_break = "\n" in value or "\r" in value
    for (nl, keep), env in envs.items():
        if cfgs is not None and [nl, keep] not in cfgs:
            continue
        if nl != "\n" and raw_break:
            # what a RAW line break inside a literal denotes under another newline_sequence is
            # not documented (the lexer converts raw line breaks); only escaped ones are decided
            ctx.count("skipped_raw_linebreak_nondefault_newline")
            continue
        ctx.ev()
        ctx.count("string_evals")
        if nl != "\n":
            ctx.count("string_evals_nondefault_newline")
            if has_break:
                ctx.count("escaped_linebreak_nondefault_newline")
        if keep:
            ctx.count("string_evals_keep_trailing_newline")
        sfx = cfg_suffix(nl, keep)
        cfgtxt = "" if not sfx else f" [newline_sequence={nl!r} keep_trailing_newline={keep}]"
        ccase = dict(case, nl=nl, keep=keep)
        r = evaluate(env, spelling)
        if r[0] == "exc":
            ctx.violation(string_key(env, value, spelling, info) + ":raises" + sfx,
                          f"literal {short(spelling)} raised {type(r[1]).__name__}: {r[1]}; Python "
                          f"value {short(value)}{cfgtxt}", ccase)
            return
        if not (type(r[1]) is str and r[1] == value):
            ctx.violation(string_key(env, value, spelling, info) + ":wrong-value" + sfx,
                          f"literal {short(spelling)} evaluated to {short(r[1])}, Python value "
                          f"{short(value)}{cfgtxt}", ccase)
            return
        if do_render:
            ctx.count("render_checks")
            o = render(env, spelling)
            if o != ("ok", value):
                ctx.violation(string_key(env, value, spelling, info) + ":render" + sfx,
                              f"{{{{ {short(spelling)} }}}} rendered {short(o[1])}, expected "
                              f"{short(value)}{cfgtxt}", ccase)
                return


def run_strings(ctx, envs, n, rng):
    i = 0
    while ctx.more(i, n, min(n, 300)):
        i += 1
        value, classes = L.gen_value(rng, 12)
        spelling, info = L.spell_string(rng, value)
        # default configuration always + two of the five others in rotation (the single-atom
        # section below runs every atom kind under all six)
        rot = [list(CONFIGS[0]), list(CONFIGS[1 + i % 5]), list(CONFIGS[1 + (i + 2) % 5])]
        check_string(ctx, envs, value, spelling, info, classes, do_render=(i % 2 == 0), cfgs=rot)
        if i <= 2 and ctx.shard == 0:
            ctx.sample({"kind": "string", "value": value, "spelling": spelling})
    run_boundaries(ctx, envs, rng)
    # every class x every atom kind, one character at a time (systematic, not random)
    for ci, (cname, f) in enumerate(L.CLASSES):
        if not ctx.mine(ci) and ctx.tier == "quick":
            continue
        for _ in range(8):
            ch = f(rng)
            for q in "'\"":
                for kind, text in L.atom_options(ch, q):
                    info = {"form": "single-atom", "kinds": [kind], "nparts": 1,
                            "atoms": [(kind, text, ch)]}
                    check_string(ctx, envs, ch, q + text + q, info, [cname], do_render=True)
                    ctx.count("single_atom_cases")


def boundary_counters(ctx, info, part):
    ctx.count("boundary_cases")
    ctx.count("boundary_cases_" + part)
    ctx.count("boundary_glued_bodies_" + info["glue"])
    for tk, hc in info["boundaries"]:
        ctx.count("boundary_after:" + tk)
        ctx.count("boundary_next_starts_with:" + hc)
        if tk.startswith("esc-oct") and hc == "octal-digit":
            ctx.count("boundary_octal_escape_then_octal_digit")
    if any(j == "" for j in info["joiners"]):
        ctx.count("boundary_no_space_between_literals")
    if any("\n" in j or "\r" in j for j in info["joiners"]):
        ctx.count("boundary_linebreak_between_literals")


def run_boundaries(ctx, envs, rng):
    """Adjacent literals whose boundary falls directly after an escape: the value is the
    concatenation of the values of the literals, each decoded on its own."""
    quick = ctx.tier == "quick"
    # systematic: every tail kind x every head, quick: one (quote pair, joiner) per cell in
    # rotation; thorough: all 32 (one when more than half of the time box is already used);
    # each under the default + 2 rotating configurations
    idx = 0
    variants = [(qp, j) for qp in L.QUOTE_PAIRS for j in L.BOUNDARY_JOINERS]
    for tail in L.TAILS:
        for head in L.HEADS:
            idx += 1
            if not ctx.mine(idx):
                continue
            ctx.count("boundary_table_cells")
            reduced = quick or ctx.elapsed() > ctx.budget_s * 0.5
            if reduced and not quick:
                ctx.count("boundary_table_cells_reduced_to_one_variant")
            vs = [variants[(idx * 7 + ctx.seed) % len(variants)]] if reduced else variants
            for vi, (qp, j) in enumerate(vs):
                spelling, value, info = L.systematic_boundary(tail, head, qp, j)
                k = idx + vi
                rot = [list(CONFIGS[0]), list(CONFIGS[1 + k % 5]), list(CONFIGS[1 + (k + 2) % 5])]
                boundary_counters(ctx, info, "table")
                check_string(ctx, envs, value, spelling, info, [tail[0], head[0]],
                             do_render=(quick or vi % 4 == 0), cfgs=rot)
    n = 150 if quick else 1500
    i = 0
    while ctx.more(i, n, min(n, 100)) and (i < 100 or ctx.elapsed() < ctx.budget_s * 0.6):
        i += 1
        spelling, value, info = L.random_boundary(rng)
        rot = [list(CONFIGS[0]), list(CONFIGS[1 + i % 5]), list(CONFIGS[1 + (i + 2) % 5])]
        boundary_counters(ctx, info, "random")
        check_string(ctx, envs, value, spelling, info, ["boundary"], do_render=(i % 2 == 0),
                     cfgs=rot)
        if i <= 1 and ctx.shard == 0:
            ctx.sample({"kind": "string", "value": value, "spelling": spelling})


# ------------------------------------------------------------------ numbers (generated)
OVERFLOW = ["1e999", "1e309", "2e308", "1.8e308", "1.7976931348623159e308", "9E400", "1_0.0e999",
            "123456789e301", "1e+999", "0.1e310", "1e1000", "17976931348623159e292"]


def mag_class(n):
    b = abs(n).bit_length() if isinstance(n, int) else 0
    for lim in (1, 8, 31, 32, 63, 64, 128, 512, 2048):
        if b <= lim:
            return lim
    return 99999


def check_number(ctx, env, kind, value, spelling, form, neg, do_render):
    ctx.ev()
    ctx.count(kind + "_cases")
    text = ("-" if neg else "") + spelling
    case = {"kind": kind, "spelling": text, "form": form}
    pv = L.python_value(text)
    if pv[0] != "ok":
        ctx.inconc(f"generator produced a number Python rejects: {text[:80]}: {pv}")
        return
    ctx.count("python_crosschecks")
    expected = pv[1]
    want = -value if neg else value
    if not same_value(expected, want):
        ctx.inconc(f"generator self-check: {text[:80]} is {expected!r} in Python, intended {want!r}")
        return
    if kind == "int":
        ctx.dist(("i", form, neg, mag_class(value)))
    else:
        m, e = math.frexp(value)
        ctx.dist(("f", form, neg, e // 64, len(spelling) // 4))
    r = evaluate(env, text)
    key = f"{kind}:{form}"
    if r[0] == "exc":
        ctx.violation(key + ":raises", f"literal {text[:100]} raised {type(r[1]).__name__}: "
                                       f"{str(r[1])[:200]}", case)
        return
    if not same_value(r[1], expected):
        ctx.violation(key + ":wrong-value", f"literal {text[:100]} evaluated to "
                                            f"{short(r[1])}, Python value {short(expected)}", case)
        return
    if do_render:
        ctx.count("render_checks")
        o = render(env, text)
        if o != ("ok", str(expected)):
            ctx.violation(key + ":render", f"{{{{ {text[:100]} }}}} rendered {short(o[1])}, "
                                           f"expected {short(str(expected))}", case)


def run_numbers(ctx, env, n, rng):
    i = 0
    while ctx.more(i, n, min(n, 100)):
        i += 1
        v = L.gen_int(rng)
        s, form = L.spell_int(rng, v)
        check_number(ctx, env, "int", v, s, form, rng.random() < 0.25, i % 2 == 0)
        f = L.gen_float(rng)
        s, form, _ = L.spell_float(rng, f)
        check_number(ctx, env, "float", f, s, form, rng.random() < 0.25, i % 2 == 0)
        if i <= 1 and ctx.shard == 0:
            ctx.sample({"kind": "float", "spelling": s, "value": f})
    # spellings whose Python value overflows to inf
    for j, s in enumerate(OVERFLOW):
        if ctx.mine(j):
            check_number(ctx, env, "float", float("inf"), s, "overflow-inf", j % 3 == 0, True)


# ------------------------------------------------------------------ numbers (exhaustive)
def lex_single_number(env, s):
    """-> token type if Environment.lex reads `s` as exactly one number token."""
    from jinja2 import TemplateSyntaxError

    try:
        toks = [t for t in env.lex("{{" + s + "}}") if t[1] != "whitespace"]
    except TemplateSyntaxError:
        return None
    if len(toks) == 3 and toks[0][1] == "variable_begin" and toks[2][1] == "variable_end" \
            and toks[1][1] in ("integer", "float") and toks[1][2] == s:
        return toks[1][1]
    return None


def shape(s):
    """Spelling with digit values abstracted (1-9 -> 9) and digit runs collapsed."""
    out = []
    for c in s:
        c = "9" if c in "123456789" else c
        if out and out[-1] == c and c in "09":
            continue
        out.append(c)
    return "".join(out)


def check_spelling(ctx, env, s, do_render=False):
    """One spelling of the number-symbol alphabet."""
    ctx.count("lexed_spellings")
    tt = lex_single_number(env, s)
    if tt is None:
        return False
    ctx.ev()
    ctx.count("single_number_spellings")
    ctx.count("single_" + tt)
    ctx.dist(("n", s))
    case = {"kind": "spelling", "spelling": s}
    try:
        expected = ast.literal_eval(s)
        ok = type(expected) in (int, float)
    except (SyntaxError, ValueError):
        ok = False
    if ok and isinstance(expected, float) and math.isinf(expected):
        key = "float:overflow-inf"         # same mechanism as the generated overflow cases
    else:
        key = f"lexnum:{tt}:{shape(s)}"
    if not ok:
        ctx.violation(key + ":not-a-python-number",
                      f"lexer reads {s!r} as one {tt} token but Python assigns no number to that "
                      f"spelling", case)
        return True
    r = evaluate(env, s)
    if r[0] == "exc":
        ctx.violation(key + ":raises", f"{s!r} is one {tt} token but evaluating raised "
                                       f"{type(r[1]).__name__}: {r[1]}", case)
        return True
    if not same_value(r[1], expected):
        ctx.violation(key + ":wrong-value", f"{s!r} evaluated to {r[1]!r} ({type(r[1]).__name__}), "
                                            f"Python value {expected!r} "
                                            f"({type(expected).__name__})", case)
        return True
    if do_render:
        ctx.count("render_checks")
        o = render(env, s)
        if o != ("ok", str(expected)):
            ctx.violation(key + ":render", f"{{{{ {s} }}}} rendered {o[1]!r}, expected "
                                           f"{str(expected)!r}", case)
    return True


def run_exhaustive(ctx, env, maxlen):
    idx = k = 0
    done_len = 0
    for n in range(1, maxlen + 1):
        # shard by the first two symbols' block so work is contiguous and cheap to partition
        for tup in itertools.product(ALPHABET, repeat=n):
            idx += 1
            if not ctx.mine(idx):
                continue
            s = "".join(tup)
            k += 1
            check_spelling(ctx, env, s, do_render=(k % 8 == 0))
        done_len = n
    ctx.extra["exhaustive_number_spelling_length"] = done_len if ctx.shard == 0 else 0
    return done_len


def run_random_spellings(ctx, env, rng, n):
    """Longer spellings from the same alphabet, biased towards digits."""
    weights = [6] * 10 + [3, 3, 2, 2, 1, 1, 1, 1, 1, 1]
    i = 0
    while ctx.more(i, n, min(n, 200)):
        i += 1
        ln = rng.randint(5, 12)
        s = "".join(rng.choices(ALPHABET, weights, k=ln))
        if rng.random() < 0.3:
            s = rng.choice(["0x", "0X", "0b", "0o", "0B", "0O"]) + s
        if check_spelling(ctx, env, s, do_render=(i % 4 == 0)):
            ctx.count("random_single_number_spellings")


def run(ctx):
    from jinja2 import Environment

    env = Environment()
    envs = make_envs()
    quick = ctx.tier == "quick"
    run_strings(ctx, envs, 500 if quick else 12000, ctx.rng("str"))
    run_numbers(ctx, env, 200 if quick else 3000, ctx.rng("num"))
    done = run_exhaustive(ctx, env, EXH_LEN[ctx.tier])
    if done == EXH_LEN[ctx.tier]:
        ctx.exhaustive = None   # exhaustive only for the number-spelling sub-space; see extra
    run_random_spellings(ctx, env, ctx.rng("rsp"), 2500 if quick else 60000)


def replay(ctx, case):
    from jinja2 import Environment

    env = Environment()
    if case["kind"] == "string":
        value = case["value"]
        if isinstance(value, dict) and "$surrogate" in value:
            value = bytes.fromhex(value["$surrogate"]).decode("utf-8", "surrogatepass")
        spelling = case["spelling"]
        if isinstance(spelling, dict) and "$surrogate" in spelling:
            spelling = bytes.fromhex(spelling["$surrogate"]).decode("utf-8", "surrogatepass")
        info = dict(case["info"])
        info["atoms"] = None
        check_string(ctx, make_envs(), value, spelling, info, [], True,
                     cfgs=[[case.get("nl", "\n"), case.get("keep", False)]])
    elif case["kind"] in ("int", "float"):
        text = case["spelling"]
        neg = text.startswith("-")
        pv = L.python_value(text)
        value = abs(pv[1]) if pv[0] == "ok" else 0
        if isinstance(value, float) and neg:
            value = -pv[1]
        check_number(ctx, env, case["kind"], value, text[1:] if neg else text, case["form"],
                     neg, True)
    else:
        check_spelling(ctx, env, case["spelling"], True)
