"""C20 — sandbox operator interception sees every intercepted operator
application (and only those), with the same operands, and the rendered result
is the hook's result.

For each subset of the 7 binary and 2 unary interceptable operators a
SandboxedEnvironment subclass is made whose call_binop / call_unop record
(op, operands) and return a *perturbed* value (number + 1000, string + "~").
Generated, fully parenthesised arithmetic programs are rendered and compared
with a small reference interpreter (vt/gen/c20_gen.py) that produces the
expected event sequence in evaluation order (short-circuit and/or, inline-if,
loop filters, macro defaults, set/with) and the expected perturbed output.

Second part: the same programs as LOADER templates (direct, included,
extending) in families of environments made with Environment.overlay(), each
member with its own interception configuration; every render through a member
must produce that member's expected hook log on that member's hook, whatever
its relatives loaded (and cached) before.

Third part: compile ROUTES.  The same generated programs reach the
intercepting sandbox along every documented way to turn a template into code:
source text through from_string (first part) or compile() + Template.from_code;
an AST from Environment.parse() of the SAME environment / of an overlay of it;
an AST parsed by ANOTHER environment (ordinary Environment - optimizer on, off,
an overlay -, a SandboxedEnvironment that intercepts nothing, a recording
sandbox that intercepts exactly the other operators) handed to from_string(ast)
or compile(ast [, name, filename]) + from_code, with and without
Node.set_environment; and compile_expression for a single expression (the
VALUE is compared).  Every route must give the reference's hook event sequence
and output - i.e. the same as every other route - and the hook of an
environment that only parsed the source must stay silent.

Fourth part: hook INSTALLATIONS.  The recording hook is not only defined in a
subclass: it is assigned on the environment instance (env.call_binop = f)
before or after the template was compiled, assigned on the class of a
hook-free subclass before / after compilation (mock.patch.object style), put
into binop_table / unop_table as callbacks (entries replaced before / after
compilation, the table object replaced), replaced by a second hook after
compilation, removed again after compilation (stock behaviour: no events,
plain output), and the interception sets are changed AFTER compilation (the
compiled template keeps the operators it was compiled with).  The interception
sets are in force (class or instance attribute) before the template is
compiled from text, from a loader, or as an included loader template.  The
hook in force when the template runs must log the reference's events and its
results must be the output; a hook that was replaced must stay silent.

Fifth part: environment FLAVOURS.  "Every sandboxed environment": the recording
sandbox is not only a direct SandboxedEnvironment subclass with every
class-level option at its default.  It is an ImmutableSandboxedEnvironment, a
sandbox that sets one of the documented class-level options of Environment
(code_generator_class to an own CodeGenerator subclass, to the documented base
class named explicitly, on the instance; context_class; template_class), or a
sandbox combined with NativeEnvironment (docs/nativetypes.rst "Sandboxed Native
Environment") in either base-class order, also with an own NativeCodeGenerator
subclass.  Text flavours render whole generated programs (log and output against
the reference); native flavours render one generated expression and the native
VALUE is compared.
"""
from __future__ import annotations

import json

from vt.gen import c20_gen as G

PID = "C20"
LEVEL = "exploration"
TECHNIQUE = ("recording+perturbing interception hooks vs reference interpreter over generated expression programs, "
             "per operator subset, per overlay family and per compile route (text, own AST, AST parsed by another "
             "environment, compile + from_code, compile_expression) and per way / moment of installing the hook "
             "(subclass, instance attribute, class attribute, operator-table callbacks; before / after compilation) "
             "and per flavour of sandboxed environment class (immutable, own code generator / context / template "
             "class, combined with NativeEnvironment)")
RULE = ("case = (subset of the 9 interceptable operators, generated program, sync/async); "
        "programs are random statement lists (output, set, if, for with/without filter, with, "
        "macro default + call) over fully parenthesised expression trees (constants, variables, "
        "7 binary + 2 unary operators, and/or/not, inline-if, comparisons, ~, filters with "
        "arguments, list literals); thorough: all 512 subsets, quick: 64 subsets (empty, full, "
        "9 singletons + seeded sample); a case is distinct by (subset, program tree, mode) and "
        "non-trivial when the reference sees >=2 operator applications; programs whose reference evaluation raises/overflows "
        "are discarded and not counted; overlay cases = (step pattern over a parent and one or two "
        "overlays [who loads first, overlay made before/after the parent loaded, two overlays, overlay "
        "of an overlay] x configuration of each member [none / the subset / full / random; set on the "
        "class, on the parent instance before loading, on the overlay instance after overlay()] x "
        "loader form [direct, include, extends] x cache size x generated program x sync/async), "
        "3 per (subset, round); counted as distinct when the members expect different hook logs; "
        "route cases = (subset, generated program, sync/async, compile route [text/compile+from_code, own "
        "AST through from_string or compile+from_code, AST of an overlay of the environment, AST parsed by an "
        "ordinary Environment (optimized / unoptimized / overlay) or by a SandboxedEnvironment without "
        "interception or by a recording sandbox intercepting the complementary operators, each through "
        "from_string(ast) and compile(ast)+from_code (also with name and filename), foreign AST after "
        "set_environment, compile_expression on a generated expression]): every third program of every "
        "(subset, round) is compiled a second time along one route, rotating over the 15 routes; "
        "installation cases = (non-empty subset, generated program, sync/async, installation [subclass methods, "
        "instance attribute before / after compilation, class attribute of a hook-free subclass before / after "
        "compilation, binop_table+unop_table entries replaced before / after compilation, table objects replaced "
        "after compilation, instance hook replaced by another after compilation, instance hook over a subclass "
        "hook after compilation, instance hook deleted after compilation, interception sets replaced by their "
        "complement after compilation] x interception sets on the class / on the instance x template from text / "
        "loader / included loader template), each on a fresh environment: 3 per (subset, round) rotating over the "
        "12 installations x 2 places; distinct and non-trivial when the reference sees >=1 intercepted application; "
        "flavour cases = (non-empty subset, generated program or - native flavours - one generated expression, "
        "sync/async, flavour of the sandboxed environment class [ImmutableSandboxedEnvironment; documented class-level "
        "options set by the subclass: code_generator_class = own CodeGenerator subclass / = the base CodeGenerator "
        "named explicitly / assigned on the instance, own context_class, own template_class; SandboxedEnvironment "
        "combined with NativeEnvironment in both base-class orders, and with an own NativeCodeGenerator subclass]): "
        "2 per (subset, round) rotating over the 9 flavours; distinct and non-trivial when the reference sees >=1 "
        "intercepted application")
LEVEL_TEXT = ("environment flavours: on every executed (subset, program, flavour) triple the hook of the "
              "flavoured sandbox logged exactly the reference's events and determined the output (native: value); "
              "hook installations: on every executed (subset, program, installation) triple the hook in force at "
              "render time logged exactly the reference's events and determined the output, and a replaced hook "
              "was never called; "
              "compile routes: the hook log and output (compile_expression: value) equal the reference on "
              "every executed (subset, program, route) triple, and the parsing environment's hook is never called; "
              "overlay families: every member's render of a loader template matches the member's own "
              "configuration on the member's own hook; "
              "hook log == expected event sequence and output == expected perturbed output on "
              "every executed (subset, program) pair; bounded to the generated expression/statement "
              "fragment and operand types int/float/bool/str")
ASSUMPTIONS = [
    "operands are int/float/bool/str; user-defined operand types with reflected operators are not generated",
    "the loop-filter cases put arithmetic either in the filter or in the body (not both), so lazy vs eager filtering order is not constrained",
    "macro defaults are exercised with one call directly after the definition",
    "overlay families: an environment's interception configuration is fixed before that environment loads its first template (class attribute, or instance attribute set on the parent before any load / on the overlay directly after overlay()); re-configuring an environment that already holds compiled templates is not generated",
    "compile routes: Environment.from_string and Environment.compile accept a nodes.Template (their signatures and docstrings: 'Compile a node or template source code'), Environment.parse is the documented way to obtain one (low-level API, meta API), and Template.from_code is documented; an AST is compiled once (a fresh parse per route); the environment that compiles and renders is the one whose interception configuration counts, whichever environment parsed the source; compile_expression is exercised on sync environments only",
    "hook installations: docs/sandbox.rst 'Operator Intercepting' - the intercepted sets instruct the COMPILER to replace the symbols with calls to call_binop / call_unop, whose default implementation uses binop_table / unop_table; hence (a) for a template compiled while an operator was intercepted every application is a call of the environment's call_binop / call_unop attribute looked up the ordinary Python way when the template runs (instance attribute first, then the class, whenever it was assigned), (b) the stock method calls the callback the table holds at that moment, (c) changing the sets after compilation does not change an already compiled template. The sets are always in force before the template is compiled; hooks on overlays and hooks installed while a render is in progress are not generated; the instance hooks call SandboxedEnvironment.call_binop / call_unop for the real result",
    "environment flavours: code_generator_class / context_class are documented attributes of Environment (docs/api.rst), template_class is the class from_string / get_template instantiate, and docs/nativetypes.rst documents combining SandboxedEnvironment with NativeEnvironment; the own generator / context / template classes are behaviour-preserving subclasses of the class the environment would use anyway; native flavours render ONE output expression ('if the result is a single node, its value is returned'), and when the reference value is a str the native result may be that str or its ast.literal_eval parse",
    "programs whose plain-Python evaluation raises (ZeroDivisionError, TypeError), exceeds 1e12, yields complex numbers, or sums floats with |sum (builtin sum compensates rounding) are discarded",
]
#: compile routes other than source text through from_string (table ROUTES below)
ROUTE_NAMES = [
    "text/compile+from_code", "own-ast/from_string", "own-ast/compile+from_code",
    "own-overlay-ast/from_string", "plain-env-ast/from_string", "plain-env-ast/compile+from_code",
    "plain-env-ast/compile-named+from_code", "plain-unoptimized-env-ast/from_string",
    "plain-overlay-env-ast/from_string", "sandbox-without-interception-ast/from_string",
    "sandbox-without-interception-ast/compile+from_code", "other-interception-ast/from_string",
    "other-interception-ast/compile+from_code", "plain-env-ast+set_environment/from_string",
    "compile_expression",
]
#: ways / moments of installing the recording hook (fourth part, run_install_case below)
INSTALL_NAMES = [
    "subclass",                              # control: methods defined in a subclass
    "instance-attribute-before-compile",     # env.call_binop = f, then compile
    "instance-attribute-after-compile",      # compile, then env.call_binop = f
    "class-attribute-before-compile",        # Env.call_binop = f on a hook-free subclass, then compile
    "class-attribute-after-compile",         # compile, then Env.call_binop = f (mock.patch.object style)
    "table-entries-before-compile",          # env.binop_table[op] = cb for every op, then compile
    "table-entries-after-compile",           # compile, then replace the table entries
    "table-object-after-compile",            # compile, then env.binop_table = {new dict of callbacks}
    "instance-hook-replaced-after-compile",  # hook A on the instance, compile, hook B on the instance
    "subclass-hook-then-instance-after-compile",   # subclass hook A, compile, instance hook B
    "instance-hook-removed-after-compile",   # hook on the instance, compile, del env.call_binop: stock again
    "intercepted-sets-changed-after-compile",  # subclass hook; compile under S, then the sets say the complement
]
#: flavours of the sandboxed environment CLASS (fifth part, make_flavour_env below)
FLAVOUR_NAMES = [
    "immutable-sandbox",                     # ImmutableSandboxedEnvironment subclass
    "own-code-generator",                    # code_generator_class = harmless CodeGenerator subclass
    "base-code-generator-named-explicitly",  # code_generator_class = jinja2.compiler.CodeGenerator in the class body
    "code-generator-on-instance",            # env.code_generator_class = own subclass, before compiling
    "own-context-class",                     # context_class = pass-through Context subclass
    "own-template-class",                    # template_class = Template subclass
    "sandbox+native",                        # class (SandboxedEnvironment, NativeEnvironment), as in docs/nativetypes.rst
    "native+sandbox",                        # class (NativeEnvironment, SandboxedEnvironment)
    "sandbox+native-own-generator",          # the documented combination with an own NativeCodeGenerator subclass
]
NATIVE_FLAVOURS = [f for f in FLAVOUR_NAMES if "native" in f]
NSHARDS = {"quick": 16, "thorough": 16}
BUDGET_S = {"quick": 12, "thorough": 240}
FLOORS = {
    "quick": {"evaluations": 3000, "distinct": 2000,
              "counters": {"hook_events": 6000, "subsets": 64, "events_compared": 6000,
                           "unintercepted_applications": 6000, "async_renders": 400,
                           "overlay_cases": 250, "overlay_renders": 900,
                           "overlay_discriminating_cases": 180, "overlay_events_compared": 1500,
                           "route_cases": 250, "route_events_compared": 500,
                           "route_foreign_ast_cases": 150, "route_foreign_ast_events_compared": 350,
                           **{"route_cases:" + r: 12 for r in ROUTE_NAMES},
                           "install_cases": 500, "install_events_compared": 1200,
                           "install_changed_after_compile_cases": 350, "install_async_cases": 100,
                           "install_sets_on:class": 250, "install_sets_on:instance": 250,
                           "install_via:from_string": 160, "install_via:loader": 160,
                           "install_via:loader-include": 160,
                           **{"install_nontrivial_cases:" + i: 25 for i in INSTALL_NAMES},
                           "flavour_cases": 200, "flavour_events_compared": 350,
                           "flavour_native_values_compared": 70,
                           **{"flavour_nontrivial_cases:" + f: 9 for f in FLAVOUR_NAMES}}},
    "thorough": {"evaluations": 80000, "distinct": 60000,
                 "counters": {"hook_events": 200000, "subsets": 512, "events_compared": 200000,
                              "unintercepted_applications": 200000, "async_renders": 12000,
                              "overlay_cases": 10000, "overlay_renders": 36000,
                              "overlay_discriminating_cases": 7000, "overlay_events_compared": 50000,
                              "route_cases": 6000, "route_events_compared": 12000,
                              "route_foreign_ast_cases": 3700,
                              "route_foreign_ast_events_compared": 8000,
                              **{"route_cases:" + r: 300 for r in ROUTE_NAMES},
                              "install_cases": 9000, "install_events_compared": 23000,
                              "install_changed_after_compile_cases": 6000, "install_async_cases": 1800,
                              "install_sets_on:class": 4500, "install_sets_on:instance": 4500,
                              "install_via:from_string": 3000, "install_via:loader": 3000,
                              "install_via:loader-include": 3000,
                              **{"install_nontrivial_cases:" + i: 550 for i in INSTALL_NAMES},
                              "flavour_cases": 3600, "flavour_events_compared": 6500,
                              "flavour_native_values_compared": 1300,
                              **{"flavour_nontrivial_cases:" + f: 180 for f in FLAVOUR_NAMES}}},
}

ALL_OPS = [("b", o) for o in G.BINOPS] + [("u", o) for o in G.UNOPS]


def all_subsets():
    out = []
    for mask in range(512):
        b = [G.BINOPS[i] for i in range(7) if mask >> i & 1]
        u = [G.UNOPS[i] for i in range(2) if mask >> (7 + i) & 1]
        out.append((mask, b, u))
    return out


def quick_subsets(rng):
    subs = all_subsets()
    must = [0, 511] + [1 << i for i in range(9)]
    rest = [m for m in range(512) if m not in must]
    rng.shuffle(rest)
    pick = must + rest[:64 - len(must)]
    return [subs[m] for m in pick]


_env_cache = {}


def make_env(binops, unops, is_async):
    from jinja2.sandbox import SandboxedEnvironment

    key = (tuple(binops), tuple(unops), is_async)
    if key in _env_cache:
        return _env_cache[key]

    class RecEnv(SandboxedEnvironment):
        intercepted_binops = frozenset(binops)
        intercepted_unops = frozenset(unops)

        def call_binop(self, context, operator, left, right):
            self.vt_log.append(["b", operator, G.tag(left), G.tag(right)])
            rv = super().call_binop(context, operator, left, right)
            return G.perturb(rv)

        def call_unop(self, context, operator, arg):
            self.vt_log.append(["u", operator, G.tag(arg)])
            rv = super().call_unop(context, operator, arg)
            return G.perturb(rv)

    env = RecEnv(enable_async=is_async)
    env.vt_log = []
    if len(_env_cache) > 64:
        _env_cache.clear()
    _env_cache[key] = env
    return env


# ----------------------------------------------------------- compile routes
# Third part: the SAME program reaches the intercepting sandbox along every
# documented compile route; the hook log and the output must be the reference's
# whatever the route.  parser environment -> how the AST / code gets compiled.
_foreign_envs = {}


def foreign_env(kind, env, binops, unops, is_async):
    """The environment that PARSES the source for the foreign-AST routes."""
    import jinja2
    from jinja2.sandbox import SandboxedEnvironment

    if kind == "self":
        return env
    if kind == "self-overlay":
        return env.overlay()
    if kind == "other-interception":
        # a recording sandbox that intercepts exactly the operators `env` does not
        other = make_env([o for o in G.BINOPS if o not in binops],
                         [o for o in G.UNOPS if o not in unops], is_async)
        other.vt_log = []
        return other
    key = (kind, is_async)
    if key not in _foreign_envs:
        if kind == "plain":
            e = jinja2.Environment(enable_async=is_async)
        elif kind == "plain-unoptimized":
            e = jinja2.Environment(enable_async=is_async, optimized=False)
        elif kind == "plain-overlay":
            e = jinja2.Environment(enable_async=is_async).overlay()
        elif kind == "sandbox-without-interception":
            e = SandboxedEnvironment(enable_async=is_async)
        else:
            raise AssertionError(kind)
        _foreign_envs[key] = e
    return _foreign_envs[key]


def _from_code(env, code):
    return env.template_class.from_code(env, code, env.make_globals(None))


#: route -> (parser environment kind or None for source text, builder(env, text or AST) -> Template)
ROUTES = {
    "text/from_string": (None, lambda env, x: env.from_string(x)),
    "text/compile+from_code": (None, lambda env, x: _from_code(env, env.compile(x))),
    "own-ast/from_string": ("self", lambda env, x: env.from_string(x)),
    "own-ast/compile+from_code": ("self", lambda env, x: _from_code(env, env.compile(x))),
    "own-overlay-ast/from_string": ("self-overlay", lambda env, x: env.from_string(x)),
    "plain-env-ast/from_string": ("plain", lambda env, x: env.from_string(x)),
    "plain-env-ast/compile+from_code": ("plain", lambda env, x: _from_code(env, env.compile(x))),
    "plain-env-ast/compile-named+from_code":
        ("plain", lambda env, x: _from_code(env, env.compile(x, "vt_name", "vt_name.html"))),
    "plain-unoptimized-env-ast/from_string": ("plain-unoptimized", lambda env, x: env.from_string(x)),
    "plain-overlay-env-ast/from_string": ("plain-overlay", lambda env, x: env.from_string(x)),
    "sandbox-without-interception-ast/from_string":
        ("sandbox-without-interception", lambda env, x: env.from_string(x)),
    "sandbox-without-interception-ast/compile+from_code":
        ("sandbox-without-interception", lambda env, x: _from_code(env, env.compile(x))),
    "other-interception-ast/from_string": ("other-interception", lambda env, x: env.from_string(x)),
    "other-interception-ast/compile+from_code":
        ("other-interception", lambda env, x: _from_code(env, env.compile(x))),
    "plain-env-ast+set_environment/from_string": ("plain", None),     # (special: rebinds the nodes first)
    "compile_expression": (None, None),                                # (special: first output expression)
}
ALT_ROUTES = [r for r in ROUTES if r != "text/from_string"]
assert ALT_ROUTES == ROUTE_NAMES
FOREIGN_ROUTES = [r for r in ROUTES if ROUTES[r][0] not in (None, "self", "self-overlay")
                  and "set_environment" not in r]


def build_by_route(route, env, source, binops, unops, is_async):
    """-> (template, parser environment or None)"""
    pkind, builder = ROUTES[route]
    if pkind is None:
        return builder(env, source), None
    penv = foreign_env(pkind, env, binops, unops, is_async)
    ast = penv.parse(source)
    if builder is None:
        ast.set_environment(env)
        return env.from_string(ast), penv
    return builder(env, ast), penv


def run_expression_route(ctx, case, count=True):
    """compile_expression: the first output expression of the program evaluated
    as an expression object; hook log and VALUE against the reference."""
    binops, unops, prog = case["binops"], case["unops"], case["prog"]
    exprs = [s[1] for s in prog if s[0] == "out"]
    if not exprs or prog[0][0] != "out":
        return False
    expr = prog[0][1]
    ref = G.Ref(binops, unops)
    try:
        exp_val = ref.ev(expr, dict(G.CONTEXT))
    except G.Discard:
        if count:
            ctx.count("discarded_programs")
        return False
    source = G.src(expr)
    env = make_env(binops, unops, False)
    env.vt_log = log = []
    try:
        val = env.compile_expression(source)(**G.CONTEXT)
        out, err = G.tag(val), None
    except Exception as e:
        out, err = None, f"{type(e).__name__}: {e}"
    if count:
        ctx.ev()
        ctx.count("route_cases")
        ctx.count("route_cases:compile_expression")
        ctx.count("route_events_compared", len(ref.log))
        ctx.count("hook_events", len(log))
        ctx.count("events_compared", len(ref.log))
        ctx.count("unintercepted_applications", sum(ref.applied.values()) - len(ref.log))
        if sum(ref.applied.values()) >= 2:
            ctx.dist(["route", "compile_expression", binops, unops, expr])
    case = dict(case, source=source)
    compare(ctx, "route:compile_expression:", "compile_expression: ", log, ref.log, out,
            G.tag(exp_val), err, binops, unops, source, case)
    return True


def run_case(ctx, case, count=True):
    """Returns True when the case was within the modelled fragment."""
    binops, unops, prog, is_async = case["binops"], case["unops"], case["prog"], case["async"]
    route = case.get("route", "text/from_string")
    if route == "compile_expression":
        return run_expression_route(ctx, case, count)
    ref = G.Ref(binops, unops)
    try:
        exp_out = ref.run(prog, dict(G.CONTEXT))
    except G.Discard:
        if count:
            ctx.count("discarded_programs")
        return False
    source = G.stmts_src(prog)
    env = make_env(binops, unops, is_async)
    env.vt_log = log = []
    if route != "text/from_string":
        penv = None
        try:
            tmpl, penv = build_by_route(route, env, source, binops, unops, is_async)
            out = tmpl.render(**G.CONTEXT)
            err = None
        except Exception as e:
            out, err = None, f"{type(e).__name__}: {e}"
        if count:
            ctx.ev()
            ctx.count("route_cases")
            ctx.count("route_cases:" + route)
            ctx.count("route_events_compared", len(ref.log))
            # (the same observations as on the text route: events the hook saw, events
            # compared with the reference, applications that must NOT reach the hook)
            ctx.count("hook_events", len(log))
            ctx.count("events_compared", len(ref.log))
            ctx.count("unintercepted_applications", sum(ref.applied.values()) - len(ref.log))
            if route in FOREIGN_ROUTES:
                ctx.count("route_foreign_ast_cases")
                ctx.count("route_foreign_ast_events_compared", len(ref.log))
            if is_async:
                ctx.count("async_renders")
                ctx.count("route_async_cases")
            if sum(ref.applied.values()) >= 2:
                ctx.dist(["route", route, binops, unops, prog, is_async])
        case = dict(case, source=source)
        who = f"compile route {route}: "
        foreign_log = getattr(penv, "vt_log", None) if penv is not None and penv is not env else None
        if foreign_log and foreign_log is not log:
            ctx.violation(f"route:{route}:hook-of-parsing-environment",
                          who + f"the hook of the environment that only parsed the source was called: "
                          f"{foreign_log[:4]}; own log {log[:6]}; source={source}", case)
            return True
        compare(ctx, f"route:{route}:", who, log, ref.log, out, exp_out, err, binops, unops, source, case)
        return True
    try:
        out = env.from_string(source).render(**G.CONTEXT)
        err = None
    except Exception as e:  # the reference did not raise, so neither may the engine
        out = None
        err = f"{type(e).__name__}: {e}"
    ctx.ev()
    ctx.count("hook_events", len(log))
    ctx.count("events_compared", len(ref.log))
    napplied = sum(ref.applied.values())
    ctx.count("unintercepted_applications", napplied - len(ref.log))
    if is_async:
        ctx.count("async_renders")
    for k, v in ref.applied.items():
        ctx.count("applied:" + k, v)
    for e in ref.log:
        ctx.count("expected_event:" + e[0] + e[1])
    if napplied >= 2:
        ctx.dist([binops, unops, prog, is_async])
    case = dict(case, source=source)
    compare(ctx, "", "", log, ref.log, out, exp_out, err, binops, unops, source, case)
    return True


def compare(ctx, prefix, who, log, ref_log, out, exp_out, err, binops, unops, source, case):
    """Judges one render: hook log vs expected event sequence, output vs
    expected perturbed output.  -> True when everything agrees."""
    if err is not None:
        ctx.violation(prefix + "render-raised:" + err.split(":")[0],
                      f"{who}reference evaluates without error but render raised {err}; source={source}",
                      case)
        return False
    if log != ref_log:
        # mechanism key: first diverging event's operator and kind of divergence
        i = 0
        while i < len(log) and i < len(ref_log) and log[i] == ref_log[i]:
            i += 1
        got = log[i] if i < len(log) else None
        want = ref_log[i] if i < len(ref_log) else None
        if want is None:
            kind = ("unexpected-event:" + got[0] + got[1]
                    + (":not-intercepted" if got[1] not in (binops if got[0] == "b" else unops) else ""))
        elif got is None:
            kind = "missing-event:" + want[0] + want[1]
        elif got[:2] == want[:2] and sorted(got[2:]) == sorted(want[2:]):
            kind = "operands-swapped:" + want[0] + want[1]
        elif got[:2] == want[:2]:
            kind = "operands-differ:" + want[0] + want[1]
        else:
            kind = "missing-event:" + want[0] + want[1]
        ctx.violation(prefix + kind, f"{who}event #{i}: hook saw {got}, expected {want}; full log {log[:12]} "
                                     f"expected {ref_log[:12]}; source={source}", case)
        return False
    if out != exp_out:
        ctx.violation(prefix + "output-differs-from-hook-result",
                      f"{who}events equal but output {out!r} != expected {exp_out!r}; source={source}",
                      case)
        return False
    return True


# ------------------------------------------------------- overlay sequences
# Templates that come from a LOADER (and therefore from the template cache) in
# a family of environments made with Environment.overlay(): each environment
# of the family has its own interception configuration (class attribute,
# attribute set on the parent instance before anything is loaded, attribute set
# on the overlay instance right after it was created) and every render through
# an environment must be routed through THAT environment's hook according to
# THAT environment's configuration, whatever its relatives have loaded before.
OVERLAY_PATTERNS = {
    # steps: ["overlay", new, source] / ["render", who]; configuration is applied
    # to an environment when it is created, before it loads anything
    "parent_loads_first": [["render", "P"], ["overlay", "O1", "P"], ["render", "O1"],
                           ["render", "P"], ["render", "O1"]],
    "overlay_loads_first": [["overlay", "O1", "P"], ["render", "O1"], ["render", "P"],
                            ["render", "O1"]],
    "overlay_made_before_parent_load": [["overlay", "O1", "P"], ["render", "P"], ["render", "O1"],
                                        ["render", "P"]],
    "two_overlays": [["render", "P"], ["overlay", "O1", "P"], ["overlay", "O2", "P"],
                     ["render", "O1"], ["render", "O2"], ["render", "P"]],
    "overlay_of_overlay": [["render", "P"], ["overlay", "O1", "P"], ["render", "O1"],
                           ["overlay", "O2", "O1"], ["render", "O2"], ["render", "O1"]],
    "overlay_after_both_loaded": [["render", "P"], ["overlay", "O1", "P"], ["render", "O1"],
                                  ["overlay", "O2", "P"], ["render", "O2"], ["render", "P"]],
}
OVERLAY_VIA = {
    "direct": lambda src: {"main": src},
    "include": lambda src: {"main": "{% include 'inner' %}", "inner": src},
    "extends": lambda src: {"main": "{% extends 'base' %}{% block c %}" + src + "{% endblock %}",
                            "base": "{% block c %}{% endblock %}"},
}
OVERLAY_CACHE_SIZES = [400, -1, 50]


def make_loader_env(binops, unops, is_async, how, templates, cache_size):
    from jinja2 import DictLoader
    from jinja2.sandbox import SandboxedEnvironment

    class RecEnv(SandboxedEnvironment):
        def call_binop(self, context, operator, left, right):
            self.vt_log.append(["b", operator, G.tag(left), G.tag(right)])
            rv = super().call_binop(context, operator, left, right)
            return G.perturb(rv)

        def call_unop(self, context, operator, arg):
            self.vt_log.append(["u", operator, G.tag(arg)])
            rv = super().call_unop(context, operator, arg)
            return G.perturb(rv)

    if how == "class":
        RecEnv.intercepted_binops = frozenset(binops)
        RecEnv.intercepted_unops = frozenset(unops)
    env = RecEnv(enable_async=is_async, loader=DictLoader(dict(templates)), cache_size=cache_size)
    if how != "class":
        env.intercepted_binops = frozenset(binops)
        env.intercepted_unops = frozenset(unops)
    env.vt_log = []
    return env


def run_overlay_case(ctx, case, count=True):
    """One family of environments, one loader template, a fixed step pattern.
    case["cfg"][who] = [binops, unops] or None (None: the overlay keeps what
    it inherited from the environment it was made from)."""
    prog, is_async, cfgs = case["prog"], case["async"], case["cfg"]
    source = G.stmts_src(prog)
    templates = OVERLAY_VIA[case["via"]](source)
    refs = {}

    def expected(b, u):
        k = (tuple(b), tuple(u))
        if k not in refs:
            ref = G.Ref(b, u)
            refs[k] = (ref.run(prog, dict(G.CONTEXT)), ref.log)
        return refs[k]

    envs, eff = {}, {}
    eff["P"] = cfgs["P"]
    try:
        expected(*eff["P"])
    except G.Discard:
        if count:
            ctx.count("discarded_programs")
        return False
    envs["P"] = make_loader_env(eff["P"][0], eff["P"][1], is_async, case["how"], templates,
                                case["cache_size"])
    nrender = 0
    trace = []
    discriminating = False
    ok = True
    for step in OVERLAY_PATTERNS[case["pattern"]]:
        if step[0] == "overlay":
            _, new, src_name = step
            ov = envs[src_name].overlay()
            eff[new] = eff[src_name]
            if cfgs.get(new) is not None:
                ov.intercepted_binops = frozenset(cfgs[new][0])
                ov.intercepted_unops = frozenset(cfgs[new][1])
                eff[new] = cfgs[new]
            ov.vt_log = []
            envs[new] = ov
            trace.append(step + [eff[new]])
            continue
        who = step[1]
        env = envs[who]
        b, u = eff[who]
        try:
            exp_out, exp_log = expected(b, u)
        except G.Discard:
            # (perturbed intermediate results can leave the modelled fragment
            # under one configuration only)
            if count:
                ctx.count("discarded_programs")
            return False
        for e in envs.values():
            e.vt_log = []
        log = env.vt_log
        try:
            out = env.get_template("main").render(**G.CONTEXT)
            err = None
        except Exception as e:
            out, err = None, f"{type(e).__name__}: {e}"
        nrender += 1
        trace.append(step)
        others = {n: e.vt_log for n, e in envs.items() if e is not env and e.vt_log}
        full = dict(case, overlay=True, source=source, templates=templates, failing_step=len(trace))
        whotext = (f"overlay family, pattern {case['pattern']} (configured on {case['how']}, via {case['via']}, "
                   f"cache_size={case['cache_size']}, async={is_async}), steps so far {trace}: render through "
                   f"{who} whose configuration is binops={b} unops={u}: ")
        if others:
            ok = False
            ctx.violation(f"overlay:hook-of-other-environment:render-through={'parent' if who == 'P' else 'overlay'}",
                          whotext + f"the hook of {sorted(others)} was called instead: "
                          f"{[v[:4] for v in others.values()]}; own log {log[:6]}", full)
        elif not compare(ctx, "overlay:" + ("parent:" if who == "P" else "overlay:"), whotext, log,
                         exp_log, out, exp_out, err, b, u, source, full):
            ok = False
        if count:
            ctx.count("overlay_hook_events", len(log))
            ctx.count("overlay_events_compared", len(exp_log))
        if not ok:
            break
    logs = {json.dumps(expected(*c)[1]) for c in eff.values()}
    discriminating = len(logs) > 1
    if count:
        ctx.ev(nrender)
        ctx.count("overlay_cases")
        ctx.count("overlay_renders", nrender)
        ctx.count("overlay_pattern:" + case["pattern"])
        ctx.count("overlay_via:" + case["via"])
        if is_async:
            ctx.count("async_renders", nrender)
        if discriminating:
            # the environments of the family expect different hook logs for this program
            ctx.count("overlay_discriminating_cases")
            ctx.dist(["ov", case["pattern"], case["cfg"], case["how"], case["via"],
                      case["cache_size"], prog, is_async])
    return True


def overlay_case_for(rng, b, u, prog, j):
    """Configurations around the current subset: the parent without interception
    and the overlay with the subset, the reverse, or two different subsets."""
    def rand_subset():
        return ([o for o in G.BINOPS if rng.random() < 0.5], [o for o in G.UNOPS if rng.random() < 0.5])
    full = (list(G.BINOPS), list(G.UNOPS))
    mode = rng.randrange(4)
    if mode == 0:
        p, o1 = ([], []), ((b, u) if (b or u) else full)
    elif mode == 1:
        p, o1 = ((b, u) if (b or u) else full), ([], [])
    elif mode == 2:
        p, o1 = (b, u), rand_subset()
    else:
        p, o1 = rand_subset(), (b, u)
    o2 = rng.choice([None, ([], []), full, rand_subset()])
    pattern = list(OVERLAY_PATTERNS)[rng.randrange(len(OVERLAY_PATTERNS))]
    return {"pattern": pattern, "cfg": {"P": [list(p[0]), list(p[1])], "O1": [list(o1[0]), list(o1[1])],
                                        "O2": None if o2 is None else [list(o2[0]), list(o2[1])]},
            "how": rng.choice(["class", "instance"]), "via": rng.choice(list(OVERLAY_VIA)),
            "cache_size": rng.choice(OVERLAY_CACHE_SIZES), "prog": prog, "async": j % 3 == 2}


# ------------------------------------------------------ hook installations
# Fourth part: HOW the recording hook gets onto the environment, and WHEN
# relative to the compilation of the template.  docs/sandbox.rst "Operator
# Intercepting": intercepted_binops / intercepted_unops tell the COMPILER to
# "replace the symbols with calls to call_binop / call_unop"; "the default
# implementation of those methods will use binop_table / unop_table".  So for a
# template compiled while an operator was intercepted, every application is a
# call of the environment's call_binop / call_unop METHOD, looked up the
# ordinary Python way when the template runs (instance attribute, then class),
# and the stock method calls whatever callback the table holds at that moment.
INSTALLS = INSTALL_NAMES
INSTALL_SETS_ON = ["class", "instance"]
INSTALL_VIA = ["from_string", "loader", "loader-include"]


def run_install_case(ctx, case, count=True):
    """One fresh environment; the interception sets are in force BEFORE the
    template is compiled (class attribute or instance attribute), the recording
    hook is installed as case['install'] says.  Expected: the reference's event
    log on the hook that is installed when the template RUNS, nothing on a hook
    that was replaced, and the perturbed output (stock hook: plain output)."""
    from jinja2 import DictLoader
    from jinja2.sandbox import SandboxedEnvironment

    binops, unops, prog, is_async = case["binops"], case["unops"], case["prog"], case["async"]
    install, sets_on, via = case["install"], case["sets_on"], case["via"]
    hooked = install != "instance-hook-removed-after-compile"
    ref = G.Ref(binops, unops) if hooked else G.Ref([], [])
    try:
        exp_out = ref.run(prog, dict(G.CONTEXT))
        if not hooked:
            # (the program must be inside the fragment under interception too)
            probe = G.Ref(binops, unops)
            probe.run(prog, dict(G.CONTEXT))
            n_intercepted = len(probe.log)
        else:
            n_intercepted = len(ref.log)
    except G.Discard:
        if count:
            ctx.count("discarded_programs")
        return False
    source = G.stmts_src(prog)
    log, stale = [], []

    def rec_methods(target):
        def call_binop(self, context, operator, left, right):
            target.append(["b", operator, G.tag(left), G.tag(right)])
            return G.perturb(SandboxedEnvironment.call_binop(self, context, operator, left, right))

        def call_unop(self, context, operator, arg):
            target.append(["u", operator, G.tag(arg)])
            return G.perturb(SandboxedEnvironment.call_unop(self, context, operator, arg))
        return call_binop, call_unop

    def on_instance(env, target):
        cb, cu = rec_methods(target)
        env.call_binop = lambda context, operator, left, right: cb(env, context, operator, left, right)
        env.call_unop = lambda context, operator, arg: cu(env, context, operator, arg)

    def on_class(cls, target):
        cls.call_binop, cls.call_unop = rec_methods(target)

    def table_callbacks(env, target):
        def mk_b(op, orig):
            def cb(left, right):
                target.append(["b", op, G.tag(left), G.tag(right)])
                return G.perturb(orig(left, right))
            return cb

        def mk_u(op, orig):
            def cb(arg):
                target.append(["u", op, G.tag(arg)])
                return G.perturb(orig(arg))
            return cb
        return ({op: mk_b(op, f) for op, f in env.binop_table.items()},
                {op: mk_u(op, f) for op, f in env.unop_table.items()})

    class Env(SandboxedEnvironment):
        pass
    if sets_on == "class":
        Env.intercepted_binops = frozenset(binops)
        Env.intercepted_unops = frozenset(unops)
    if install in ("subclass", "subclass-hook-then-instance-after-compile",
                   "intercepted-sets-changed-after-compile"):
        # (methods of the class body, as in the first part)
        on_class(Env, stale if install.startswith("subclass-hook-then") else log)
    templates = {"main": source} if via == "loader" else \
        {"main": "{% include 'inner' %}", "inner": source} if via == "loader-include" else {}
    env = Env(enable_async=is_async, loader=DictLoader(templates))
    if sets_on == "instance":
        env.intercepted_binops = frozenset(binops)
        env.intercepted_unops = frozenset(unops)
    err = out = None
    try:
        # ---- before compilation
        if install == "instance-attribute-before-compile":
            on_instance(env, log)
        elif install == "class-attribute-before-compile":
            on_class(Env, log)
        elif install == "table-entries-before-compile":
            tb, tu = table_callbacks(env, log)
            env.binop_table.update(tb)
            env.unop_table.update(tu)
        elif install in ("instance-hook-replaced-after-compile", "instance-hook-removed-after-compile"):
            on_instance(env, stale)
        # ---- compilation
        if via == "from_string":
            tmpl = env.from_string(source)
        else:
            tmpl = env.get_template("main")
            if via == "loader-include":
                env.get_template("inner")
        # ---- after compilation
        if install in ("instance-attribute-after-compile", "instance-hook-replaced-after-compile",
                       "subclass-hook-then-instance-after-compile"):
            on_instance(env, log)
        elif install == "class-attribute-after-compile":
            on_class(Env, log)
        elif install == "table-entries-after-compile":
            tb, tu = table_callbacks(env, log)
            env.binop_table.update(tb)
            env.unop_table.update(tu)
        elif install == "table-object-after-compile":
            env.binop_table, env.unop_table = table_callbacks(env, log)
        elif install == "instance-hook-removed-after-compile":
            del env.call_binop
            del env.call_unop
        elif install == "intercepted-sets-changed-after-compile":
            other_b = frozenset(o for o in G.BINOPS if o not in binops)
            other_u = frozenset(o for o in G.UNOPS if o not in unops)
            if sets_on == "class":
                Env.intercepted_binops, Env.intercepted_unops = other_b, other_u
            else:
                env.intercepted_binops, env.intercepted_unops = other_b, other_u
        out = tmpl.render(**G.CONTEXT)
    except Exception as e:
        out, err = None, f"{type(e).__name__}: {e}"
    if count:
        ctx.ev()
        ctx.count("install_cases")
        ctx.count("install_cases:" + install)
        ctx.count("install_sets_on:" + sets_on)
        ctx.count("install_via:" + via)
        ctx.count("install_events_compared", len(ref.log))
        ctx.count("install_intercepted_applications", n_intercepted)
        ctx.count("hook_events", len(log))
        ctx.count("events_compared", len(ref.log))
        ctx.count("unintercepted_applications", sum(ref.applied.values()) - len(ref.log))
        if install.endswith("after-compile"):
            ctx.count("install_changed_after_compile_cases")
        if is_async:
            ctx.count("async_renders")
            ctx.count("install_async_cases")
        if n_intercepted >= 1:
            ctx.count("install_nontrivial_cases:" + install)
            ctx.dist(["install", install, sets_on, via, binops, unops, prog, is_async])
    full = dict(case, installed=True, source=source)
    who = (f"hook installation {install} (interception sets on the {sets_on}, template via {via}, "
           f"async={is_async}): ")
    if stale:
        ctx.violation(f"install:{install}:replaced-hook-called",
                      who + f"the hook that was replaced before the render was called: {stale[:4]}; log of the "
                      f"hook in force {log[:6]}; source={source}", full)
        return True
    compare(ctx, f"install:{install}:", who, log, ref.log, out, exp_out, err, binops, unops, source, full)
    return True


def install_case_for(rng, b, u, prog, n):
    return {"binops": b, "unops": u, "prog": prog, "async": n % 5 == 4,
            "install": INSTALLS[n % len(INSTALLS)], "sets_on": INSTALL_SETS_ON[(n // len(INSTALLS)) % 2],
            "via": rng.choice(INSTALL_VIA)}


# ------------------------------------------------------ environment flavours
# Fifth part: WHICH sandboxed environment class intercepts.  The property
# quantifies over every sandboxed environment; docs/api.rst documents the
# class-level options code_generator_class / context_class, docs/nativetypes.rst
# the combination with NativeEnvironment, docs/sandbox.rst the immutable sandbox.
_flavour_cache = {}


def make_flavour_env(flavour, binops, unops, is_async):
    """A fresh recording sandbox of the given flavour (own class per call)."""
    from jinja2 import Template
    from jinja2.compiler import CodeGenerator
    from jinja2.nativetypes import NativeCodeGenerator, NativeEnvironment
    from jinja2.runtime import Context
    from jinja2.sandbox import ImmutableSandboxedEnvironment, SandboxedEnvironment

    key = (flavour, tuple(binops), tuple(unops), is_async)
    if key in _flavour_cache:
        return _flavour_cache[key]

    class Hooks:
        intercepted_binops = frozenset(binops)
        intercepted_unops = frozenset(unops)

        def call_binop(self, context, operator, left, right):
            self.vt_log.append(["b", operator, G.tag(left), G.tag(right)])
            rv = super().call_binop(context, operator, left, right)
            return G.perturb(rv)

        def call_unop(self, context, operator, arg):
            self.vt_log.append(["u", operator, G.tag(arg)])
            rv = super().call_unop(context, operator, arg)
            return G.perturb(rv)

    def commenting(base):
        # behaviour-preserving generator: one more comment line per compiled template
        class VtGenerator(base):
            def visit_Template(self, node, frame=None):
                self.writeline("# compiled by a harness-side generator subclass")
                return super().visit_Template(node, frame)
        return VtGenerator

    on_instance = None
    if flavour == "immutable-sandbox":
        class Env(Hooks, ImmutableSandboxedEnvironment):
            pass
    elif flavour == "own-code-generator":
        class Env(Hooks, SandboxedEnvironment):
            code_generator_class = commenting(CodeGenerator)
    elif flavour == "base-code-generator-named-explicitly":
        class Env(Hooks, SandboxedEnvironment):
            code_generator_class = CodeGenerator
    elif flavour == "code-generator-on-instance":
        class Env(Hooks, SandboxedEnvironment):
            pass
        on_instance = commenting(CodeGenerator)
    elif flavour == "own-context-class":
        class VtContext(Context):
            def resolve_or_missing(self, key):
                return super().resolve_or_missing(key)

        class Env(Hooks, SandboxedEnvironment):
            context_class = VtContext
    elif flavour == "own-template-class":
        class VtTemplate(Template):
            pass

        class Env(Hooks, SandboxedEnvironment):
            template_class = VtTemplate
    elif flavour == "sandbox+native":
        class Env(Hooks, SandboxedEnvironment, NativeEnvironment):
            pass
    elif flavour == "native+sandbox":
        class Env(Hooks, NativeEnvironment, SandboxedEnvironment):
            pass
    elif flavour == "sandbox+native-own-generator":
        class Env(Hooks, SandboxedEnvironment, NativeEnvironment):
            code_generator_class = commenting(NativeCodeGenerator)
    else:
        raise AssertionError(flavour)
    env = Env(enable_async=is_async)
    if on_instance is not None:
        env.code_generator_class = on_instance
    env.vt_log = []
    if len(_flavour_cache) > 64:
        _flavour_cache.clear()
    _flavour_cache[key] = env
    return env


def run_flavour_case(ctx, case, count=True):
    """Text flavours: the whole program, log and output against the reference.
    Native flavours: case['prog'] is one output statement; log and native VALUE."""
    import ast

    binops, unops, prog, is_async = case["binops"], case["unops"], case["prog"], case["async"]
    flavour = case["flavour"]
    native = flavour in NATIVE_FLAVOURS
    ref = G.Ref(binops, unops)
    try:
        if native:
            exp_val = ref.ev(prog[0][1], dict(G.CONTEXT))
            exp_out = G.tag(exp_val)
        else:
            exp_out = ref.run(prog, dict(G.CONTEXT))
    except G.Discard:
        if count:
            ctx.count("discarded_programs")
        return False
    # (native: exactly one output node, nothing around it)
    source = "{{ " + G.src(prog[0][1]) + " }}" if native else G.stmts_src(prog)
    err = out = None
    log = []
    try:
        env = make_flavour_env(flavour, binops, unops, is_async)
        env.vt_log = log
        val = env.from_string(source).render(**G.CONTEXT)
        if native:
            out = G.tag(val)
            if isinstance(exp_val, str) and out != exp_out:
                # documented: a str result is returned as is or as its literal_eval parse
                try:
                    if G.tag(ast.literal_eval(exp_val)) == out:
                        out = exp_out
                except Exception:
                    pass
        else:
            out = val
    except Exception as e:
        out, err = None, f"{type(e).__name__}: {e}"
    if count:
        ctx.ev()
        ctx.count("flavour_cases")
        ctx.count("flavour_cases:" + flavour)
        ctx.count("flavour_events_compared", len(ref.log))
        ctx.count("hook_events", len(log))
        ctx.count("events_compared", len(ref.log))
        ctx.count("unintercepted_applications", sum(ref.applied.values()) - len(ref.log))
        if native:
            ctx.count("flavour_native_values_compared")
        if is_async:
            ctx.count("async_renders")
            ctx.count("flavour_async_cases")
        if len(ref.log) >= 1:
            ctx.count("flavour_nontrivial_cases:" + flavour)
            ctx.dist(["flavour", flavour, binops, unops, prog, is_async])
    full = dict(case, flavoured=True, source=source)
    who = f"sandboxed environment flavour {flavour} (async={is_async}): "
    compare(ctx, f"flavour:{flavour}:", who, log, ref.log, out, exp_out, err, binops, unops, source, full)
    return True


def flavour_case_for(gen, rng, b, u, n):
    flavour = FLAVOUR_NAMES[n % len(FLAVOUR_NAMES)]
    if flavour in NATIVE_FLAVOURS:
        prog = [["out", gen.any(rng.randint(1, 4), list(G.NUM_VARS))]]
    else:
        prog = gen.program()
    return {"binops": b, "unops": u, "prog": prog, "async": (n // len(FLAVOUR_NAMES)) % 4 == 3,
            "flavour": flavour}


def run(ctx):
    quick = ctx.tier == "quick"
    subsets = quick_subsets(ctx.rng_global("subsets")) if quick else all_subsets()
    mine = [s for i, s in enumerate(subsets) if ctx.mine(i)]
    per_round = 12
    rng = ctx.rng("prog")
    gen = G.Gen(rng)
    rounds = 0
    max_rounds = 60 if quick else 400
    seen_subsets = set()
    sampled = 0
    osampled = 0
    orng = ctx.rng("overlay")
    nroute = ctx.shard      # (shards start the route rotation at different places)
    ninstall = ctx.shard * 5 + ctx.seed
    irng = ctx.rng("install")
    isampled = 0
    rsampled = 0
    nflavour = ctx.shard * 4 + ctx.seed
    frng = ctx.rng("flavour")
    fsampled = 0
    while rounds < max_rounds:
        for mask, b, u in mine:
            for j in range(per_round):
                prog = gen.program()
                is_async = (j % 6 == 5)
                case = {"binops": b, "unops": u, "prog": prog, "async": is_async}
                ok = run_case(ctx, case)
                if ok and sampled < 2 and ctx.shard == 0 and (b or u):
                    sampled += 1
                    ctx.sample({"binops": b, "unops": u, "source": G.stmts_src(prog)})
                if ok and j % 3 == 1:
                    # the same program along one of the other compile routes (rotating)
                    nroute += 1
                    route = ALT_ROUTES[nroute % len(ALT_ROUTES)]
                    rcase = dict(case, route=route)
                    if route == "compile_expression":
                        # (an expression object evaluates ONE expression, sync only)
                        rcase.update({"async": False,
                                      "prog": [["out", gen.any(rng.randint(1, 4), list(G.NUM_VARS))]]})
                    if run_case(ctx, rcase) and rsampled < 1 and ctx.shard == 2 and (b or u) \
                            and route in FOREIGN_ROUTES:
                        rsampled += 1
                        ctx.sample({"binops": b, "unops": u, "route": route,
                                    "source": G.stmts_src(prog)})
            for j in range(3):
                ocase = overlay_case_for(orng, b, u, gen.program(), j)
                if run_overlay_case(ctx, ocase) and osampled < 1 and ctx.shard == 1:
                    osampled += 1
                    ctx.sample({k: v for k, v in ocase.items() if k != "prog"}
                               | {"source": G.stmts_src(ocase["prog"])})
            if b or u:
                for j in range(3):
                    # how / when the hook is installed (rotating over the 12 installations x 2 places
                    # of the interception sets)
                    ninstall += 1
                    icase = install_case_for(irng, b, u, gen.program(), ninstall)
                    if run_install_case(ctx, icase) and isampled < 1 and ctx.shard == 3 \
                            and icase["install"] != "subclass":
                        isampled += 1
                        ctx.sample({k: v for k, v in icase.items() if k != "prog"}
                                   | {"source": G.stmts_src(icase["prog"])})
                for j in range(2):
                    # which sandboxed environment class intercepts (rotating over the 9 flavours)
                    nflavour += 1
                    fcase = flavour_case_for(gen, frng, b, u, nflavour)
                    if run_flavour_case(ctx, fcase) and fsampled < 1 and ctx.shard == 4:
                        fsampled += 1
                        ctx.sample({k: v for k, v in fcase.items() if k != "prog"}
                                   | {"source": G.stmts_src(fcase["prog"])})
            if mask not in seen_subsets:
                seen_subsets.add(mask)
                ctx.count("subsets")
        rounds += 1
        if ctx.out_of_time():
            ctx.count("timeboxed_stop")
            break
    if len(seen_subsets) == len(mine) and not quick:
        ctx.exhaustive = None  # subsets exhaustive, programs sampled: not an exhaustive space
    ctx.extra["subset_rounds"] = rounds


def replay(ctx, case):
    if case.get("overlay"):
        run_overlay_case(ctx, case, count=False)
    elif case.get("installed"):
        run_install_case(ctx, case, count=False)
    elif case.get("flavoured"):
        run_flavour_case(ctx, case, count=False)
    else:
        run_case(ctx, case, count=False)
