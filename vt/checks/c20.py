"""C20 — sandbox operator interception sees every intercepted operator
application (and only those), with the same operands, and the rendered result
is the hook's result.

For each subset of the 7 binary and 2 unary interceptable operators a
SandboxedEnvironment subclass is made whose call_binop / call_unop record
(op, operands) and return a *perturbed* value (number + 1000, string + "~").
Generated, fully parenthesised arithmetic programs are rendered and compared
with a small reference interpreter (vt/gen/c20_gen.py) that produces the
expected event sequence in evaluation order (short-circuit and/or, inline-if,
loop filters, macro defaults, set/with) and the expected perturbed output.
"""
from __future__ import annotations

from vt.gen import c20_gen as G

PID = "C20"
LEVEL = "exploration"
TECHNIQUE = "recording+perturbing interception hooks vs reference interpreter over generated expression programs, per operator subset"
RULE = ("case = (subset of the 9 interceptable operators, generated program, sync/async); "
        "programs are random statement lists (output, set, if, for with/without filter, with, "
        "macro default + call) over fully parenthesised expression trees (constants, variables, "
        "7 binary + 2 unary operators, and/or/not, inline-if, comparisons, ~, filters with "
        "arguments, list literals); thorough: all 512 subsets, quick: 64 subsets (empty, full, "
        "9 singletons + seeded sample); a case is distinct by (subset, program tree, mode) and "
        "non-trivial when the reference sees >=2 operator applications; programs whose reference evaluation raises/overflows "
        "are discarded and not counted")
LEVEL_TEXT = ("hook log == expected event sequence and output == expected perturbed output on "
              "every executed (subset, program) pair; bounded to the generated expression/statement "
              "fragment and operand types int/float/bool/str")
ASSUMPTIONS = [
    "operands are int/float/bool/str; user-defined operand types with reflected operators are not generated",
    "the loop-filter cases put arithmetic either in the filter or in the body (not both), so lazy vs eager filtering order is not constrained",
    "macro defaults are exercised with one call directly after the definition",
    "programs whose plain-Python evaluation raises (ZeroDivisionError, TypeError), exceeds 1e12, yields complex numbers, or sums floats with |sum (builtin sum compensates rounding) are discarded",
]
NSHARDS = {"quick": 16, "thorough": 16}
BUDGET_S = {"quick": 12, "thorough": 240}
FLOORS = {
    "quick": {"evaluations": 3000, "distinct": 2000,
              "counters": {"hook_events": 6000, "subsets": 64, "events_compared": 6000,
                           "unintercepted_applications": 6000, "async_renders": 400}},
    "thorough": {"evaluations": 80000, "distinct": 60000,
                 "counters": {"hook_events": 200000, "subsets": 512, "events_compared": 200000,
                              "unintercepted_applications": 200000, "async_renders": 12000}},
}

ALL_OPS = [("b", o) for o in G.BINOPS] + [("u", o) for o in G.UNOPS]


def all_subsets():
    out = []
    for mask in range(512):
        b = [G.BINOPS[i] for i in range(7) if mask >> i & 1]
        u = [G.UNOPS[i] for i in range(2) if mask >> (7 + i) & 1]
        out.append((mask, b, u))
    return out


def quick_subsets(rng):
    subs = all_subsets()
    must = [0, 511] + [1 << i for i in range(9)]
    rest = [m for m in range(512) if m not in must]
    rng.shuffle(rest)
    pick = must + rest[:64 - len(must)]
    return [subs[m] for m in pick]


_env_cache = {}


def make_env(binops, unops, is_async):
    from jinja2.sandbox import SandboxedEnvironment

    key = (tuple(binops), tuple(unops), is_async)
    if key in _env_cache:
        return _env_cache[key]

    class RecEnv(SandboxedEnvironment):
        intercepted_binops = frozenset(binops)
        intercepted_unops = frozenset(unops)

        def call_binop(self, context, operator, left, right):
            self.vt_log.append(["b", operator, G.tag(left), G.tag(right)])
            rv = super().call_binop(context, operator, left, right)
            return G.perturb(rv)

        def call_unop(self, context, operator, arg):
            self.vt_log.append(["u", operator, G.tag(arg)])
            rv = super().call_unop(context, operator, arg)
            return G.perturb(rv)

    env = RecEnv(enable_async=is_async)
    env.vt_log = []
    if len(_env_cache) > 64:
        _env_cache.clear()
    _env_cache[key] = env
    return env


def run_case(ctx, case, count=True):
    """Returns True when the case was within the modelled fragment."""
    binops, unops, prog, is_async = case["binops"], case["unops"], case["prog"], case["async"]
    ref = G.Ref(binops, unops)
    try:
        exp_out = ref.run(prog, dict(G.CONTEXT))
    except G.Discard:
        if count:
            ctx.count("discarded_programs")
        return False
    source = G.stmts_src(prog)
    env = make_env(binops, unops, is_async)
    env.vt_log = log = []
    try:
        out = env.from_string(source).render(**G.CONTEXT)
        err = None
    except Exception as e:  # the reference did not raise, so neither may the engine
        out = None
        err = f"{type(e).__name__}: {e}"
    ctx.ev()
    ctx.count("hook_events", len(log))
    ctx.count("events_compared", len(ref.log))
    napplied = sum(ref.applied.values())
    ctx.count("unintercepted_applications", napplied - len(ref.log))
    if is_async:
        ctx.count("async_renders")
    for k, v in ref.applied.items():
        ctx.count("applied:" + k, v)
    for e in ref.log:
        ctx.count("expected_event:" + e[0] + e[1])
    if napplied >= 2:
        ctx.dist([binops, unops, prog, is_async])
    case = dict(case, source=source)
    if err is not None:
        ctx.violation("render-raised:" + err.split(":")[0],
                      f"reference evaluates without error but render raised {err}; source={source}",
                      case)
        return True
    if log != ref.log:
        # mechanism key: first diverging event's operator and kind of divergence
        i = 0
        while i < len(log) and i < len(ref.log) and log[i] == ref.log[i]:
            i += 1
        got = log[i] if i < len(log) else None
        want = ref.log[i] if i < len(ref.log) else None
        if want is None:
            kind = ("unexpected-event:" + got[0] + got[1]
                    + (":not-intercepted" if got[1] not in (binops if got[0] == "b" else unops) else ""))
        elif got is None:
            kind = "missing-event:" + want[0] + want[1]
        elif got[:2] == want[:2] and sorted(got[2:]) == sorted(want[2:]):
            kind = "operands-swapped:" + want[0] + want[1]
        elif got[:2] == want[:2]:
            kind = "operands-differ:" + want[0] + want[1]
        else:
            kind = "missing-event:" + want[0] + want[1]
        ctx.violation(kind, f"event #{i}: hook saw {got}, expected {want}; full log {log[:12]} "
                            f"expected {ref.log[:12]}; source={source}", case)
        return True
    if out != exp_out:
        ctx.violation("output-differs-from-hook-result",
                      f"events equal but output {out!r} != expected {exp_out!r}; source={source}",
                      case)
    return True


def run(ctx):
    quick = ctx.tier == "quick"
    subsets = quick_subsets(ctx.rng_global("subsets")) if quick else all_subsets()
    mine = [s for i, s in enumerate(subsets) if ctx.mine(i)]
    per_round = 12
    rng = ctx.rng("prog")
    gen = G.Gen(rng)
    rounds = 0
    max_rounds = 60 if quick else 400
    seen_subsets = set()
    sampled = 0
    while rounds < max_rounds:
        for mask, b, u in mine:
            for j in range(per_round):
                prog = gen.program()
                is_async = (j % 6 == 5)
                case = {"binops": b, "unops": u, "prog": prog, "async": is_async}
                ok = run_case(ctx, case)
                if ok and sampled < 2 and ctx.shard == 0 and (b or u):
                    sampled += 1
                    ctx.sample({"binops": b, "unops": u, "source": G.stmts_src(prog)})
            if mask not in seen_subsets:
                seen_subsets.add(mask)
                ctx.count("subsets")
        rounds += 1
        if ctx.out_of_time():
            ctx.count("timeboxed_stop")
            break
    if len(seen_subsets) == len(mine) and not quick:
        ctx.exhaustive = None  # subsets exhaustive, programs sampled: not an exhaustive space
    ctx.extra["subset_rounds"] = rounds


def replay(ctx, case):
    run_case(ctx, case, count=False)
