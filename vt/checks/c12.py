"""C12 — whitespace control follows the documented trimming rules.

Renders generated template skeletons (text runs of spaces/tabs/line breaks/
letters - and, in the widened parts, every other kind of Unicode whitespace -
alternating with no-output block tags, comments, variable tags that
print a marker and raw blocks, every allowed '-'/'+'/'' modifier on each side)
under all four trim_blocks/lstrip_blocks settings and compares the output with
the documentation-derived model in vt.model.c12_trim.  Independent sub-oracle:
the non-whitespace characters of the text runs survive in order."""
from __future__ import annotations

import itertools

from vt.gen import c12_skel as G
from vt.gen import c39_ws as W
from vt.model import c12_trim as M

PID = "C12"
LEVEL = "exploration"
RULE = ("skeleton = text runs (space, tab, \\n, \\r\\n, \\r, letters) alternating with tags: "
        "no-output block tags ({% if true %}/{% endif %}/{% set %}/{% for %}), comments, variable "
        "tags printing a marker, raw blocks with a body; every documented modifier combination "
        "('', '-', '+'; '+' not on variable tags / '{% raw +%}') x all four trim_blocks/"
        "lstrip_blocks settings. Exhaustive: all valid tag sequences of <=2 tags (quick) / <=3 "
        "tags (thorough) x all modifier assignments x all text assignments from fixed run "
        "sets; quick additionally samples every 3-tag shape; then random 1-7 tag skeletons with "
        "rich runs (also keep_trailing_newline / newline_sequence variants). full whitespace "
        "class: the same rules over runs holding whitespace other than space/tab/line breaks "
        "(form feed, vertical tab, NEL, NBSP, en/em/hair/narrow/ideographic spaces, U+1680, "
        "U+205F, line/paragraph separator; ZERO WIDTH SPACE as blank-looking TEXT): all 1-tag "
        "shapes x all modifiers x settings x 9x9 runs that put such a character alone / mixed "
        "with blanks at the source start, before and after a line break, directly before and "
        "directly after the tag; all 2-tag shapes x modifiers x settings x own-line/same-line "
        "run triples (quick: one triple per shape in rotation); 45% of the random skeletons get "
        "their blanks (partly) replaced by and their runs extended with such characters, so "
        "that '-' on the LEFT and on the RIGHT of every tag kind, lstrip_blocks, trim_blocks "
        "and '+' all meet them in rendered output. configuration routes: the four options reach "
        "the environment not only through Environment(...) but through every documented route - "
        "Environment.overlay(...) of a parent that was unused / had compiled / lexed / parsed "
        "something, overriding all options or only the differing ones, an overlay of a used "
        "overlay, an overlay made before its parent is first used, the PARENT after a sibling "
        "overlay with other options was made and used, and Template(source, ...options); the "
        "related environment carries each of the three other trim/lstrip settings in rotation: "
        "every 1- and 2-tag shape x 3 routes (thorough: all 12) x four settings, and every second "
        "random skeleton through a random route whose related environments also differ in "
        "keep_trailing_newline / newline_sequence; a route case is discriminating when the "
        "documented rules give another output under the related environment's options. "
        "One evaluation = "
        "one render compared with the model + the non-whitespace-preservation oracle. distinct = "
        "distinct exhaustive shapes (settings x tag sequence x modifier assignment) and distinct "
        "gap contexts (settings x left neighbour kind+modifier x right neighbour kind+modifier "
        "x rule-relevant class of the text run) in which the model applies or cancels >=1 rule")
TECHNIQUE = "reference-model monitor (documentation-derived trimming model) over exhaustive small skeletons + random larger ones"
LEVEL_TEXT = ("held on K rendered skeletons covering every modifier/setting combination for <=2 "
              "(quick) / <=3 (thorough) tags exhaustively over fixed text-run sets, and random "
              "skeletons up to 7 tags, over the Unicode White_Space class (U+001C-U+001F, which "
              "only Python's str.isspace counts as whitespace, are not generated); says nothing "
              "about line statements or '+' on variable tags")
ASSUMPTIONS = [
    "whitespace = the characters with the Unicode White_Space property, ONE class for every "
    "rule ('-' on either side, lstrip_blocks line starts): the docs never define the word "
    "('spaces, tabs, newlines etc.'; '-': 'the whitespaces before or after that block will be "
    "removed', no restriction) and the property statement uses the one word for all rules; the "
    "full reasoning is vt/checks/c39.py ASSUMPTIONS[0] (same model, vt.model.c12_trim). "
    "U+001C-U+001F (whitespace for str.isspace/\\s only, not White_Space) are never generated. "
    "Only LF, CRLF, CR are line breaks (trim_blocks' 'first newline', lstrip_blocks' line "
    "start). Violation keys for runs holding whitespace other than space/tab/line breaks end "
    "in ':non-space-tab-ws'",
    "the widened runs stay OUTSIDE the tags (which whitespace may separate the words inside a "
    "tag is not documented)",
    "trim_blocks removes a newline only when it directly follows the tag ('like in PHP')",
    "lstrip_blocks applies to {% raw %} and {% endraw %} as block tags; trim_blocks does not act "
    "after {% raw %} (raw body verbatim, property statement)",
    "line statements/comments, '+' on variable tags and '{% raw +%}' are not generated (docs silent)",
]
NSHARDS = {"quick": 16, "thorough": 16}
BUDGET_S = {"quick": 15, "thorough": 520}
FLOORS = {
    # n1+n2 (37432 cases) are enumerated whatever the load; the time-boxed parts (n3, random)
    # shrink to a few thousand cases on a heavily loaded machine
    "quick": {"evaluations": 38500, "distinct": 5000,
              "counters": {"renders": 38500, "oracle_model": 38500, "oracle_nonws": 38500,
                           "cases_n1": 12000, "cases_n2": 24000, "cases_n3": 400,
                           "cases_random": 1200,
                           "rule:minus-left": 15000, "rule:minus-right": 15000,
                           "rule:trim_blocks": 3000, "rule:lstrip_blocks": 2500,
                           "rule:plus-cancels-trim": 1600, "rule:plus-cancels-lstrip": 1800,
                           "raw_body_cases": 2000,
                           # full whitespace class: the exhaustive part (9516 cases) is never
                           # time-boxed, the random part has a floor of 80 skeletons per shard
                           "cases_exotic": 5000, "cases_exotic_exhaustive": 9000,
                           "cases_exotic_random": 800,
                           "exotic_removed_by_minus_left": 1800,
                           "exotic_removed_by_minus_right": 1900,
                           "exotic_removed_by_minus_left:block": 700,
                           "exotic_removed_by_minus_left:comment": 500,
                           "exotic_removed_by_minus_left:var": 400,
                           "exotic_removed_by_minus_left:raw_open": 60,
                           "exotic_removed_by_minus_left:raw_close": 30,
                           "exotic_removed_by_minus_right:block": 700,
                           "exotic_removed_by_minus_right:comment": 500,
                           "exotic_removed_by_minus_right:var": 400,
                           "exotic_removed_by_minus_right:raw_open": 90,
                           "exotic_removed_by_minus_right:raw_close": 50,
                           "exotic_outermost_in_minus_left_run": 250,
                           "exotic_outermost_in_minus_right_run": 1000,
                           "exotic_removed_by_lstrip:block": 300,
                           "exotic_removed_by_lstrip:comment": 200,
                           "exotic_removed_by_lstrip:raw_open": 50,
                           "exotic_removed_by_lstrip:raw_close": 15,
                           "exotic_kept_by_plus": 500, "exotic_between_tag_and_newline": 350,
                           "exotic_after_trimmed_newline": 300, "exotic_in_raw_body": 350,
                           "exotic_kept_in_output": 7000, "zero_width_space_runs": 150,
                           # configuration routes: 7692 cases are enumerated whatever the load,
                           # the random part has >= 40 routed skeletons per shard
                           "cases_route": 5000, "cases_route_random": 600,
                           "oracle_route_options_reported": 700,
                           "route_related_env_options_give_other_output": 900,
                           "route:overlay:unused": 200, "route:overlay:compile": 200,
                           "route:overlay:lex": 200, "route:overlay:parse": 200,
                           "route:overlay-minimal:compile": 200,
                           "route:overlay-minimal:lex": 200,
                           "route:overlay-chain:compile": 200, "route:overlay-chain:parse": 200,
                           "route:parent-after-overlay:compile": 200,
                           "route:parent-after-overlay:lex": 200,
                           "route:overlay-before-parent-use:compile": 200,
                           "route:template-ctor:unused": 200,
                           "route_discriminating:overlay": 300,
                           "route_discriminating:overlay-minimal": 160,
                           "route_discriminating:overlay-chain": 190,
                           "route_discriminating:parent-after-overlay": 160,
                           "route_discriminating:overlay-before-parent-use": 75}},
    "thorough": {"evaluations": 500000, "distinct": 10000,
                 "counters": {"renders": 500000, "oracle_model": 500000,
                              "oracle_nonws": 500000, "cases_n1": 30000, "cases_n2": 130000,
                              "cases_n3": 200000, "cases_random": 50000,
                              "rule:minus-left": 450000, "rule:minus-right": 450000,
                              "rule:trim_blocks": 60000, "rule:lstrip_blocks": 80000,
                              "rule:plus-cancels-trim": 45000, "rule:plus-cancels-lstrip": 70000,
                              "raw_body_cases": 55000,
                              "cases_exotic": 17000, "cases_exotic_exhaustive": 9000,
                              "cases_exotic_random": 12000,
                              "exotic_removed_by_minus_left": 7500,
                              "exotic_removed_by_minus_right": 7500,
                              "exotic_removed_by_minus_left:block": 3000,
                              "exotic_removed_by_minus_left:comment": 1500,
                              "exotic_removed_by_minus_left:var": 1900,
                              "exotic_removed_by_minus_left:raw_open": 600,
                              "exotic_removed_by_minus_left:raw_close": 400,
                              "exotic_removed_by_minus_right:block": 3000,
                              "exotic_removed_by_minus_right:comment": 1500,
                              "exotic_removed_by_minus_right:var": 1800,
                              "exotic_removed_by_minus_right:raw_open": 600,
                              "exotic_removed_by_minus_right:raw_close": 600,
                              "exotic_outermost_in_minus_left_run": 2000,
                              "exotic_outermost_in_minus_right_run": 5000,
                              "exotic_removed_by_lstrip:block": 1900,
                              "exotic_removed_by_lstrip:comment": 900,
                              "exotic_removed_by_lstrip:raw_open": 500,
                              "exotic_removed_by_lstrip:raw_close": 170,
                              "exotic_kept_by_plus": 1700,
                              "exotic_between_tag_and_newline": 5000,
                              "exotic_after_trimmed_newline": 1800,
                              "exotic_in_raw_body": 4000, "exotic_kept_in_output": 40000,
                              "zero_width_space_runs": 2400,
                              "cases_route": 20000, "cases_route_random": 6000,
                              "oracle_route_options_reported": 2800,
                              "route_related_env_options_give_other_output": 3600,
                              "route:overlay:unused": 800, "route:overlay:compile": 800,
                              "route:overlay:lex": 800, "route:overlay:parse": 800,
                              "route:overlay-minimal:compile": 800,
                              "route:overlay-minimal:lex": 800,
                              "route:overlay-chain:compile": 800,
                              "route:overlay-chain:parse": 800,
                              "route:parent-after-overlay:compile": 800,
                              "route:parent-after-overlay:lex": 800,
                              "route:overlay-before-parent-use:compile": 800,
                              "route:template-ctor:unused": 800,
                              "route_discriminating:overlay": 1200,
                              "route_discriminating:overlay-minimal": 640,
                              "route_discriminating:overlay-chain": 760,
                              "route_discriminating:parent-after-overlay": 640,
                              "route_discriminating:overlay-before-parent-use": 300}},
}

SETTINGS = [(False, False), (False, True), (True, False), (True, True)]
MAX_RECORDED = 150


class State:
    """Per-shard monitor state (environments, local coverage sets)."""

    def __init__(self, ctx):
        from jinja2 import Environment

        self.ctx = ctx
        self.Environment = Environment
        self.envs = {}
        self.routes = {}
        self.seen = set()
        self.recorded = 0

    def env(self, tb, ls, keep=False, nl="\n"):
        k = (tb, ls, keep, nl)
        e = self.envs.get(k)
        if e is None:
            e = self.envs[k] = self.Environment(
                trim_blocks=tb, lstrip_blocks=ls, keep_trailing_newline=keep,
                newline_sequence=nl, cache_size=0)
        return e

    def route_compiler(self, route, target):
        k = (route["kind"], route["warm"], tuple(route["parent"]), tuple(route["mid"] or ()),
             tuple(target))
        c = self.routes.get(k)
        if c is None:
            c, env = build_route(self.Environment, route, target)
            self.routes[k] = c
            if env is not None:
                # the environment reports the requested options (public attributes)
                self.ctx.count("oracle_route_options_reported")
                got = tuple(getattr(env, n) for n in OPTION_NAMES)
                if got != tuple(target):
                    self.ctx.violation(
                        f"config-route:{route['kind']}:{route['warm'] or 'unused'}:options-reported",
                        f"environment obtained by {describe_route(route)} reports {got!r} for "
                        f"{OPTION_NAMES!r}, requested {tuple(target)!r}",
                        {"route": route, "target": list(target), "options_only": True})
        return c


# ---- configuration routes: HOW the environment carrying the four whitespace options came about.
# The documented ways besides Environment(...): Environment.overlay(...) ("shares all the data
# with the current environment except for cache and the overridden attributes") of a parent that
# was / was not used before, overriding all or only the differing options, overlays of overlays,
# the parent of an overlay (must keep its own options), and Template(source, ...options).
OPTION_NAMES = ("trim_blocks", "lstrip_blocks", "keep_trailing_newline", "newline_sequence")
ROUTES = [("overlay", None), ("overlay", "compile"), ("overlay", "lex"), ("overlay", "parse"),
          ("overlay-minimal", "compile"), ("overlay-minimal", "lex"),
          ("overlay-chain", "compile"), ("overlay-chain", "parse"),
          ("parent-after-overlay", "compile"), ("parent-after-overlay", "lex"),
          ("overlay-before-parent-use", "compile"), ("template-ctor", None)]
ROUTE_TEXTS = ["\n  ", "a\n ", " \n ", "\n", "\n\n a", "  ", "\t\n\tb", "\r\n "]


def _opts(s):
    return dict(zip(OPTION_NAMES, s))


def _diff_opts(base, target):
    return {n: t for n, b, t in zip(OPTION_NAMES, base, target) if b != t}


def _use(env, how):
    """Put an environment to use through one public entry point."""
    if how == "compile":
        env.from_string("w{% if true %}\n  {{ m }}\n  {% endif %}\n").render(m=1)
    elif how == "lex":
        list(env.lex("w {# c #}\n  {% if true %}\n{% endif %}"))
    elif how == "parse":
        env.parse("w{% set x = 1 %}\n")


def describe_route(route):
    if route is None:
        return "Environment(...)"
    return (f"{route['kind']} (parent options {route['parent']!r}, intermediate "
            f"{route.get('mid')!r}, environments put to use by: {route['warm'] or 'nothing'})")


def make_route(kind, warm, target, other, other2):
    """Route descriptor for the TARGET options; `other`/`other2` = option tuples of the
    environments the target one is derived from / shares data with."""
    if kind == "parent-after-overlay":
        return {"kind": kind, "warm": warm, "parent": list(target), "mid": list(other)}
    if kind == "overlay-chain":
        return {"kind": kind, "warm": warm, "parent": list(other2), "mid": list(other)}
    return {"kind": kind, "warm": warm, "parent": list(other), "mid": None}


def build_route(Environment, route, target):
    """source -> Template for an environment with the TARGET options obtained along `route`;
    second value: the environment (None for Template(...))."""
    kind, warm = route["kind"], route["warm"]
    target = tuple(target)
    if kind == "template-ctor":
        from jinja2 import Template

        o = _opts(target)
        return (lambda src: Template(src, **o)), None
    parent_opts = tuple(route["parent"])
    parent = Environment(cache_size=0, **_opts(parent_opts))
    if kind == "overlay-before-parent-use":
        env = parent.overlay(**_opts(target))
        _use(parent, warm)
        return env.from_string, env
    _use(parent, warm)
    if kind == "overlay":
        env = parent.overlay(**_opts(target))
    elif kind == "overlay-minimal":
        env = parent.overlay(**_diff_opts(parent_opts, target))
    elif kind == "overlay-chain":
        mid = parent.overlay(**_diff_opts(parent_opts, tuple(route["mid"])))
        _use(mid, warm)
        env = mid.overlay(**_diff_opts(tuple(route["mid"]), target))
    elif kind == "parent-after-overlay":
        other = parent.overlay(**_diff_opts(parent_opts, tuple(route["mid"])))
        _use(other, warm)
        env = parent
    else:
        raise ValueError(kind)
    return env.from_string, env


def route_coverage(st, skel, p, route, target):
    ctx = st.ctx
    ctx.count("cases_route")
    ctx.count(f"route:{route['kind']}:{route['warm'] or 'unused'}")
    # discriminating = the documented rules give ANOTHER output under the options of an
    # environment the target one is derived from / shares data with
    disc = False
    for o in (route["parent"], route.get("mid")):
        if o is None or tuple(o) == tuple(target):
            continue
        if M.predict(skel, *o).rendered != p.rendered:
            disc = True
    if disc:
        ctx.count("route_related_env_options_give_other_output")
        ctx.count(f"route_discriminating:{route['kind']}")
        k = ("route", route["kind"], route["warm"], tuple(route["parent"][:2]), tuple(target[:2]))
        if k not in st.seen:
            st.seen.add(k)
            ctx.dist(k)


def exotic_coverage(ctx, p, part):
    """Monitor counters of the full whitespace class: which rules met whitespace other than
    space/tab/line breaks in this (successfully rendered) source."""
    ctx.count("cases_exotic")
    ctx.count("cases_exotic_" + part)
    for g in p.gaps:
        run = g["run"]
        if not M.has_exotic(run):
            continue
        left, right = run[:g["a"]], run[g["b"]:]
        if g["rr"] == "lstrip_blocks" and M.has_exotic(right):
            ctx.count("exotic_removed_by_lstrip:" + g["B"][0])
        if g["rr"] == "plus-cancels-lstrip" and M.has_exotic(run[run.rfind("\n") + 1:]):
            ctx.count("exotic_kept_by_plus")
        if g["rr"] == "minus" and M.has_exotic(right):
            ctx.count("exotic_removed_by_minus_left:" + g["B"][0])
            ctx.count("exotic_removed_by_minus_left")
            if right[:1] in M.EXOTIC and len(right) > 1:
                # the removed run STARTS with such a character: everything between it and the
                # tag (spaces, tabs, line breaks) must go as well
                ctx.count("exotic_outermost_in_minus_left_run")
        if g["rl"] == "minus" and M.has_exotic(left):
            ctx.count("exotic_removed_by_minus_right:" + g["A"][0])
            ctx.count("exotic_removed_by_minus_right")
            if left[-1:] in M.EXOTIC and len(left) > 1:
                ctx.count("exotic_outermost_in_minus_right_run")
        if g["rl"] is None and g["A"] is not None and g["A"][0] in M.TRIM_AFTER \
                and run[:1] in M.EXOTIC and "\n" in run:
            ctx.count("exotic_between_tag_and_newline")
        if g["rl"] == "trim_blocks" and M.has_exotic(g["kept"]):
            ctx.count("exotic_after_trimmed_newline")
        if M.has_exotic(g["kept"]):
            ctx.count("exotic_kept_in_output")
        if g["raw_body"]:
            ctx.count("exotic_in_raw_body")
        if W.ZWSP in run:
            ctx.count("zero_width_space_runs")


def check_case(st, skel, tb, ls, keep=False, nl="\n", part="random", shape=None, route=None):
    """route=None: the options are given to the Environment constructor; otherwise a
    configuration-route descriptor (see ROUTES) saying how the environment that carries the
    options came about."""
    ctx = st.ctx
    p = M.predict(skel, tb, ls, keep, nl)
    case = {"skel": skel, "tb": tb, "ls": ls, "keep": keep, "nl": nl, "source": p.source}
    kp = ""
    if route is not None:
        case["route"] = route
        kp = f"config-route:{route['kind']}:{route['warm'] or 'unused'}:"
    ctx.ev()
    ctx.count("renders")
    try:
        if route is None:
            tmpl = st.env(tb, ls, keep, nl).from_string(p.source)
        else:
            tmpl = st.route_compiler(route, (tb, ls, keep, nl))(p.source)
        got = tmpl.render(G.RENDER_CONTEXT)
    except Exception as e:  # a documented-syntax skeleton must render
        if st.recorded < MAX_RECORDED:
            st.recorded += 1
            kinds = "+".join(sorted({f"{t['k']}[{t['l']}|{t['r']}]" for t in skel[1::2]
                                     if t["l"] == "+" or t["r"] == "+"})) or "plain"
            ctx.violation(f"{kp}render-raises:{type(e).__name__}:{kinds}",
                          f"{type(e).__name__}: {e} for source {p.source!r} "
                          f"trim_blocks={tb} lstrip_blocks={ls}", case)
        return False
    # coverage bookkeeping
    for g in p.gaps:
        if g["rl"]:
            ctx.count("rule:" + ("minus-right" if g["rl"] == "minus" else g["rl"]))
        if g["rr"]:
            ctx.count("rule:" + ("minus-left" if g["rr"] == "minus" else g["rr"]))
        if g["rl"] or g["rr"]:
            k = (tb, ls, g["A"], g["B"], M.run_class(g["run"], g["A"] is None))
            if k not in st.seen:
                st.seen.add(k)
                ctx.dist(("gap", k))
        if g["raw_body"]:
            ctx.count("raw_body_cases")
    if p.removed_chars:
        ctx.count("removed_chars", p.removed_chars)
    if route is not None:
        route_coverage(st, skel, p, route, (tb, ls, keep, nl))
    if M.has_exotic(p.norm):
        exotic_coverage(ctx, p, "exhaustive" if part == "exotic-exhaustive" else "random")
    if shape is not None and p.nontrivial and shape not in st.seen:
        st.seen.add(shape)
        ctx.dist(("shape", shape))
    ok = True
    # oracle 1: documented trimming model
    ctx.count("oracle_model")
    if got != p.rendered:
        ok = False
        if st.recorded < MAX_RECORDED:
            st.recorded += 1
            key, g = M.divergence_key(p, p.rendered, got, tb, ls)
            if M.has_exotic(g["run"]):
                # the diverging run holds whitespace other than space/tab/line breaks
                key += ":non-space-tab-ws"
            ctx.violation(
                kp + key,
                (f"environment obtained by {describe_route(route)}; " if route else "") +
                f"source {p.source!r} trim_blocks={tb} lstrip_blocks={ls} keep_trailing_newline="
                f"{keep} newline_sequence={nl!r}: rendered {got!r}, documented rules give "
                f"{p.rendered!r} (first divergence in the text run {g['run']!r} between "
                f"{M.tagname(g['A'], 'start')} and {M.tagname(g['B'], 'end')})", case)
        else:
            ctx.count("violations_not_recorded")
    # oracle 2 (independent of the model): non-whitespace is never removed
    ctx.count("oracle_nonws")
    if "".join(got.split()) != M.nonws_of_texts(skel):
        ok = False
        if st.recorded < MAX_RECORDED:
            st.recorded += 1
            ctx.violation(
                f"{kp}non-whitespace-changed:tb={int(tb)},ls={int(ls)}",
                f"source {p.source!r}: non-whitespace of output {''.join(got.split())!r} != "
                f"non-whitespace of the text runs {M.nonws_of_texts(skel)!r}", case)
    return ok


def mod_products(seq):
    return itertools.product(*[M.mod_choices(t) for t in seq])


def run(ctx):
    st = State(ctx)
    quick = ctx.tier == "quick"
    complete = True
    idx = 0

    # ---- part A: 1 tag, exhaustive: all modifiers x settings x T1 x T1
    T1 = G.T1_QUICK if quick else G.T1
    for seq in M.tag_sequences(1):
        for mods in mod_products(seq):
            for texts in itertools.product(T1, repeat=2):
                idx += 1
                if not ctx.mine(idx):
                    continue
                skel = G.skeleton_from(seq, mods, texts)
                for tb, ls in SETTINGS:
                    check_case(st, skel, tb, ls, shape=(tb, ls, seq, mods))
                    ctx.count("cases_n1")
    if ctx.shard == 0:
        ctx.sample({"part": "n1", "source": M.build(G.skeleton_from(("set",), (("+", "-"),),
                                                                  (" \n ", "\n a")))})

    # ---- part B: 2 tags, exhaustive: all sequences x modifiers x settings x T2^3
    rng = ctx.rng("n2")
    T2 = G.T2_QUICK if quick else G.T2_THOROUGH
    t2_all = list(itertools.product(T2, repeat=3))
    for seq in M.tag_sequences(2):
        for mods in mod_products(seq):
            idx += 1
            if not ctx.mine(idx):
                continue
            if not quick and ctx.elapsed() > ctx.budget_s * 0.5:
                complete = False
                ctx.count("exhaustive_n2_cut")
                break
            tl = t2_all + [tuple(rng.choice(G.T1) for _ in range(3)) for _ in range(2)]
            for texts in tl:
                skel = G.skeleton_from(seq, mods, texts)
                for tb, ls in SETTINGS:
                    check_case(st, skel, tb, ls, shape=(tb, ls, seq, mods))
            ctx.count("cases_n2", len(tl) * 4)
        if not complete:
            break
    if ctx.shard == 0:
        ctx.sample({"part": "n2", "source": M.build(G.skeleton_from(
            ("raw", "endraw"), (("", "-"), ("-", "")), (" \n ", " \n ", "\n")))})

    # ---- part X: whitespace other than space/tab/line breaks (form feed, vertical tab, NEL,
    # NBSP, em/ideographic space, line separator ...) in every rule-relevant position:
    # 1 tag x all modifiers x settings x T1X x T1X, 2 tags x all modifiers x settings x
    # own-line / same-line run triples
    for seq in M.tag_sequences(1):
        for mods in mod_products(seq):
            for texts in itertools.product(W.T1X, repeat=2):
                idx += 1
                if not ctx.mine(idx):
                    continue
                skel = G.skeleton_from(seq, mods, texts)
                for tb, ls in SETTINGS:
                    check_case(st, skel, tb, ls, part="exotic-exhaustive",
                               shape=(tb, ls, seq, mods, "x"))
    for seq in M.tag_sequences(2):
        for mods in mod_products(seq):
            idx += 1
            if not ctx.mine(idx):
                continue
            if not quick and ctx.elapsed() > ctx.budget_s * 0.6:
                complete = False
                ctx.count("exhaustive_exotic_n2_cut")
                break
            # quick: one of the run triples per shape (rotating), never time-boxed
            triples = [W.T2X_TRIPLES[(idx // ctx.nshards) % len(W.T2X_TRIPLES)]] if quick \
                else W.T2X_TRIPLES
            for texts in triples:
                skel = G.skeleton_from(seq, mods, texts)
                for tb, ls in SETTINGS:
                    check_case(st, skel, tb, ls, part="exotic-exhaustive",
                               shape=(tb, ls, seq, mods, "x"))
        if not complete:
            break
    if ctx.shard == 0:
        ctx.sample({"part": "exotic-exhaustive", "source": M.build(G.skeleton_from(
            ("raw", "endraw"), (("-", "-"), ("-", "-")), ("a\x0c\n", "\xa0 r\n\x0b", " \u2003b")))})

    # ---- part E: configuration routes.  every 1- and 2-tag shape (sequence x modifiers) x
    # 3 routes (rotating, so every route meets every kind of shape) x all four target settings,
    # the related environment (parent / intermediate overlay / sibling overlay) carrying each
    # of the three OTHER trim/lstrip settings in rotation.  Never time-boxed.
    ridx = 0
    for n in (1, 2):
        for seq in M.tag_sequences(n):
            for mods in mod_products(seq):
                idx += 1
                ridx += 1
                if not ctx.mine(idx):
                    continue
                for j in range(3 if quick else len(ROUTES)):
                    kind, warm = ROUTES[(ridx + j * 5) % len(ROUTES)] if quick else ROUTES[j]
                    texts = tuple(ROUTE_TEXTS[(ridx + j + 3 * t) % len(ROUTE_TEXTS)]
                                  for t in range(n + 1))
                    skel = G.skeleton_from(seq, mods, texts)
                    for ti, (tb, ls) in enumerate(SETTINGS):
                        others = [x for x in SETTINGS if x != (tb, ls)]
                        o1 = others[(ridx + j + ti) % 3]
                        o2 = others[(ridx + j + ti + 1) % 3]
                        route = make_route(kind, warm, (tb, ls, False, "\n"),
                                           o1 + (False, "\n"), o2 + (False, "\n"))
                        check_case(st, skel, tb, ls, part="route", route=route,
                                   shape=(tb, ls, seq, mods, "route", kind))
    if ctx.shard == 0:
        ctx.sample({"part": "route", "route": make_route(
            "overlay-chain", "compile", (True, True, False, "\n"), (False, True, False, "\n"),
            (False, False, False, "\n")), "source": M.build(G.skeleton_from(
                ("if", "endif"), (("", ""), ("", "")), ("a\n", "\n  x\n  ", "\nb")))})

    # ---- part C: 3 tags.  thorough: every (sequence, modifier assignment) x settings x
    # T3 text sets; quick: the shapes are sampled (1 random text assignment each, until
    # the time share is used up)
    rng = ctx.rng("n3")
    t3_all = [(a, b, c, d) for a in G.T3_OUTER for b in G.T3_INNER for c in G.T3_INNER
              for d in G.T3_OUTER]
    complete3 = True
    shapes3 = [(seq, mods) for seq in M.tag_sequences(3) for mods in mod_products(seq)]
    if quick:
        # sampled, in a seed-dependent order so that different seeds see different shapes
        ctx.rng_global("n3order").shuffle(shapes3)
    done3 = 0
    for seq, mods in shapes3:
        idx += 1
        if not ctx.mine(idx):
            continue
        done3 += 1
        if done3 > (60 if quick else 100) and ctx.elapsed() > ctx.budget_s * (0.6 if quick else 0.85):
            complete3 = False
            ctx.count("n3_time_cut")
            break
        if quick:
            tl = [tuple(rng.choice(G.T1) for _ in range(4))]
        else:
            tl = t3_all + [tuple(rng.choice(G.T1) for _ in range(4)) for _ in range(2)]
        for texts in tl:
            skel = G.skeleton_from(seq, mods, texts)
            for tb, ls in SETTINGS:
                check_case(st, skel, tb, ls, shape=(tb, ls, seq, mods))
        ctx.count("cases_n3", len(tl) * 4)
    ctx.exhaustive = bool(complete and (quick or complete3))
    ctx.extra["exhaustive_max_tags"] = "2" if quick else "3"
    ctx.extra["shards_exhaustive_part_complete"] = 1 if ctx.exhaustive else 0

    # ---- part D: random skeletons, rich runs, all four settings each
    rng = ctx.rng("random")
    rrng = ctx.rng("routes")
    n_max = 4000 if quick else 150000
    i = 0
    while ctx.more(i, n_max, floor=80):
        i += 1
        nt = rng.choice((1, 2, 3, 4, 4, 5, 5, 6, 6, 7))
        skel = G.random_skeleton(rng, nt)
        if rng.random() < 0.45:
            # blanks (partly) replaced by / runs extended with other whitespace characters
            skel = W.exoticize(rng, skel, inner=False)
        keep = rng.random() < 0.2
        nl = rng.choice(("\n", "\n", "\n", "\r\n", "\r"))
        for tb, ls in SETTINGS:
            check_case(st, skel, tb, ls, keep, nl)
            ctx.count("cases_random")
        if i % 2 == 0:
            # the same skeleton through a random configuration route; the related environments
            # differ in any of the four options (also keep_trailing_newline / newline_sequence)
            kind, warm = rrng.choice(ROUTES)
            for tb, ls in SETTINGS:
                def other():
                    return (rrng.random() < 0.5, rrng.random() < 0.5,
                            keep if rrng.random() < 0.6 else not keep,
                            nl if rrng.random() < 0.6 else rrng.choice(("\n", "\r\n", "\r")))
                route = make_route(kind, warm, (tb, ls, keep, nl), other(), other())
                check_case(st, skel, tb, ls, keep, nl, part="route", route=route)
                ctx.count("cases_route_random")
        if i <= 2 and ctx.shard == 0:
            ctx.sample({"part": "random", "source": M.build(skel), "keep_trailing_newline": keep,
                        "newline_sequence": nl})


def replay(ctx, case):
    st = State(ctx)
    if case.get("options_only"):
        st.route_compiler(case["route"], tuple(case["target"]))
        return
    check_case(st, case["skel"], case["tb"], case["ls"], case.get("keep", False),
               case.get("nl", "\n"), route=case.get("route"))
