"""C04 — template inheritance vs an independent inheritance resolver."""
from __future__ import annotations

import html

from vt import util
from vt.checks import c16
from vt.gen import jast, tplgen
from vt.model import interp as M

PID = "C04"
LEVEL = "exploration"
TECHNIQUE = "reference-model monitor: random inheritance hierarchies rendered by the engine and by an independent block resolver"
RULE = ("random inheritance chains (depth 1-4, 1-5 block names, nested blocks, super / super.super / "
        "self calls, scoped blocks in loops, required blocks, conditional and dynamic extends, "
        "content outside blocks) with unique text markers, rendered from a DictLoader (sync, async, and "
        "by an Environment subclass overriding join_path with all names relative to a directory) "
        "and compared with vt.model.interp; every third hierarchy is rendered again with HTML "
        "metacharacters in the data and escaping switched on locally ({% autoescape true %} inside "
        "every block and around top-level runs, environment autoescape off): unescaped once it "
        "must still be the model's output; distinct = (depth, per-level override bitmaps, "
        "super, super.super, self, scoped, required, dynamic, conditional, nested) tuples")
LEVEL_TEXT = "held on the generated hierarchies only"
ASSUMPTIONS = [
    "a block name keeps the same scoped flag in every template of a chain",
    "blocks read only render data and loop variables (not top-level assignments of child templates)",
]
NSHARDS = {"quick": 16, "thorough": 16}
BUDGET_S = {"quick": 20, "thorough": 500}
FLOORS = {
    "quick": {"evaluations": 3000, "distinct": 200,
              "counters": {"compares": 3000, "uses_super": 300, "uses_self": 100,
                           "uses_scoped": 100, "uses_required": 50, "required_error": 10,
                           "uses_scoped_reads_loop": 50, "uses_block_in_toplevel_if": 100,
                           "local_autoescape_compares": 500, "local_autoescape_super_or_self_with_entities": 100,
                           "join_path_environment_compares": 800}},
    "thorough": {"evaluations": 60000, "distinct": 2000,
                 "counters": {"compares": 60000, "uses_super": 6000, "uses_self": 2000,
                              "uses_scoped": 2000, "uses_required": 1000, "required_error": 200,
                              "uses_scoped_reads_loop": 1000, "uses_block_in_toplevel_if": 2000,
                              "local_autoescape_compares": 10000,
                              "local_autoescape_super_or_self_with_entities": 2000,
                              "join_path_environment_compares": 16000}},
}


_relenv = None


def rel_env_class():
    """The documented join_path hook: template names are relative to the referring template."""
    global _relenv
    if _relenv is None:
        import posixpath

        import jinja2

        class RelEnvironment(jinja2.Environment):
            def join_path(self, template, parent):
                return posixpath.join(posixpath.dirname(parent), template)
        _relenv = RelEnvironment
    return _relenv


def engine_render(templates, leaf, data, is_async, relative=False):
    import jinja2

    srcs = {n: jast.ps(b) for n, b in templates.items()}
    if relative:
        # the same sources stored under sec/<name>; every extends / include name inside them is
        # only right after joining it with the referring template's directory
        env = rel_env_class()(loader=jinja2.DictLoader({"sec/" + n: s for n, s in srcs.items()}),
                              enable_async=is_async)
        return util.capture(lambda: env.get_template("sec/" + leaf).render(**data)), srcs
    env = jinja2.Environment(loader=jinja2.DictLoader(srcs), enable_async=is_async)
    return util.capture(lambda: env.get_template(leaf).render(**data)), srcs


def check(ctx, templates, leaf, data):
    it = M.Interp(templates)
    mo = util.capture(lambda: it.render(leaf, data))
    for is_async, relative in ((False, False), (True, False), (False, True)):
        eo, srcs = engine_render(templates, leaf, data, is_async, relative)
        ctx.ev()
        ctx.count("compares")
        if relative:
            ctx.count("join_path_environment_compares")
        bad = None
        if mo.ok and eo.ok:
            if mo.value != eo.value:
                bad = f"engine {eo.value!r} != model {mo.value!r}"
        elif not mo.ok and not eo.ok:
            if not util.same_error(mo.exc, eo.exc):
                bad = f"engine {eo!r} / model {mo!r}"
            elif util.model_exc_name(mo.exc) == "TemplateRuntimeError":
                ctx.count("required_error")
        else:
            bad = f"engine {eo!r} / model {mo!r}"
        if bad:
            kinds = []
            for b in templates.values():
                def fn(st):
                    if st[0] == "block":
                        if st[3]:
                            kinds.append("scoped")
                        if st[4]:
                            kinds.append("required")
                    if st[0] == "extends":
                        kinds.append("extends-" + st[1][0])
                jast.walk_stmts(b, fn)
            key = "inherit:" + ("join_path-environment:" if relative else "") + "+".join(sorted(set(kinds)))
            ctx.violation(key, f"{bad} | templates={srcs} leaf={leaf} async={is_async}",
                          {"templates": templates, "leaf": leaf, "data": data})
            return


def check_local_autoescape(ctx, templates, leaf, data, rng):
    """The same hierarchy, data with HTML metacharacters, escaping on only inside
    {% autoescape true %} regions: escaping must not change WHICH definitions are rendered,
    and super()/self.x() results must not be escaped a second time."""
    data = dict(data)
    for k, v in list(data.items()):
        if isinstance(v, str):
            data[k] = rng.choice(c16.HOT)
        elif isinstance(v, list) and v and all(isinstance(x, str) for x in v):
            data[k] = [rng.choice(c16.HOT) for _ in v]
    mo = util.capture(lambda: M.Interp(templates).render(leaf, data))
    if not mo.ok:
        return
    local = {n: c16.localize(b, ["const", True], True) for n, b in templates.items()}
    for is_async in (False, True):
        eo, srcs = engine_render(local, leaf, data, is_async)
        ctx.ev()
        ctx.count("local_autoescape_compares")
        if eo.ok and "&" in eo.value and any("super()" in s or "self." in s for s in srcs.values()):
            ctx.count("local_autoescape_super_or_self_with_entities")
        if not eo.ok or html.unescape(eo.value) != mo.value:
            ctx.violation("inherit:local-autoescape-region",
                          f"engine {eo!r}, unescaped once, != model {mo.value!r} | templates={srcs} "
                          f"leaf={leaf} data={data} async={is_async}",
                          {"templates": templates, "leaf": leaf, "data": data, "local": True})
            return


def run(ctx):
    rng = ctx.rng("h")
    n = 3000 if ctx.tier == "quick" else 80000
    i = 0
    while ctx.more(i, n, floor=100):
        g = tplgen.HGen(rng)
        templates, leaf, data, shape = g.hierarchy()
        for k, v in g.info.items():
            if v:
                ctx.count("uses_" + k)
        check(ctx, templates, leaf, data)
        # every intermediate template is renderable on its own, too
        if rng.random() < 0.3 and leaf != "t0":
            check(ctx, templates, "t0", data)
        if i % 3 == 0:
            check_local_autoescape(ctx, templates, leaf, data, rng)
        ctx.dist([shape, sorted(k for k, v in g.info.items() if v)])
        if i < 2:
            ctx.sample({"templates": {n: jast.ps(b) for n, b in templates.items()}, "leaf": leaf, "data": data})
        i += 1


def replay(ctx, case):
    if case.get("local"):
        import random
        check_local_autoescape(ctx, case["templates"], case["leaf"], case["data"], random.Random(0))
        return
    check(ctx, case["templates"], case["leaf"], case["data"])
