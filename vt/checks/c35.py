"""C35 — errors point at the template line that caused them.

(A) TemplateSyntaxError.lineno equals the line on which the generator placed
a single-line malformed construct.  (B) For exceptions raised while rendering
a single-line raising construct, the innermost traceback frame that belongs
to a template names the template containing the construct and its line."""
from __future__ import annotations

import asyncio
import os
import re
import shutil
import tempfile
import traceback

PID = "C35"
LEVEL = "exploration"
TECHNIQUE = ("generated template sets with one marked single-line failing construct; expected line "
             "counted by the harness from the source text; traceback.extract_tb / "
             "TemplateSyntaxError.lineno compared")
RULE = ("case = (site kind [40 single-line raising forms: calls in {{ }}/set/if/elif/for/for-filter/"
        "with/print/do/call/filter-block/set-block/macro default/include/import/autoescape/trans "
        "arguments, raising filter/test/attribute/item/method, division by zero, StrictUndefined "
        "chains, missing include/import | 22 single-line malformed forms], optional '-' whitespace control on the site tag, nesting chain of 0-4 wrappers "
        "[if/else, for, with, macro+call, call block, filter block, set block, autoescape, block, "
        "include, imported macro, child block of a parent, parent block (+super), parent "
        "top-level], filler before/after at every level [text lines, blank lines, multi-line tags/"
        "expressions/strings/comments, '-' stripped line breaks, raw blocks] with \\n, \\r\\n, \\r "
        "mixed, env [default | trim_blocks | lstrip_blocks | both], loader [dict | filesystem], "
        "sync | async). distinct = distinct (part, site kind, ws control, wrapper chain, filler "
        "feature set before the site, env, loader, mode)")
LEVEL_TEXT = ("held on K generated (template set, site) executions: reported line == harness-counted "
              "line of the single-line failing construct; generated shapes only; multi-line failing "
              "constructs are not claimed")
ASSUMPTIONS = [
    "the failing construct occupies a single source line (its surroundings need not)",
    "helper callables/values live in env.globals so imported macros see them",
    "for dict-loaded templates every template frame carries the same pseudo filename, so only the "
    "line (not which template) is checked there; the filesystem loader checks both",
]
NSHARDS = {"quick": 16, "thorough": 16}
BUDGET_S = {"quick": 14, "thorough": 360}
FLOORS = {
    "quick": {"evaluations": 3000, "distinct": 2000,
              "counters": {"runtime_line_checks": 1500, "syntax_line_checks": 800,
                           "fs_filename_checks": 300, "async_cases": 400,
                           "site_after_stripped_newlines": 300, "crossed_template": 500,
                           "multiline_before_site": 2500}},
    # thorough: 960k evaluations / 913k distinct in 281 s (count-bounded) at load
    # ~1x, 417k / 403k (time-boxed) at load ~4x; floors = 1/4 of the latter
    "thorough": {"evaluations": 100000, "distinct": 95000,
                 "counters": {"runtime_line_checks": 65000, "syntax_line_checks": 32000,
                              "fs_filename_checks": 21000, "async_cases": 32000,
                              "site_after_stripped_newlines": 24000, "crossed_template": 44000,
                              "multiline_before_site": 95000}},
}

SITE = "\x00SITE\x00"
_nl_re = re.compile(r"\r\n|\r|\n")


class Boom(Exception):
    pass


def boom(*a, **k):
    raise Boom("boom")


class Obj:
    ok = 1

    @property
    def boomattr(self):
        raise Boom("attr")

    def raiser(self):
        raise Boom("method")



class ObjItem:
    def __getitem__(self, k):
        raise Boom("item")


# (kind, source, expected exception name, needs)
RAISING = [
    ("call", "{{ boom() }}", "Boom"),
    ("call-filtered", "{{ boom()|upper }}", "Boom"),
    ("call-in-expr", "{{ 1 + boom() }}", "Boom"),
    ("call-arg", "{{ ident(boom()) }}", "Boom"),
    ("set", "{% set q = boom() %}", "Boom"),
    ("if", "{% if boom() %}x{% endif %}", "Boom"),
    ("for", "{% for q in boom() %}x{% endfor %}", "Boom"),
    ("with", "{% with q = boom() %}x{% endwith %}", "Boom"),
    ("print", "{% print boom() %}", "Boom"),
    ("do", "{% do boom() %}", "Boom"),
    ("filter", "{{ 'a'|boomf }}", "Boom"),
    ("test", "{% if 1 is boomt %}x{% endif %}", "Boom"),
    ("attr", "{{ obj.boomattr }}", "Boom"),
    ("item", "{{ objitem['k'] }}", "Boom"),
    ("zerodiv", "{{ 1/0 }}", "ZeroDivisionError"),
    ("zerodiv-var", "{{ 1 // zero }}", "ZeroDivisionError"),
    ("undefined-chain", "{{ und.y.z }}", "UndefinedError"),
    ("undefined-attr", "{{ obj.missing.z }}", "UndefinedError"),
    ("undefined-print", "{{ und }}", "UndefinedError"),
    ("callblock-call", "{% call boom() %}x{% endcall %}", "Boom"),
    ("filter-block", "{% filter boomf %}x{% endfilter %}", "Boom"),
    ("set-block-filter", "{% set q | boomf %}x{% endset %}", "Boom"),
    ("macro-default", "{% macro dm(a=boom()) %}{{ a }}{% endmacro %}{{ dm() }}", "Boom"),
    ("elif", "{% if false %}{% elif boom() %}x{% endif %}", "Boom"),
    ("for-filter", "{% for q in items if boom() %}x{% endfor %}", "Boom"),
    ("include-expr", "{% include boom() %}", "Boom"),
    ("import-expr", "{% import boom() as q %}", "Boom"),
    ("autoescape-expr", "{% autoescape boom() %}x{% endautoescape %}", "Boom"),
    ("cond-expr", "{{ 1 if boom() else 2 }}", "Boom"),
    ("test-arg", "{{ 1 is divisibleby(zero) }}", "ZeroDivisionError"),
    ("slice", "{{ items[boom():] }}", "Boom"),
    ("dict-literal", "{{ {'a': boom()} }}", "Boom"),
    ("concat", "{{ 'a' ~ boom() }}", "Boom"),
    ("method", "{{ obj.raiser() }}", "Boom"),
    ("ns-set", "{% set nsg.a = boom() %}", "Boom"),
    ("trans", "{% trans q=boom() %}{{ q }}{% endtrans %}", "Boom"),
    ("set-tuple", "{% set q, r = boom() %}", "Boom"),
    ("include-missing", "{% include 'missing.html' %}", "TemplateNotFound"),
    ("import-missing", "{% import 'missing.html' as q %}", "TemplateNotFound"),
    ("from-missing", "{% from 'missing.html' import q %}", "TemplateNotFound"),
]
MALFORMED = [
    ("binop-eof", "{{ 1 + }}"), ("stray-paren", "{{ ) }}"), ("pipe-eof", "{{ x | }}"),
    ("dot-eof", "{{ x. }}"), ("two-ints", "{{ 1 1 }}"), ("bang", "{{ x ! y }}"),
    ("if-empty", "{% if %}x{% endif %}"), ("unknown-tag", "{% nosuchtag %}"),
    ("for-no-in", "{% for x %}{% endfor %}"), ("unknown-end", "{% endnosuch %}"),
    ("set-empty", "{% set %}"), ("bad-ident", "{{ ² }}"),
    ("dup-block", "{% block dupq %}{% endblock %}{% block dupq %}{% endblock %}"),
    ("import-underscore", "{% from 'x.html' import _private %}"),
    ("stray-bracket", "{{ x ]] }}"), ("tilde-eof", "{{ 'a' ~ }}"),
    ("macro-int-name", "{% macro 1() %}{% endmacro %}"), ("include-empty", "{% include %}"),
    ("star", "{{ * }}"), ("two-names", "{{ x y }}"), ("assign-const", "{% set true = 1 %}"),
    ("dup-block-arg", "{% macro mq(a=1, b) %}{% endmacro %}"),
]

SAME_TPL_WRAPPERS = ["if", "else", "for", "with", "macro", "callblock", "filterblock", "setblock",
                     "autoescape", "block"]
CROSS_WRAPPERS = ["include", "importmacro", "childblock", "parentblock", "parentsuper", "parenttop"]


class Gen:
    def __init__(self, r):
        self.r = r
        self.n = 0
        self.templates = {}
        self.feat_before = set()

    def uid(self):
        self.n += 1
        return self.n

    def nl(self):
        return self.r.choice(["\n", "\n", "\r\n", "\r"])

    def filler(self, before):
        """Valid content spanning several lines.  `before` only matters for
        recording which features precede the site in its template."""
        r = self.r
        out = []
        feats = set()
        for _ in range(r.randint(0, 4)):
            k = r.randrange(14)
            nl = self.nl
            if k <= 2:
                out.append(r.choice(["text line", "a b c", "<p>x</p>", "  indented", "{ }"]) + nl())
                feats.add("text")
            elif k == 3:
                out.append(nl() + nl())
                feats.add("blank")
            elif k == 4:
                out.append("{% if" + nl() + "  true" + nl() + "%}ok{% endif %}" + nl())
                feats.add("multiline-tag")
            elif k == 5:
                out.append("{{ [1," + nl() + " 2," + nl() + " 3]|length }}" + nl())
                feats.add("multiline-expr")
            elif k == 6:
                out.append("{% set _f =" + nl() + " 1 %}" + r.choice(["", nl()]))
                feats.add("multiline-set")
            elif k == 7:
                out.append("{{ 'a" + nl() + "b' }}" + r.choice(["", nl()]))
                feats.add("multiline-string")
            elif k == 8:
                out.append("{#" + r.choice(["", "-"]) + " c" + nl() + " c" + nl() +
                           r.choice(["", "-"]) + "#}" + r.choice(["", nl()]))
                feats.add("multiline-comment")
            elif k == 9:
                out.append("x" + nl() + nl() + "{%- if true -%}" + nl() + nl() + "y" + nl() +
                           "{%- endif -%}" + nl())
                feats.add("wsctrl-tags")
            elif k == 10:
                out.append("x" + nl() + nl() + "{{- 1 -}}" + nl() + nl() + "y")
                feats.add("wsctrl-var")
            elif k == 11:
                out.append("{% raw " + r.choice(["", "-"]) + "%}" + nl() + "{{ boom() }}" + nl() +
                           "{% nosuchtag %}" + nl() + "{%" + r.choice(["", "-"]) + " endraw " +
                           r.choice(["", "-"]) + "%}" + nl())
                feats.add("raw")
            elif k == 12:
                out.append("{% for _g in items %}" + nl() + "{{ _g }}" + nl() + "{% endfor %}" + nl())
                feats.add("loop")
            else:
                out.append("{#- c -#}" + nl() + nl())
                feats.add("wsctrl-comment")
        if before:
            self.feat_before |= feats
        return "".join(out)

    def wrap_same(self, kind, inner):
        r, nl = self.r, self.nl
        i = self.uid()
        f0, f1 = self.filler(True), self.filler(False)
        if kind == "if":
            return "{% if true %}" + f0 + inner + f1 + "{% endif %}"
        if kind == "else":
            return "{% if false %}" + nl() + "no" + nl() + "{% else %}" + f0 + inner + f1 + "{% endif %}"
        if kind == "for":
            return "{% for _i" + str(i) + " in items %}" + f0 + inner + f1 + "{% endfor %}"
        if kind == "with":
            return "{% with _w" + str(i) + " = 1 %}" + f0 + inner + f1 + "{% endwith %}"
        if kind == "macro":
            return "{% macro m" + str(i) + "(a=1) %}" + f0 + inner + f1 + "{% endmacro %}" + \
                self.filler(False) + "{{ m" + str(i) + "() }}"
        if kind == "callblock":
            return "{% macro w" + str(i) + "() %}[{{ caller() }}]{% endmacro %}" + nl() + \
                "{% call w" + str(i) + "() %}" + f0 + inner + f1 + "{% endcall %}"
        if kind == "filterblock":
            return "{% filter upper %}" + f0 + inner + f1 + "{% endfilter %}"
        if kind == "setblock":
            return "{% set cap" + str(i) + " %}" + f0 + inner + f1 + "{% endset %}"
        if kind == "autoescape":
            return "{% autoescape true %}" + f0 + inner + f1 + "{% endautoescape %}"
        if kind == "block":
            return "{% block b" + str(i) + " %}" + f0 + inner + f1 + "{% endblock %}"
        raise AssertionError(kind)

    def close_template(self, body, prefix):
        name = f"{prefix}{self.uid()}.html"
        self.templates[name] = body
        return name

    def wrap_cross(self, kind, inner):
        """Puts `inner` into its own template and returns (new inner for the
        outer template, entry_only) — entry_only means the result must be the
        whole outer template body (child templates)."""
        nl = self.nl
        i = self.uid()
        f0, f1 = self.filler(True), self.filler(False)
        if kind == "include":
            name = self.close_template(f0 + inner + f1, "inc")
            return "{% include '" + name + "' %}"
        if kind == "importmacro":
            name = self.close_template(
                f0 + "{% macro lm" + str(i) + "() %}" + self.filler(True) + inner + f1 +
                "{% endmacro %}" + self.filler(False), "lib")
            if self.r.random() < 0.5:
                return "{% from '" + name + "' import lm" + str(i) + " %}" + self.filler(False) + \
                    "{{ lm" + str(i) + "() }}"
            return "{% import '" + name + "' as lib" + str(i) + " %}" + self.filler(False) + \
                "{{ lib" + str(i) + ".lm" + str(i) + "() }}"
        if kind == "childblock":
            base = self.close_template(
                self.filler(False) + "{% block content %}default{% endblock %}" + self.filler(False),
                "base")
            child = self.close_template(
                "{% extends '" + base + "' %}" + nl() + f0 + "{% block content %}" +
                self.filler(True) + inner + f1 + "{% endblock %}" + self.filler(False), "child")
            return "{% include '" + child + "' %}"
        if kind in ("parentblock", "parentsuper"):
            base = self.close_template(
                f0 + "{% block content %}" + self.filler(True) + inner + f1 + "{% endblock %}" +
                self.filler(False), "base")
            body = "{% extends '" + base + "' %}" + nl() + self.filler(False)
            if kind == "parentsuper":
                body += "{% block content %}" + self.filler(False) + "{{ super() }}" + nl() + \
                    "{% endblock %}"
            else:
                body += "{% block other %}unused{% endblock %}"
            child = self.close_template(body, "child")
            return "{% include '" + child + "' %}"
        if kind == "parenttop":
            base = self.close_template(f0 + inner + f1 + "{% block content %}d{% endblock %}", "base")
            child = self.close_template("{% extends '" + base + "' %}" + nl() +
                                        "{% block content %}c{% endblock %}", "child")
            return "{% include '" + child + "' %}"
        raise AssertionError(kind)


def gen_case(r, part):
    """-> JSON-able case dict."""
    g = Gen(r)
    if part == "runtime":
        kind, site_src, exc = r.choice(RAISING)
    else:
        kind, site_src = r.choice(MALFORMED)
        exc = "TemplateSyntaxError"
    # optional whitespace control on the site tag itself, preceded by line
    # breaks that it strips
    ws = r.choice(["", "", "", "l", "r", "lr"])
    stripped_before = False
    if ws:
        op = site_src[:2]
        first_end = site_src.index("}}" if op == "{{" else "%}")
        s = site_src
        if "r" in ws:
            s = s[:first_end] + "-" + s[first_end:]
        if "l" in ws:
            s = s[:2] + "-" + s[2:]
        site_src = s
    lead = ""
    if r.random() < 0.5:
        lead = r.choice(["text ", "{{ 1 }} ", "{% if true %}{% endif %}", "  "])
        if "l" in ws and not lead.strip():
            stripped_before = True
    if "l" in ws and r.random() < 0.7:
        lead = r.choice(["x", ""]) + g.nl() * r.randint(1, 3) + r.choice(["", "  "])
        stripped_before = True
    tail = r.choice(["", "", " tail", g.nl() + g.nl()])
    inner = g.filler(True) + lead + SITE + site_src + tail + g.filler(False)
    # wrapper chain, innermost first
    depth = r.choice([0, 1, 1, 2, 2, 3, 4])
    chain = []
    crossed = False
    block_ok = True
    # choose outermost->innermost respecting: no block inside macro/call/set/filter
    kinds_out_in = []
    for _ in range(depth):
        if part == "runtime" and r.random() < 0.35:
            kinds_out_in.append(r.choice(CROSS_WRAPPERS))
        elif part == "syntax" and r.random() < 0.25:
            kinds_out_in.append("include")
        else:
            kinds_out_in.append(r.choice(SAME_TPL_WRAPPERS))
    fixed = []
    for k in kinds_out_in:
        if k in CROSS_WRAPPERS:
            block_ok = True
        if k == "block" and not block_ok:
            k = "if"
        if k in ("macro", "callblock", "setblock", "filterblock"):
            block_ok = False
        fixed.append(k)
    for k in reversed(fixed):
        if k in CROSS_WRAPPERS:
            inner = g.wrap_cross(k, inner)
            crossed = True
        else:
            inner = g.wrap_same(k, inner)
        chain.append(k)
    g.templates["main.html"] = g.filler(False) + inner + g.filler(False)
    # locate the site
    site_tpl = None
    for name, src in g.templates.items():
        if SITE in src:
            site_tpl = name
            before = src[:src.index(SITE)]
            line = 1 + len(_nl_re.findall(before))
            g.templates[name] = src.replace(SITE, "")
    assert site_tpl is not None
    return {
        "part": part, "kind": kind, "exc": exc, "ws": ws, "chain": chain, "crossed": crossed,
        "templates": g.templates, "site_tpl": site_tpl, "line": line,
        "stripped_before": stripped_before, "feat_before": sorted(g.feat_before),
        "env": r.choice(["default", "default", "trim", "lstrip", "trim+lstrip"]),
        "loader": r.choice(["dict", "dict", "fs"]),
        "mode": r.choice(["sync", "sync", "async"]),
    }


def make_env(case, tmpdir):
    import jinja2

    kw = {}
    if "trim" in case["env"].split("+"):
        kw["trim_blocks"] = True
    if "lstrip" in case["env"].split("+"):
        kw["lstrip_blocks"] = True
    if case["loader"] == "fs":
        for name, src in case["templates"].items():
            with open(os.path.join(tmpdir, name), "w", encoding="utf-8", newline="") as f:
                f.write(src)
        loader = jinja2.FileSystemLoader(tmpdir)
    else:
        loader = jinja2.DictLoader(dict(case["templates"]))
    env = jinja2.Environment(loader=loader, undefined=jinja2.StrictUndefined,
                             extensions=["jinja2.ext.do", "jinja2.ext.i18n"], enable_async=case["mode"] == "async",
                             cache_size=50, auto_reload=False, **kw)
    env.install_null_translations()
    env.globals.update(nsg=jinja2.utils.Namespace(), boom=boom, ident=lambda v: v, obj=Obj(), objitem=ObjItem(), zero=0, items=[1, 2])
    env.filters["boomf"] = boom
    env.tests["boomt"] = boom
    return env


def check_case(ctx, case):
    import jinja2

    tmpdir = tempfile.mkdtemp(prefix="c35_") if case["loader"] == "fs" else None
    try:
        _check(ctx, case, tmpdir, jinja2)
    finally:
        if tmpdir:
            shutil.rmtree(tmpdir, ignore_errors=True)


def _check(ctx, case, tmpdir, jinja2):
    env = make_env(case, tmpdir)
    part = case["part"]
    ctx.ev()
    if case["mode"] == "async":
        ctx.count("async_cases")
    if case["stripped_before"]:
        ctx.count("site_after_stripped_newlines")
    if case["crossed"]:
        ctx.count("crossed_template")
    if case["line"] > 1:
        ctx.count("multiline_before_site")
    tag = f"{part}:{case['kind']}"
    desc = (f"{case['kind']} at {case['site_tpl']}:{case['line']} chain={case['chain']} "
            f"env={case['env']} loader={case['loader']} mode={case['mode']}")
    exc = None
    try:
        t = env.get_template("main.html")
        if case["mode"] == "async":
            asyncio.run(t.render_async())
        else:
            t.render()
    except BaseException as e:  # noqa: BLE001
        exc = e
    if exc is None:
        ctx.violation(f"no-exception:{tag}", f"rendering did not raise: {desc}", case)
        return
    if type(exc).__name__ != case["exc"] and not (
            case["exc"] == "TemplateSyntaxError" and isinstance(exc, jinja2.TemplateSyntaxError)):
        ctx.violation(f"unexpected-exception:{type(exc).__name__}:{tag}",
                      f"{desc}: raised {type(exc).__name__}: {str(exc)[:300]}", case)
        return
    dist_key = (part, case["kind"], case["ws"], case["chain"], case["feat_before"], case["env"],
                case["loader"], case["mode"])
    if part == "syntax":
        ctx.count("syntax_line_checks")
        if exc.lineno != case["line"]:
            ctx.violation(f"syntax-lineno:{case['kind']}",
                          f"{desc}: TemplateSyntaxError({exc.message!r}).lineno={exc.lineno}, the "
                          f"malformed construct is on line {case['line']} of "
                          f"{case['templates'][case['site_tpl']]!r}", case)
        if exc.name != case["site_tpl"]:
            ctx.violation("syntax-name", f"{desc}: error names template {exc.name!r}", case)
        ctx.dist(dist_key)
        return
    # runtime: innermost template frame
    names = {}
    for name in case["templates"]:
        try:
            names[name] = env.get_template(name).filename
        except jinja2.TemplateError:
            names[name] = None
    fnset = {v for v in names.values() if v}
    frames = [f for f in traceback.extract_tb(exc.__traceback__) if f.filename in fnset]
    ctx.count("runtime_line_checks")
    if not frames:
        ctx.violation(f"no-template-frame:{case['kind']}", f"{desc}: no traceback frame carries a "
                      f"template filename {sorted(fnset)}", case)
        return
    inner = frames[-1]
    if inner.lineno != case["line"]:
        ctx.violation(f"runtime-lineno:{case['kind']}",
                      f"{desc}: innermost template frame is {inner.filename}:{inner.lineno}, the "
                      f"raising construct is on line {case['line']} of "
                      f"{case['templates'][case['site_tpl']]!r}", case)
    if case["loader"] == "fs":
        ctx.count("fs_filename_checks")
        if inner.filename != names[case["site_tpl"]]:
            ctx.violation(f"runtime-filename:{case['kind']}",
                          f"{desc}: innermost template frame names {inner.filename}, the raising "
                          f"construct is in {names[case['site_tpl']]}", case)
    ctx.dist(dist_key)


def run(ctx):
    quick = ctx.tier == "quick"
    rng = ctx.rng("cases")
    n_max = 2200 if quick else 60000
    i = 0
    while ctx.more(i, n_max, 300):
        part = "syntax" if i % 3 == 2 else "runtime"
        case = gen_case(rng, part)
        check_case(ctx, case)
        if i < 3:
            ctx.sample({k: case[k] for k in ("part", "kind", "chain", "site_tpl", "line", "env",
                                             "loader", "mode", "templates")})
        i += 1


def replay(ctx, case):
    check_case(ctx, case)
