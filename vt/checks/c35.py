"""C35 — errors point at the template line that caused them.

(A) TemplateSyntaxError.lineno equals the line on which the generator placed
a single-line malformed construct.  (B) For exceptions raised while rendering
a single-line raising construct, the innermost traceback frame that belongs
to a template names the template containing the construct and its line."""
from __future__ import annotations

import asyncio
import os
import re
import shutil
import tempfile
import traceback

PID = "C35"
LEVEL = "exploration"
TECHNIQUE = ("generated template sets with one marked single-line failing construct; expected line "
             "counted by the harness from the source text; traceback.extract_tb / "
             "TemplateSyntaxError.lineno compared")
RULE = ("case = (site kind [114 single-line raising forms: calls in every expression position of "
        "{{ }}/set/if/elif/for/for-filter/with/print/do/call/filter-block/set-block/macro default/"
        "macro and call-block arguments/filter and test arguments/include/import/from/extends/"
        "autoescape/trans, raising filter/test/attribute/item/method, division by zero, "
        "StrictUndefined chains, missing include/import, 27 compile-time CONSTANT expressions that "
        "cannot be evaluated or printed (constant subscript/attribute misses under StrictUndefined, "
        "constant filter/test/operator applications that raise, in {{ }}, if, set, for, print, "
        "filter blocks), 6 values rejected by a raising finalize hook (constant and variable), 23 uses of a "
        "filter / test the environment does NOT provide placed directly in an if / elif / else body or "
        "condition or in an inline if (value / condition / else part; printed, set, call argument, "
        "chained, with arguments, under and / not): the template loads and executing the use raises "
        "TemplateRuntimeError | 49 multi-line statements whose raising "
        "tag is a single-line tag on a line of its own between other branches/statements (elif "
        "conditions, else/elif/for-else bodies, second statements of bodies, tags after a closed "
        "statement) | 22 single-line malformed forms], optional '-' whitespace control on the site "
        "tag, optional statement on the line above/below, nesting chain of 0-4 wrappers "
        "[if/else, for, with, macro+call, call block, filter block, set block, autoescape, block, "
        "include, imported macro, child block of a parent, parent block (+super), parent "
        "top-level], filler before/after at every level [text lines, blank lines, multi-line tags/"
        "expressions/strings/comments, '-' stripped line breaks, raw blocks] with \\n, \\r\\n, \\r "
        "mixed, env [default | trim_blocks | lstrip_blocks | both] x [no finalize | raising-finalize "
        "hook], loader [dict | filesystem | for runtime cases also PRECOMPILED: the whole template set "
        "compiled by an identically configured environment with Environment.compile_templates into a "
        "directory / stored zip / deflated zip and loaded back through ModuleLoader, incl. sites whose "
        "tag line abuts the next tag's line with no template data in between ('-' control, "
        "trim_blocks)], sync | async). Runtime cases first load every template "
        "of the set with get_template: that must succeed (the templates are well-formed), the error "
        "belongs to rendering. distinct = distinct (part, site kind, ws control, wrapper chain, filler "
        "feature set before the site, env, loader, mode)")
LEVEL_TEXT = ("held on K generated (template set, site) executions: reported line == harness-counted "
              "line of the single-line tag holding the failing expression (also when it is an inner "
              "tag of a multi-line statement); generated shapes only; failing expressions spread "
              "over several lines inside one tag are not claimed")
ASSUMPTIONS = [
    "the tag holding the failing expression occupies a single source line; the statement it "
    "belongs to and its surroundings need not (an expression spread over several lines inside one "
    "tag is not claimed: tag line vs expression line is undocumented)",
    "helper callables/values live in env.globals so imported macros see them",
    "a well-formed template whose failing construct is a constant expression loads without error; "
    "the error is raised when the construct is rendered (otherwise no template line could be "
    "reported for it at all)",
    "a filter / test that the environment does not provide and that is used directly inside an "
    "if-statement or conditional expression is an error of EXECUTING that use (CHANGES 2.11: 'Do not "
    "raise an error for undefined filters in unexecuted if-statements and conditional expressions'): "
    "the template loads, rendering raises TemplateRuntimeError, and the line to report is the line "
    "of the tag that uses the filter / test; such uses are given positional arguments only",
    "for dict-loaded templates every template frame carries the same pseudo filename, so only the "
    "line (not which template) is checked there; the filesystem loader checks both; for precompiled "
    "templates the template is identified by Template.filename of the ModuleLoader-loaded template "
    "(its module file), the line is the line of the ORIGINAL template source",
]
NSHARDS = {"quick": 16, "thorough": 16}
BUDGET_S = {"quick": 14, "thorough": 360}
FLOORS = {
    "quick": {"evaluations": 3000, "distinct": 2000,
              "counters": {"runtime_line_checks": 1500, "syntax_line_checks": 800,
                           "fs_filename_checks": 130, "async_cases": 400,
                           "site_after_stripped_newlines": 300, "crossed_template": 500,
                           "multiline_before_site": 2500, "const_site_checks": 250,
                           "finalize_env_cases": 250, "load_checks": 2000,
                           # 711 / 453 in a time-boxed quick run at load
                           "missing_filter_in_conditional_site_checks": 150,
                           "missing_test_in_conditional_site_checks": 100,
                           # precompiled (compile_templates -> ModuleLoader) runtime cases:
                           # 1581 / 525 / 1056 / 1581 / 203 in a time-boxed quick run at load
                           "precompiled_line_checks": 400, "precompiled_dir_line_checks": 130,
                           "precompiled_zip_line_checks": 260, "precompiled_filename_checks": 400,
                           "precompiled_site_abuts_next_tag_line": 50}},
    # thorough: 960k evaluations / 913k distinct in 281 s (count-bounded) at load
    # ~1x, 417k / 403k (time-boxed) at load ~4x; floors = 1/4 of the latter
    # wave 8: a third of the runtime cases now goes through compile_templates + ModuleLoader
    # (slower per case); a thorough run beside four other thorough sweeps (load ~5x) gave
    # site_after_stripped_newlines=23546 against the old floor of 24000 -> floors halved
    "thorough": {"evaluations": 50000, "distinct": 48000,
                 "counters": {"runtime_line_checks": 32000, "syntax_line_checks": 16000,
                              "fs_filename_checks": 5500, "async_cases": 16000,
                              "site_after_stripped_newlines": 12000, "crossed_template": 22000,
                              "multiline_before_site": 48000, "const_site_checks": 7500,
                              "finalize_env_cases": 6000, "load_checks": 50000,
                              "missing_filter_in_conditional_site_checks": 3000,
                              "missing_test_in_conditional_site_checks": 2000,
                              "precompiled_line_checks": 16000, "precompiled_dir_line_checks": 5000,
                              "precompiled_zip_line_checks": 10000,
                              "precompiled_filename_checks": 16000,
                              "precompiled_site_abuts_next_tag_line": 2000}},
}

SITE = "\x00SITE\x00"
_nl_re = re.compile(r"\r\n|\r|\n")


class Boom(Exception):
    pass


def boom(*a, **k):
    raise Boom("boom")


class Obj:
    ok = 1

    @property
    def boomattr(self):
        raise Boom("attr")

    def raiser(self):
        raise Boom("method")



def finalize_boom(v):
    """finalize hook of some environments: rejects None and one marker string."""
    if v is None or (type(v) is str and v == "FINBOOM"):
        raise Boom("finalize")
    return v


class ObjItem:
    def __getitem__(self, k):
        raise Boom("item")


# (kind, source, expected exception name, needs)
RAISING = [
    ("call", "{{ boom() }}", "Boom"),
    ("call-filtered", "{{ boom()|upper }}", "Boom"),
    ("call-in-expr", "{{ 1 + boom() }}", "Boom"),
    ("call-arg", "{{ ident(boom()) }}", "Boom"),
    ("set", "{% set q = boom() %}", "Boom"),
    ("if", "{% if boom() %}x{% endif %}", "Boom"),
    ("for", "{% for q in boom() %}x{% endfor %}", "Boom"),
    ("with", "{% with q = boom() %}x{% endwith %}", "Boom"),
    ("print", "{% print boom() %}", "Boom"),
    ("do", "{% do boom() %}", "Boom"),
    ("filter", "{{ 'a'|boomf }}", "Boom"),
    ("test", "{% if 1 is boomt %}x{% endif %}", "Boom"),
    ("attr", "{{ obj.boomattr }}", "Boom"),
    ("item", "{{ objitem['k'] }}", "Boom"),
    ("zerodiv", "{{ 1/0 }}", "ZeroDivisionError"),
    ("zerodiv-var", "{{ 1 // zero }}", "ZeroDivisionError"),
    ("undefined-chain", "{{ und.y.z }}", "UndefinedError"),
    ("undefined-attr", "{{ obj.missing.z }}", "UndefinedError"),
    ("undefined-print", "{{ und }}", "UndefinedError"),
    ("callblock-call", "{% call boom() %}x{% endcall %}", "Boom"),
    ("filter-block", "{% filter boomf %}x{% endfilter %}", "Boom"),
    ("set-block-filter", "{% set q | boomf %}x{% endset %}", "Boom"),
    ("macro-default", "{% macro dm(a=boom()) %}{{ a }}{% endmacro %}{{ dm() }}", "Boom"),
    ("elif", "{% if false %}{% elif boom() %}x{% endif %}", "Boom"),
    ("for-filter", "{% for q in items if boom() %}x{% endfor %}", "Boom"),
    ("include-expr", "{% include boom() %}", "Boom"),
    ("import-expr", "{% import boom() as q %}", "Boom"),
    ("autoescape-expr", "{% autoescape boom() %}x{% endautoescape %}", "Boom"),
    ("cond-expr", "{{ 1 if boom() else 2 }}", "Boom"),
    ("test-arg", "{{ 1 is divisibleby(zero) }}", "ZeroDivisionError"),
    ("slice", "{{ items[boom():] }}", "Boom"),
    ("dict-literal", "{{ {'a': boom()} }}", "Boom"),
    ("concat", "{{ 'a' ~ boom() }}", "Boom"),
    ("method", "{{ obj.raiser() }}", "Boom"),
    ("ns-set", "{% set nsg.a = boom() %}", "Boom"),
    ("trans", "{% trans q=boom() %}{{ q }}{% endtrans %}", "Boom"),
    ("set-tuple", "{% set q, r = boom() %}", "Boom"),
    ("include-missing", "{% include 'missing.html' %}", "TemplateNotFound"),
    ("import-missing", "{% import 'missing.html' as q %}", "TemplateNotFound"),
    ("from-missing", "{% from 'missing.html' import q %}", "TemplateNotFound"),
    # every remaining expression position of the statements used here
    ("filter-arg", "{{ 'a'|replace(boom(), 'b') }}", "Boom"),
    ("filter-kwarg", "{{ 'a'|default(value=boom()) }}", "Boom"),
    ("filter-block-arg", "{% filter replace(boom(), 'b') %}x{% endfilter %}", "Boom"),
    ("set-block-filter-arg", "{% set q | replace(boom(), 'b') %}x{% endset %}", "Boom"),
    ("call-kwarg", "{{ ident(v=boom()) }}", "Boom"),
    ("macro-call-arg", "{% macro cm1(a) %}{{ a }}{% endmacro %}{{ cm1(boom()) }}", "Boom"),
    ("callblock-arg", "{% macro cw1(a) %}[{{ caller() }}]{% endmacro %}{% call cw1(boom()) %}x{% endcall %}",
     "Boom"),
    ("from-expr", "{% from boom() import q %}", "Boom"),
    ("include-list-expr", "{% include [boom(), 'x'] %}", "Boom"),
    ("with-second-value", "{% with p = 1, q = boom() %}x{% endwith %}", "Boom"),
    ("print-second", "{% print 1, boom() %}", "Boom"),
    ("for-recursive-iter", "{% for q in boom() recursive %}x{% endfor %}", "Boom"),
    ("getitem-expr", "{{ items[boom()] }}", "Boom"),
    ("test-arg-call", "{{ 1 is divisibleby(boom()) }}", "Boom"),
    ("list-literal", "{{ [1, boom()] }}", "Boom"),
    ("compare", "{{ 1 < boom() }}", "Boom"),
    ("and-or", "{{ true and boom() }}", "Boom"),
    ("extends-expr", "{% extends boom() %}", "Boom", "top"),
    # compile-time constant expressions that cannot be evaluated / printed: the error
    # belongs to rendering (loading the template succeeds) and to this line
    ("const-item-missing", "{{ ['x', 'y'][5] }}", "UndefinedError"),
    ("const-attr-missing", "{{ {'k': 1}.missing }}", "UndefinedError"),
    ("const-str-attr-missing", "{{ 'abc'.nope }}", "UndefinedError"),
    ("const-missing-chain", "{{ (1).zz.yy }}", "UndefinedError"),
    ("const-filter-raises", "{{ 'abc'|round }}", "TypeError"),
    ("const-filter-undefined", "{{ []|first }}", "UndefinedError"),
    ("const-filter-arg-undefined", "{{ 'a'|default([][0].x) }}", "UndefinedError"),
    ("const-sum-raises", "{{ [1, 'a']|sum }}", "TypeError"),
    ("const-floordiv-zero", "{{ 1 // 0 }}", "ZeroDivisionError"),
    ("const-mod-zero", "{{ 1 % 0 }}", "ZeroDivisionError"),
    ("const-test-raises", "{{ 1 is divisibleby(0) }}", "ZeroDivisionError"),
    ("const-unary-raises", "{{ -'a' }}", "TypeError"),
    ("const-pow-raises", "{{ 2 ** 'a' }}", "TypeError"),
    ("const-compare-undefined", "{{ 1 < [][0] }}", "UndefinedError"),
    ("const-in-undefined", "{{ 'a' in [][0] }}", "UndefinedError"),
    ("const-or-undefined", "{{ 0 or [][0] }}", "UndefinedError"),
    ("const-not-undefined", "{{ not [][0] }}", "UndefinedError"),
    ("const-dict-unhashable", "{{ {[1]: 2} }}", "TypeError"),
    ("const-and-undefined", "{{ [][0] and 1 }}", "UndefinedError"),
    ("const-condexpr-undefined", "{{ 1 if [][0] else 2 }}", "UndefinedError"),
    ("const-concat-undefined", "{{ 'a' ~ 'b'.zz }}", "UndefinedError"),
    ("const-join-undefined", "{{ [[][0]]|join }}", "UndefinedError"),
    ("const-if-undefined", "{% if [][0] %}x{% endif %}", "UndefinedError"),
    ("const-set-raises", "{% set q = 1 // 0 %}", "ZeroDivisionError"),
    ("const-for-iter-raises", "{% for q in 1 // 0 %}x{% endfor %}", "ZeroDivisionError"),
    ("const-print-second", "{% print 1, [1][3] %}", "UndefinedError"),
    ("const-filter-block", "{% filter round %}x{% endfilter %}", "TypeError"),
    # a finalize hook that rejects a value (environment option finalize)
    ("finalize-const-none", "{{ none }}", "Boom", "finalize"),
    ("finalize-const-folded", "{{ 'FIN' ~ 'BOOM' }}", "Boom", "finalize"),
    ("finalize-const-filtered", "{{ 'finboom'|upper }}", "Boom", "finalize"),
    ("finalize-const-item", "{{ [1, none][1] }}", "Boom", "finalize"),
    ("finalize-var", "{{ finvar }}", "Boom", "finalize"),
    ("finalize-call", "{{ ident(none) }}", "Boom", "finalize"),
    # a filter / test the environment does not provide, used DIRECTLY inside an if / elif / else
    # body or condition or an inline if: the template loads (CHANGES 2.11 'Do not raise an error for
    # undefined filters in unexecuted if-statements and conditional expressions'), executing the
    # use raises TemplateRuntimeError - at this line
    ("missing-filter-in-if-body", "{% if true %}{{ 'a'|nosuchfilter }}{% endif %}", "TemplateRuntimeError"),
    ("missing-filter-in-if-body/arg", "{% if items %}<b>{{ items|nosuchfilter(1, 'x') }}</b>{% endif %}",
     "TemplateRuntimeError"),
    ("missing-filter-in-if-body/chained", "{% if true %}{{ 'a'|upper|nosuchfilter|lower }}{% endif %}",
     "TemplateRuntimeError"),
    ("missing-filter-in-else-body", "{% if false %}a{% else %}{{ 'a'|nosuchfilter }}{% endif %}",
     "TemplateRuntimeError"),
    ("missing-filter-in-elif-body", "{% if false %}a{% elif true %}{{ 'a'|nosuchfilter }}{% endif %}",
     "TemplateRuntimeError"),
    ("missing-filter-in-if-cond", "{% if 'a'|nosuchfilter %}x{% endif %}", "TemplateRuntimeError"),
    ("missing-filter-in-elif-cond", "{% if false %}a{% elif 'a'|nosuchfilter %}x{% endif %}",
     "TemplateRuntimeError"),
    ("missing-filter-in-if-set", "{% if true %}{% set q = 'a'|nosuchfilter %}{% endif %}",
     "TemplateRuntimeError"),
    ("missing-filter-in-nested-if", "{% if true %}{% if false %}{% else %}{{ zero|nosuchfilter }}{% endif %}{% endif %}",
     "TemplateRuntimeError"),
    ("missing-filter-in-inline-if/else", "{{ 'a' if false else 'b'|nosuchfilter }}", "TemplateRuntimeError"),
    ("missing-filter-in-inline-if/value", "{{ 'b'|nosuchfilter if true else 'a' }}", "TemplateRuntimeError"),
    ("missing-filter-in-inline-if/cond", "{{ 1 if 'b'|nosuchfilter else 2 }}", "TemplateRuntimeError"),
    ("missing-filter-in-inline-if/set", "{% set q = zero|nosuchfilter if items else 0 %}", "TemplateRuntimeError"),
    ("missing-filter-in-inline-if/call-arg", "{{ ident('b'|nosuchfilter if true else 'a') }}",
     "TemplateRuntimeError"),
    ("missing-test-in-if-cond", "{% if 1 is nosuchtest %}x{% endif %}", "TemplateRuntimeError"),
    ("missing-test-in-if-cond/not", "{% if zero is not nosuchtest(3) %}x{% endif %}", "TemplateRuntimeError"),
    ("missing-test-in-if-cond/and", "{% if items and zero is nosuchtest %}x{% endif %}", "TemplateRuntimeError"),
    ("missing-test-in-elif-cond", "{% if false %}{% elif 1 is nosuchtest %}x{% endif %}", "TemplateRuntimeError"),
    ("missing-test-in-if-body", "{% if true %}{{ 1 is nosuchtest }}{% endif %}", "TemplateRuntimeError"),
    ("missing-test-in-else-body", "{% if false %}{% else %}{{ 1 is nosuchtest }}{% endif %}", "TemplateRuntimeError"),
    ("missing-test-in-inline-if/cond", "{{ 'odd' if 1 is nosuchtest else 'even' }}", "TemplateRuntimeError"),
    ("missing-test-in-inline-if/and", "{{ 'odd' if items and zero is nosuchtest else 'even' }}",
     "TemplateRuntimeError"),
    ("missing-test-in-inline-if/value", "{{ (1 is nosuchtest) if true else 'even' }}", "TemplateRuntimeError"),
]
# statements spanning several lines; the tag that holds the raising expression
# is a complete single-line tag on a line of its own (marked @@), with other
# statements / branches of the same statement on the lines before and after it.
# "\n" is replaced by a random line-break form.
RAISING_ML = [
    ("ml:elif-cond/first", "{% if false %}\nq\n@@{% elif boom() %}\nx\n{% endif %}", "Boom"),
    ("ml:elif-cond/second", "{% if false %}\nq\n{% elif false %}\nr\n\n@@{% elif boom() %}\nx\n{% else %}\ny\n{% endif %}",
     "Boom"),
    ("ml:elif-cond/after-empty-body", "{% if false %}\n@@{% elif boom() %}\nc\n{% endif %}", "Boom"),
    ("ml:elif-cond/after-nested", "{% if false %}\n{% for q in items %}\n{{ q }}\n{% endfor %}\n@@{% elif boom() %}\nc\n{% endif %}",
     "Boom"),
    ("ml:if-after-stmt", "{% set _p = 1 %}\n@@{% if boom() %}\nx\n{% endif %}\n{% set _t = 1 %}", "Boom"),
    ("ml:if-in-else", "{% if false %}\na\n{% else %}\n@@{% if boom() %}x{% endif %}\n{% endif %}", "Boom"),
    ("ml:elif-body", "{% if false %}\na\n{% elif true %}\nb\n@@{{ boom() }}\n{% endif %}", "Boom"),
    ("ml:else-body", "{% if false %}\na\n{% else %}\nb\n@@{{ boom() }}\n{% endif %}", "Boom"),
    ("ml:for-iter", "{% set _p = 1 %}\n@@{% for q in boom() %}\n{{ q }}\n{% endfor %}", "Boom"),
    ("ml:for-filter", "x\n@@{% for q in items if boom() %}\n{{ q }}\n{% endfor %}", "Boom"),
    ("ml:for-else-body", "{% for q in [] %}\na\n{% else %}\n@@{{ boom() }}\n{% endfor %}", "Boom"),
    ("ml:for-body-second-stmt", "{% for q in items %}\n{{ q }}\n@@{% set r = boom() %}\n{% endfor %}", "Boom"),
    ("ml:set-between", "{% set _a = 1 %}\n@@{% set q = boom() %}\n{% set _b = 2 %}", "Boom"),
    ("ml:with-after-with", "{% with _a = 1 %}\n{{ _a }}\n{% endwith %}\n@@{% with q = boom() %}\nx\n{% endwith %}",
     "Boom"),
    ("ml:with-body", "{% with _a = 1 %}\n{{ _a }}\n@@{{ boom() }}\n{% endwith %}", "Boom"),
    ("ml:macro-default", "@@{% macro dm2(a=boom()) %}\n{{ a }}\n{% endmacro %}\n\n{{ dm2() }}", "Boom"),
    ("ml:macro-body", "{% macro mb2() %}\na\n@@{{ boom() }}\n{% endmacro %}\n\n{{ mb2() }}", "Boom"),
    ("ml:macro-call-arg", "{% macro cm2(a) %}\n{{ a }}\n{% endmacro %}\n@@{{ cm2(boom()) }}\n", "Boom"),
    ("ml:callblock-arg", "{% macro cw2(a) %}[{{ caller() }}]{% endmacro %}\n@@{% call cw2(boom()) %}\nx\n{% endcall %}",
     "Boom"),
    ("ml:callblock-body", "{% macro cw3() %}[{{ caller() }}]{% endmacro %}\n{% call cw3() %}\nx\n@@{{ boom() }}\n{% endcall %}",
     "Boom"),
    ("ml:filter-block-arg", "x\n@@{% filter replace(boom(), 'b') %}\nx\n{% endfilter %}", "Boom"),
    ("ml:filter-block-body", "{% filter upper %}\nx\n@@{{ boom() }}\n{% endfilter %}", "Boom"),
    ("ml:set-block-filter-arg", "x\n@@{% set q | replace(boom(), 'b') %}\nx\n{% endset %}", "Boom"),
    ("ml:set-block-filter", "x\n@@{% set q | boomf %}\nx\ny\n{% endset %}\nz", "Boom"),
    ("ml:filter-block-filter", "x\n@@{% filter boomf %}\nx\ny\n{% endfilter %}\nz", "Boom"),
    ("ml:callblock-call", "x\n@@{% call boom() %}\nx\ny\n{% endcall %}\nz", "Boom"),
    ("ml:set-block-body", "{% set cap %}\nx\n@@{{ boom() }}\n{% endset %}", "Boom"),
    ("ml:include-expr", "x\n@@{% include boom() %}\ny", "Boom"),
    ("ml:import-expr", "{% set _p = 1 %}\n@@{% import boom() as q %}\ny", "Boom"),
    ("ml:autoescape-expr", "x\n@@{% autoescape boom() %}\nx\n{% endautoescape %}", "Boom"),
    ("ml:autoescape-body", "{% autoescape true %}\nx\n@@{{ boom() }}\n{% endautoescape %}", "Boom"),
    ("ml:trans-after-trans", "{% trans %}\na\n{% endtrans %}\n@@{% trans q=boom() %}{{ q }}{% endtrans %}", "Boom"),
    ("ml:do-between", "{% do 1 %}\n@@{% do boom() %}\n{% do 2 %}", "Boom"),
    ("ml:output-third-line", "a\n{{ 1 }}\n@@{{ boom() }}\nb", "Boom"),
    ("ml:const-output-third-line", "a\n{{ 1 }}\n@@{{ ['x'][3] }}\nb", "UndefinedError"),
    ("ml:const-output-between-consts", "{{ 'a' }}\n{{ 2 }}\n@@{{ 'abc'.nope }}\n{{ 3 }}", "UndefinedError"),
    ("ml:const-elif-cond", "{% if false %}\nq\n@@{% elif 1 // 0 %}\nx\n{% endif %}", "ZeroDivisionError"),
    ("ml:const-else-body", "{% if false %}\na\n{% else %}\nb\n@@{{ {'k': 1}.missing }}\n{% endif %}", "UndefinedError"),
    ("ml:const-for-body", "{% for q in items %}\n{{ q }}\n@@{{ 1 % 0 }}\n{% endfor %}", "ZeroDivisionError"),
    ("ml:missing-filter-in-if-body", "{% if true %}\nq\n@@{{ 'a'|nosuchfilter }}\n{% endif %}", "TemplateRuntimeError"),
    ("ml:missing-filter-in-if-body/second", "a\nb\n{% if items %}\n{{ 1 }}\n@@  <b>{{ zero|nosuchfilter }}</b>\n{% endif %}\nlast",
     "TemplateRuntimeError"),
    ("ml:missing-filter-in-else-body", "{% if false %}\na\n{% else %}\nb\n@@{{ items|nosuchfilter }}\n{% endif %}",
     "TemplateRuntimeError"),
    ("ml:missing-filter-in-elif-body", "{% if false %}\na\n{% elif true %}\n@@{{ items|nosuchfilter }}\n{% else %}\nc\n{% endif %}",
     "TemplateRuntimeError"),
    ("ml:missing-filter-in-if-cond", "{% set _p = 1 %}\n@@{% if 'a'|nosuchfilter %}\nx\n{% endif %}", "TemplateRuntimeError"),
    ("ml:missing-test-in-if-cond", "{% set _p = 1 %}\nx\n@@{% if 1 is nosuchtest %}\nx\n{% endif %}", "TemplateRuntimeError"),
    ("ml:missing-test-in-elif-cond", "{% if false %}\nq\n@@{% elif 1 is nosuchtest %}\nx\n{% endif %}",
     "TemplateRuntimeError"),
    ("ml:missing-test-in-if-body", "{% if true %}\nq\n\n@@{{ 'odd' if zero is nosuchtest else 'even' }}\n{% endif %}",
     "TemplateRuntimeError"),
    ("ml:missing-filter-in-inline-if", "a\n{{ 1 }}\n@@{{ 'a' if false else 'b'|nosuchfilter }}\nb", "TemplateRuntimeError"),
    ("ml:missing-test-in-inline-if", "a\n{% set _p = 1 %}\n@@{{ 'odd' if 1 is nosuchtest else 'even' }}\nb",
     "TemplateRuntimeError"),
]
MALFORMED = [
    ("binop-eof", "{{ 1 + }}"), ("stray-paren", "{{ ) }}"), ("pipe-eof", "{{ x | }}"),
    ("dot-eof", "{{ x. }}"), ("two-ints", "{{ 1 1 }}"), ("bang", "{{ x ! y }}"),
    ("if-empty", "{% if %}x{% endif %}"), ("unknown-tag", "{% nosuchtag %}"),
    ("for-no-in", "{% for x %}{% endfor %}"), ("unknown-end", "{% endnosuch %}"),
    ("set-empty", "{% set %}"), ("bad-ident", "{{ ² }}"),
    ("dup-block", "{% block dupq %}{% endblock %}{% block dupq %}{% endblock %}"),
    ("import-underscore", "{% from 'x.html' import _private %}"),
    ("stray-bracket", "{{ x ]] }}"), ("tilde-eof", "{{ 'a' ~ }}"),
    ("macro-int-name", "{% macro 1() %}{% endmacro %}"), ("include-empty", "{% include %}"),
    ("star", "{{ * }}"), ("two-names", "{{ x y }}"), ("assign-const", "{% set true = 1 %}"),
    ("dup-block-arg", "{% macro mq(a=1, b) %}{% endmacro %}"),
]

SAME_TPL_WRAPPERS = ["if", "else", "for", "with", "macro", "callblock", "filterblock", "setblock",
                     "autoescape", "block"]
CROSS_WRAPPERS = ["include", "importmacro", "childblock", "parentblock", "parentsuper", "parenttop"]


class Gen:
    def __init__(self, r):
        self.r = r
        self.n = 0
        self.templates = {}
        self.feat_before = set()

    def uid(self):
        self.n += 1
        return self.n

    def nl(self):
        return self.r.choice(["\n", "\n", "\r\n", "\r"])

    def filler(self, before):
        """Valid content spanning several lines.  `before` only matters for
        recording which features precede the site in its template."""
        r = self.r
        out = []
        feats = set()
        for _ in range(r.randint(0, 4)):
            k = r.randrange(14)
            nl = self.nl
            if k <= 2:
                out.append(r.choice(["text line", "a b c", "<p>x</p>", "  indented", "{ }"]) + nl())
                feats.add("text")
            elif k == 3:
                out.append(nl() + nl())
                feats.add("blank")
            elif k == 4:
                out.append("{% if" + nl() + "  true" + nl() + "%}ok{% endif %}" + nl())
                feats.add("multiline-tag")
            elif k == 5:
                out.append("{{ [1," + nl() + " 2," + nl() + " 3]|length }}" + nl())
                feats.add("multiline-expr")
            elif k == 6:
                out.append("{% set _f =" + nl() + " 1 %}" + r.choice(["", nl()]))
                feats.add("multiline-set")
            elif k == 7:
                out.append("{{ 'a" + nl() + "b' }}" + r.choice(["", nl()]))
                feats.add("multiline-string")
            elif k == 8:
                out.append("{#" + r.choice(["", "-"]) + " c" + nl() + " c" + nl() +
                           r.choice(["", "-"]) + "#}" + r.choice(["", nl()]))
                feats.add("multiline-comment")
            elif k == 9:
                out.append("x" + nl() + nl() + "{%- if true -%}" + nl() + nl() + "y" + nl() +
                           "{%- endif -%}" + nl())
                feats.add("wsctrl-tags")
            elif k == 10:
                out.append("x" + nl() + nl() + "{{- 1 -}}" + nl() + nl() + "y")
                feats.add("wsctrl-var")
            elif k == 11:
                out.append("{% raw " + r.choice(["", "-"]) + "%}" + nl() + "{{ boom() }}" + nl() +
                           "{% nosuchtag %}" + nl() + "{%" + r.choice(["", "-"]) + " endraw " +
                           r.choice(["", "-"]) + "%}" + nl())
                feats.add("raw")
            elif k == 12:
                out.append("{% for _g in items %}" + nl() + "{{ _g }}" + nl() + "{% endfor %}" + nl())
                feats.add("loop")
            else:
                out.append("{#- c -#}" + nl() + nl())
                feats.add("wsctrl-comment")
        if before:
            self.feat_before |= feats
        return "".join(out)

    def wrap_same(self, kind, inner):
        r, nl = self.r, self.nl
        i = self.uid()
        f0, f1 = self.filler(True), self.filler(False)
        if kind == "if":
            return "{% if true %}" + f0 + inner + f1 + "{% endif %}"
        if kind == "else":
            return "{% if false %}" + nl() + "no" + nl() + "{% else %}" + f0 + inner + f1 + "{% endif %}"
        if kind == "for":
            return "{% for _i" + str(i) + " in items %}" + f0 + inner + f1 + "{% endfor %}"
        if kind == "with":
            return "{% with _w" + str(i) + " = 1 %}" + f0 + inner + f1 + "{% endwith %}"
        if kind == "macro":
            return "{% macro m" + str(i) + "(a=1) %}" + f0 + inner + f1 + "{% endmacro %}" + \
                self.filler(False) + "{{ m" + str(i) + "() }}"
        if kind == "callblock":
            return "{% macro w" + str(i) + "() %}[{{ caller() }}]{% endmacro %}" + nl() + \
                "{% call w" + str(i) + "() %}" + f0 + inner + f1 + "{% endcall %}"
        if kind == "filterblock":
            return "{% filter upper %}" + f0 + inner + f1 + "{% endfilter %}"
        if kind == "setblock":
            return "{% set cap" + str(i) + " %}" + f0 + inner + f1 + "{% endset %}"
        if kind == "autoescape":
            return "{% autoescape true %}" + f0 + inner + f1 + "{% endautoescape %}"
        if kind == "block":
            return "{% block b" + str(i) + " %}" + f0 + inner + f1 + "{% endblock %}"
        raise AssertionError(kind)

    def close_template(self, body, prefix):
        name = f"{prefix}{self.uid()}.html"
        self.templates[name] = body
        return name

    def wrap_cross(self, kind, inner):
        """Puts `inner` into its own template and returns (new inner for the
        outer template, entry_only) — entry_only means the result must be the
        whole outer template body (child templates)."""
        nl = self.nl
        i = self.uid()
        f0, f1 = self.filler(True), self.filler(False)
        if kind == "include":
            name = self.close_template(f0 + inner + f1, "inc")
            return "{% include '" + name + "' %}"
        if kind == "importmacro":
            name = self.close_template(
                f0 + "{% macro lm" + str(i) + "() %}" + self.filler(True) + inner + f1 +
                "{% endmacro %}" + self.filler(False), "lib")
            if self.r.random() < 0.5:
                return "{% from '" + name + "' import lm" + str(i) + " %}" + self.filler(False) + \
                    "{{ lm" + str(i) + "() }}"
            return "{% import '" + name + "' as lib" + str(i) + " %}" + self.filler(False) + \
                "{{ lib" + str(i) + ".lm" + str(i) + "() }}"
        if kind == "childblock":
            base = self.close_template(
                self.filler(False) + "{% block content %}default{% endblock %}" + self.filler(False),
                "base")
            child = self.close_template(
                "{% extends '" + base + "' %}" + nl() + f0 + "{% block content %}" +
                self.filler(True) + inner + f1 + "{% endblock %}" + self.filler(False), "child")
            return "{% include '" + child + "' %}"
        if kind in ("parentblock", "parentsuper"):
            base = self.close_template(
                f0 + "{% block content %}" + self.filler(True) + inner + f1 + "{% endblock %}" +
                self.filler(False), "base")
            body = "{% extends '" + base + "' %}" + nl() + self.filler(False)
            if kind == "parentsuper":
                body += "{% block content %}" + self.filler(False) + "{{ super() }}" + nl() + \
                    "{% endblock %}"
            else:
                body += "{% block other %}unused{% endblock %}"
            child = self.close_template(body, "child")
            return "{% include '" + child + "' %}"
        if kind == "parenttop":
            base = self.close_template(f0 + inner + f1 + "{% block content %}d{% endblock %}", "base")
            child = self.close_template("{% extends '" + base + "' %}" + nl() +
                                        "{% block content %}c{% endblock %}", "child")
            return "{% include '" + child + "' %}"
        raise AssertionError(kind)


def gen_case(r, part):
    """-> JSON-able case dict."""
    g = Gen(r)
    top_only = False
    needs_finalize = False
    multiline = False
    if part == "runtime" and r.random() < 0.35:
        kind, site_src, exc = r.choice(RAISING_ML)
        multiline = True
        site_src = "".join(g.nl() if ch == "\n" else ch for ch in site_src)
    elif part == "runtime":
        row = r.choice(RAISING)
        kind, site_src, exc = row[:3]
        top_only = len(row) > 3 and row[3] == "top"
        needs_finalize = len(row) > 3 and row[3] == "finalize"
    else:
        kind, site_src = r.choice(MALFORMED)
        exc = "TemplateSyntaxError"
    # optional whitespace control on the site tag itself, preceded by line
    # breaks that it strips
    ws = "" if multiline else r.choice(["", "", "", "l", "r", "lr"])
    stripped_before = False
    if ws:
        op = site_src[:2]
        first_end = site_src.index("}}" if op == "{{" else "%}")
        s = site_src
        if "r" in ws:
            s = s[:first_end] + "-" + s[first_end:]
        if "l" in ws:
            s = s[:2] + "-" + s[2:]
        site_src = s
    lead = ""
    if r.random() < 0.5:
        # something before the site on its line, or a statement on the line above
        lead = r.choice(["text ", "{{ 1 }} ", "{% if true %}{% endif %}", "  ",
                         "{% set _p0 = 1 %}" + g.nl(), "{{ 1 }}" + g.nl()])
        if "l" in ws and not lead.strip():
            stripped_before = True
    if "l" in ws and r.random() < 0.7:
        lead = r.choice(["x", ""]) + g.nl() * r.randint(1, 3) + r.choice(["", "  "])
        stripped_before = True
    tail = r.choice(["", "", " tail", g.nl() + g.nl(), g.nl() + "{{ 2 }}", g.nl() + "{% set _t0 = 2 %}"])
    if "@@" in site_src:
        site_src = site_src.replace("@@", SITE)
    else:
        site_src = SITE + site_src
    inner = g.filler(True) + lead + site_src + tail + g.filler(False)
    # wrapper chain, innermost first
    depth = r.choice([0, 1, 1, 2, 2, 3, 4])
    chain = []
    crossed = False
    block_ok = True
    # choose outermost->innermost respecting: no block inside macro/call/set/filter
    kinds_out_in = []
    for _ in range(depth):
        if top_only:
            # statements that belong at the top level of a template
            kinds_out_in.append(r.choice(["if", "else", "include"]))
        elif part == "runtime" and r.random() < 0.35:
            kinds_out_in.append(r.choice(CROSS_WRAPPERS))
        elif part == "syntax" and r.random() < 0.25:
            kinds_out_in.append("include")
        else:
            kinds_out_in.append(r.choice(SAME_TPL_WRAPPERS))
    fixed = []
    for k in kinds_out_in:
        if k in CROSS_WRAPPERS:
            block_ok = True
        if k == "block" and not block_ok:
            k = "if"
        if k == "autoescape" and kind.startswith("finalize-const"):
            # what finalize receives for an escaped constant is not this property's subject
            k = "if"
        if k in ("macro", "callblock", "setblock", "filterblock"):
            block_ok = False
        fixed.append(k)
    for k in reversed(fixed):
        if k in CROSS_WRAPPERS:
            inner = g.wrap_cross(k, inner)
            crossed = True
        else:
            inner = g.wrap_same(k, inner)
        chain.append(k)
    g.templates["main.html"] = g.filler(False) + inner + g.filler(False)
    # locate the site
    site_tpl = None
    for name, src in g.templates.items():
        if SITE in src:
            site_tpl = name
            before = src[:src.index(SITE)]
            line = 1 + len(_nl_re.findall(before))
            g.templates[name] = src.replace(SITE, "")
    assert site_tpl is not None
    return {
        "part": part, "kind": kind, "exc": exc, "ws": ws, "chain": chain, "crossed": crossed,
        "templates": g.templates, "site_tpl": site_tpl, "line": line,
        "stripped_before": stripped_before, "feat_before": sorted(g.feat_before),
        "env": r.choice(["default", "default", "trim", "lstrip", "trim+lstrip"]),
        # runtime cases also go through templates PRECOMPILED with Environment.compile_templates
        # (directory / zip archive target) and loaded back with ModuleLoader
        "loader": r.choice(["dict", "dict", "fs", "module-dir", "module-zip", "module-zip-deflated"]
                           if part == "runtime" else ["dict", "dict", "fs"]),
        "mode": r.choice(["sync", "sync", "async"]),
        "finalize": needs_finalize or r.random() < 0.15,
    }


def make_env(case, tmpdir):
    import jinja2

    kw = {}
    if "trim" in case["env"].split("+"):
        kw["trim_blocks"] = True
    if "lstrip" in case["env"].split("+"):
        kw["lstrip_blocks"] = True
    if case.get("finalize"):
        kw["finalize"] = finalize_boom
    if case["loader"] == "fs":
        for name, src in case["templates"].items():
            with open(os.path.join(tmpdir, name), "w", encoding="utf-8", newline="") as f:
                f.write(src)
        loader = jinja2.FileSystemLoader(tmpdir)
    else:
        loader = jinja2.DictLoader(dict(case["templates"]))

    def build(loader):
        env = jinja2.Environment(loader=loader, undefined=jinja2.StrictUndefined,
                                 extensions=["jinja2.ext.do", "jinja2.ext.i18n"],
                                 enable_async=case["mode"] == "async",
                                 cache_size=50, auto_reload=False, **kw)
        env.install_null_translations()
        env.globals.update(nsg=jinja2.utils.Namespace(), boom=boom, ident=lambda v: v, obj=Obj(),
                           objitem=ObjItem(), zero=0, items=[1, 2], finvar="FINBOOM")
        env.filters["boomf"] = boom
        env.tests["boomt"] = boom
        return env

    env = build(loader)
    if case["loader"].startswith("module-"):
        # documented deployment path (api.rst "ModuleLoader", Environment.compile_templates):
        # an identically configured environment precompiles the whole template set, a second
        # one loads the compiled modules only
        if case["loader"] == "module-dir":
            target, zmode = os.path.join(tmpdir, "compiled"), None
        else:
            target = os.path.join(tmpdir, "compiled.zip")
            zmode = "deflated" if case["loader"].endswith("deflated") else "stored"
        env.compile_templates(target, zip=zmode, ignore_errors=False)
        env = build(jinja2.ModuleLoader(target))
    return env


def site_abuts_next_tag_line(case):
    """Source-text classification (documented whitespace control only): the line holding the
    site ends with a tag whose trailing line break is removed ('-' on the closing delimiter, a
    block tag under trim_blocks, or '-' on the opening delimiter of the next tag) and the next
    line starts with a tag -- i.e. no template data separates the site's tag from the next one."""
    src = case["templates"][case["site_tpl"]]
    lines = _nl_re.split(src)
    i = case["line"] - 1
    if i + 1 >= len(lines):
        return False
    cur, nxt = lines[i], lines[i + 1]
    nxt_s = nxt.lstrip(" \t")
    if not nxt_s.startswith(("{%", "{{")):
        return False
    if nxt_s.startswith(("{%-", "{{-")) and cur.rstrip(" \t").endswith(("%}", "}}")):
        return True
    if nxt_s != nxt and not ("lstrip" in case["env"] and nxt_s.startswith("{%")):
        return False
    if cur.endswith(("-%}", "-}}")):
        return True
    return "trim" in case["env"] and cur.endswith("%}")


def check_case(ctx, case):
    import jinja2

    tmpdir = tempfile.mkdtemp(prefix="c35_") if case["loader"] != "dict" else None
    try:
        _check(ctx, case, tmpdir, jinja2)
    finally:
        if tmpdir:
            shutil.rmtree(tmpdir, ignore_errors=True)


def _check(ctx, case, tmpdir, jinja2):
    env = make_env(case, tmpdir)
    part = case["part"]
    ctx.ev()
    if case["mode"] == "async":
        ctx.count("async_cases")
    if case["stripped_before"]:
        ctx.count("site_after_stripped_newlines")
    if case["crossed"]:
        ctx.count("crossed_template")
    if case["line"] > 1:
        ctx.count("multiline_before_site")
    mech = case["kind"].split("/")[0]     # variants of one construct share the key
    tag = f"{part}:{mech}"
    desc = (f"{case['kind']} at {case['site_tpl']}:{case['line']} chain={case['chain']} "
            f"env={case['env']} loader={case['loader']} mode={case['mode']}"
            + (" finalize-hook" if case.get("finalize") else ""))
    if case.get("finalize"):
        ctx.count("finalize_env_cases")
    const_site = mech.startswith(("const-", "finalize-const", "ml:const-"))
    if part == "runtime":
        # every template of the set is well-formed: loading (= compiling) it succeeds, the
        # failing construct raises when it is rendered
        for name in case["templates"]:
            ctx.count("load_checks")
            try:
                env.get_template(name)
            except BaseException as e:  # noqa: BLE001
                where = mech if name == case["site_tpl"] else "other-template"
                ctx.violation(f"load-time-raise:{where}",
                              f"{desc}: get_template({name!r}) raised {type(e).__name__}: "
                              f"{str(e)[:200]} -- no template line can be reported for it; source "
                              f"{case['templates'][name]!r}", case)
                return
        if const_site:
            ctx.count("const_site_checks")
        if "missing-filter" in mech:
            ctx.count("missing_filter_in_conditional_site_checks")
        if "missing-test" in mech:
            ctx.count("missing_test_in_conditional_site_checks")
    exc = None
    try:
        t = env.get_template("main.html")
        if case["mode"] == "async":
            asyncio.run(t.render_async())
        else:
            t.render()
    except BaseException as e:  # noqa: BLE001
        exc = e
    if exc is None:
        ctx.violation(f"no-exception:{tag}", f"rendering did not raise: {desc}", case)
        return
    if type(exc).__name__ != case["exc"] and not (
            case["exc"] == "TemplateSyntaxError" and isinstance(exc, jinja2.TemplateSyntaxError)):
        ctx.violation(f"unexpected-exception:{type(exc).__name__}:{tag}",
                      f"{desc}: raised {type(exc).__name__}: {str(exc)[:300]}", case)
        return
    dist_key = (part, case["kind"], case["ws"], case["chain"], case["feat_before"], case["env"],
                case["loader"], case["mode"], bool(case.get("finalize")))
    if part == "syntax":
        ctx.count("syntax_line_checks")
        if exc.lineno != case["line"]:
            ctx.violation(f"syntax-lineno:{mech}",
                          f"{desc}: TemplateSyntaxError({exc.message!r}).lineno={exc.lineno}, the "
                          f"malformed construct is on line {case['line']} of "
                          f"{case['templates'][case['site_tpl']]!r}", case)
        if exc.name != case["site_tpl"]:
            ctx.violation("syntax-name", f"{desc}: error names template {exc.name!r}", case)
        ctx.dist(dist_key)
        return
    # runtime: innermost template frame
    names = {}
    for name in case["templates"]:
        try:
            names[name] = env.get_template(name).filename
        except Exception:  # noqa: BLE001
            names[name] = None
    fnset = {v for v in names.values() if v}
    frames = [f for f in traceback.extract_tb(exc.__traceback__) if f.filename in fnset]
    ctx.count("runtime_line_checks")
    if not frames:
        ctx.violation(f"no-template-frame:{mech}", f"{desc}: no traceback frame carries a "
                      f"template filename {sorted(fnset)}", case)
        return
    inner = frames[-1]
    if inner.lineno != case["line"]:
        ctx.violation(f"runtime-lineno:{mech}",
                      f"{desc}: innermost template frame is {inner.filename}:{inner.lineno}, the "
                      f"raising construct is on line {case['line']} of "
                      f"{case['templates'][case['site_tpl']]!r}", case)
    if case["loader"].startswith("module-"):
        ctx.count("precompiled_line_checks")
        ctx.count("precompiled_zip_line_checks" if "zip" in case["loader"]
                  else "precompiled_dir_line_checks")
        if site_abuts_next_tag_line(case):
            ctx.count("precompiled_site_abuts_next_tag_line")
    if case["loader"] != "dict":
        ctx.count("fs_filename_checks" if case["loader"] == "fs" else "precompiled_filename_checks")
        if inner.filename != names[case["site_tpl"]]:
            ctx.violation(f"runtime-filename:{mech}",
                          f"{desc}: innermost template frame names {inner.filename}, the raising "
                          f"construct is in {names[case['site_tpl']]}", case)
    ctx.dist(dist_key)


def run(ctx):
    quick = ctx.tier == "quick"
    rng = ctx.rng("cases")
    n_max = 2200 if quick else 60000
    i = 0
    while ctx.more(i, n_max, 300):
        part = "syntax" if i % 3 == 2 else "runtime"
        case = gen_case(rng, part)
        check_case(ctx, case)
        if i < 3:
            ctx.sample({k: case[k] for k in ("part", "kind", "chain", "site_tpl", "line", "env",
                                             "loader", "mode", "templates")})
        i += 1


def replay(ctx, case):
    check_case(ctx, case)
