"""C21 — every undefined type x every documented operation, checked against a
table transcribed from the documentation (vt/model/c21_table.py)."""
from __future__ import annotations

import copy
import logging
import operator
import pickle
import signal

from vt.model import c21_table as T

PID = "C21"
LEVEL = "exploration"
RULE = ("exhaustive cross product: 8 undefined types (Undefined, ChainableUndefined, "
        "DebugUndefined, StrictUndefined and make_logging_undefined over each) x 13 ways the "
        "undefined was produced (missing name / attribute / item in a template, "
        "Environment.undefined with name, obj+name, hint, hint+obj+name, exc=, direct "
        "constructor) x operations (str, format, bool, not, iter, async iter, len, hash, int, "
        "float, complex, unary +/-, call, getattr, getitem, copy, deepcopy, pickle, "
        "defined/undefined tests, default filter, + - * / // % ** < <= > >= == != in (the undefined "
        "as container and as member of a list / tuple / set / dict), both "
        "operand orders) x 19 other operands (incl. an undefined of the same class and undefined "
        "values of each OTHER undefined class: Undefined, ChainableUndefined, DebugUndefined, "
        "StrictUndefined, a foreign logging class), executed on the live object; whenever two "
        "undefined values compare equal their hashes must be equal, and list containment must "
        "agree with set/dict lookup; plus the same "
        "operations written as template expressions (sync and async environments). A cell is "
        "distinct by (type, origin, level, operation, operand kind); all cells are non-trivial "
        "(each executes one operation on a live undefined and is compared with the table). "
        "plus an attribute-name section: every type x origin x 19 attribute names of every "
        "underscore shape (x, _x, __x, __x_y, __x_, ___x, x_, x__, _x_, _x__, x__y and dunder "
        "names __x__) x 7 access ways (getattr(), hasattr(), Environment.getattr, the attr filter "
        "via call_filter, template dot access, the attr filter in a template with a literal and "
        "with a data-supplied name): only dunder names answer AttributeError, every other name "
        "fails with UndefinedError / chains; distinct by (type, origin, way, leading, trailing "
        "underscores, inner underscore). "
        "plus a constructor-argument section: every type x boundary values of EVERY constructor "
        "argument - hint (None, '', blank, text, 0, 123, []) x name (None, '', str, 7, 0, a tuple) x "
        "obj (not given, None, 0, '', a class, a dict), exc (UndefinedError / SecurityError) and the "
        "three ways of passing them (keywords, positionally, Environment.undefined) rotating - x all "
        "unary operations, the binary operations with a rotating operand, and (every hint x name, obj "
        "rotating) the template operations on the undefined handed in as data (sync, async), with "
        "the documented message rule checked on every raised error, on str() of DebugUndefined and "
        "on the logged messages: a hint with text is the message; without a hint (None or '') the "
        "generated message names the name (a str verbatim, an int / tuple key by its repr); distinct "
        "by (type, hint, obj, name, operation, operand kind). "
        "a random extension varies variable names (incl. non-ASCII identifiers), operands and "
        "attribute names (random underscore shapes), ChainableUndefined access paths (30 rounds/shard quick, up to 4000 thorough)")
TECHNIQUE = "reference-table monitor over the exhaustive type x origin x operation x operand table"
LEVEL_TEXT = ("held on every cell of the finite table (exhaustive) and on the random extension "
              "of names/operands; outcomes observed: result values, exception types, messages, "
              "logger records")
ASSUMPTIONS = [
    "len(), ==, != and hash() of the non-strict types: the docstring says 'any other operation "
    "will raise' while the implementation answers 0 / type equality; the check accepts either "
    "UndefinedError or the emptiness-consistent answer (0, not equal to a defined value, bool)",
    "a binary cell with the undefined on the right is decided only when Python's operator "
    "dispatch consults the right operand at all (probed with a neutral recording object; e.g. "
    "'str % x' is handled by str alone and is skipped)",
    "whether undefined values of two different undefined classes are equal is not documented and "
    "not demanded; demanded is only consistency: == True implies equal hashes (Python data "
    "model, CHANGES 2.6 'properly hashing undefined objects'), and `u in [x]` agrees with "
    "`u in {x}` / `u in {x: 1}` (also as the template expression (u == x) == (u in {x: 1}))",
    "an undefined on the left of ==/!= with a StrictUndefined on the right: UndefinedError is "
    "demanded only when Python gives the right operand priority (its class is a proper subclass "
    "of the left one's); otherwise the left (non-strict) operand's own answer is accepted",
    "logging variants: only the documented 'logs iterations and printing' is demanded; pickle of "
    "logging variants is not exercised (class is local to the factory)",
    "constructor arguments: 'The hint is used as error message for the exception if provided, "
    "otherwise the error message will be generated from obj and name' - an empty-string hint is "
    "no message, so the generated text is demanded (the statement: 'The error message names the "
    "missing variable or attribute'); hints outside the documented domain 'None or a string with "
    "the error message' (blank, non-str) may be used or ignored; name None / '' has nothing to "
    "name; how obj is described in the message is not checked",
    "dunder attribute names (two leading and two trailing underscores): only getattr()/hasattr() "
    "on the object are decided (AttributeError / False); what template dot access, "
    "Environment.getattr and the attr filter make of a dunder name is not documented and not "
    "checked; names consisting of underscores only or with 3+ underscores on one side and 2+ on "
    "the other are treated as ambiguous and skipped (attr_undecided)",
]
NSHARDS = {"quick": 16, "thorough": 16}
BUDGET_S = {"quick": 25, "thorough": 420}
FLOORS = {
    # the table part is exhaustive and not time-boxed, so floors sit close to the table size
    "quick": {"evaluations": 45000, "distinct": 40000,
              "counters": {"py_cells": 30000, "tmpl_cells": 12000, "async_cells": 150,
                           "outcome_err": 35000, "outcome_val": 8000, "log_checks": 150,
                           "msg_checks": 35000, "random_rounds": 120, "weak_val": 4000,
                           "attr_cells": 8000, "attr_cells_dunder": 400,
                           "attr_cells_two_leading_underscores": 3000,
                           "outcome_attrerr": 200, "hash_eq_checks": 60,
                           "container_agreement_checks": 200, "ctor_arg_cells": 50000,
                           "ctor_arg_py_cells": 40000, "ctor_arg_tmpl_cells": 9000,
                           "ctor_arg_raising_cells": 25000,
                           "ctor_arg_msg_hint_text": 4000,
                           "ctor_arg_msg_hint_blank_or_nonstr": 16000,
                           "ctor_arg_msg_nohint_must_name": 5500,
                           "ctor_arg_msg_hint_emptystr_must_name": 2800,
                           "ctor_arg_msg_nonstr_name": 4000, "ctor_arg_msg_obj_given": 4500,
                           "ctor_arg_log_checks": 1700}},
    "thorough": {"evaluations": 150000, "distinct": 40000,
                 "counters": {"py_cells": 100000, "tmpl_cells": 15000, "async_cells": 150,
                              "outcome_err": 100000, "outcome_val": 25000, "log_checks": 1000,
                              "msg_checks": 100000, "random_rounds": 1500, "chain_steps": 200,
                              "weak_val": 12000, "attr_cells": 8000,
                              "attr_cells_dunder": 400,
                              "attr_cells_two_leading_underscores": 3000,
                              "outcome_attrerr": 200, "hash_eq_checks": 60,
                              "container_agreement_checks": 200, "ctor_arg_cells": 50000,
                              "ctor_arg_py_cells": 40000, "ctor_arg_tmpl_cells": 9000,
                              "ctor_arg_raising_cells": 25000,
                              "ctor_arg_msg_hint_text": 4000,
                              "ctor_arg_msg_hint_blank_or_nonstr": 16000,
                              "ctor_arg_msg_nohint_must_name": 5500,
                              "ctor_arg_msg_hint_emptystr_must_name": 2800,
                              "ctor_arg_msg_nonstr_name": 4000, "ctor_arg_msg_obj_given": 4500,
                              "ctor_arg_log_checks": 1700}},
}

TYPE_SPECS = list(T.BASES) + [f"Logging({b})" for b in T.BASES]


class Plain:
    """Module level so instances pickle by reference."""

    present = 1

    def __eq__(self, other):
        return type(other) is Plain

    def __hash__(self):
        return 7


class ListHandler(logging.Handler):
    def __init__(self, sink):
        super().__init__()
        self.sink = sink

    def emit(self, record):
        self.sink.append((record.levelname, record.getMessage()))


_logger_n = [0]


def build_type(spec):
    """-> (cls, base_name, records or None)"""
    import jinja2

    if spec.startswith("Logging("):
        base = spec[8:-1]
        _logger_n[0] += 1
        lg = logging.getLogger(f"vt.c21.{_logger_n[0]}")
        lg.propagate = False
        lg.setLevel(logging.DEBUG)
        recs = []
        lg.handlers[:] = [ListHandler(recs)]
        cls = jinja2.make_logging_undefined(logger=lg, base=getattr(jinja2, base))
        return cls, base, recs
    return getattr(jinja2, spec), spec, None


HINT = "no first item, sequence was empty"
HINT2 = "custom hint text 123"

TEMPLATE_ORIGINS = ("name", "attr_obj", "attr_int", "dot_dict", "item_dict", "item_list")
API_ORIGINS = ("env_name", "env_obj_name", "hint", "hint_name_obj", "ctor", "ctor_obj", "exc")
ORIGINS = TEMPLATE_ORIGINS + API_ORIGINS


# boundary values of every constructor argument of the undefined types; an origin
# "args:<hint>:<obj>:<name>:<exc>:<via>" names one combination (labels, so a case is JSON-able)
class _NotGiven:
    pass


ARG_HINTS = [("none", None), ("empty", ""), ("space", " \t"), ("text", HINT2),
             ("int0", 0), ("int", 123), ("emptylist", [])]
ARG_OBJS = [("missing", _NotGiven), ("none", None), ("int0", 0), ("emptystr", ""),
            ("class", "$plaincls"), ("dict", {"present": 1})]
ARG_NAMES = [("none", None), ("empty", ""), ("str", "$nm"), ("int", 7), ("int0", 0),
             ("tuple", (1, "b"))]
ARG_EXCS = ("U", "S")
ARG_VIAS = ("ctor", "ctorpos", "env")


def args_origin(h, o, n, e="U", via="ctor"):
    return f"args:{h}:{o}:{n}:{e}:{via}"


def is_args(origin):
    return origin.startswith("args:")


def build_args(env, cls, origin, nm):
    """-> (u, info) for an "args:" origin"""
    from jinja2.sandbox import SecurityError

    _, h, o, n, e, via = origin.split(":")
    hint = copy.deepcopy(dict(ARG_HINTS)[h])
    obj = dict(ARG_OBJS)[o]
    obj = Plain if obj == "$plaincls" else copy.deepcopy(obj)
    name = dict(ARG_NAMES)[n]
    name = nm if name == "$nm" else name
    kw = {}
    if obj is not _NotGiven:
        kw["obj"] = obj
    if e == "S":
        kw["exc"] = SecurityError
    if via == "ctor":
        u = cls(hint=hint, name=name, **kw)
    elif via == "ctorpos":
        u = cls(hint, kw.pop("obj"), name, **kw) if "obj" in kw else cls(hint, name=name, **kw)
    else:
        u = env.undefined(hint, name=name, **kw)
    info = T.ctor_arg_info(hint, name, obj is not _NotGiven,
                           "SecurityError" if e == "S" else "UndefinedError")
    info["args"] = (h, o, n)
    return u, info


def origin_expr(kind, nm):
    if is_args(kind):
        return "uarg"
    return {
        "name": nm, "attr_obj": f"obj.{nm}", "attr_int": f"num.{nm}", "dot_dict": f"d.{nm}",
        "item_dict": f"d['{nm}']", "item_list": "seq[99]",
    }[kind]


def render_ctx():
    return {"obj": Plain(), "num": 42, "d": {"present": 1}, "seq": [1, 2]}


def make_undefined(env, cls, kind, nm):
    """-> (u, origin_info)"""
    from jinja2.sandbox import SecurityError

    if is_args(kind):
        return build_args(env, cls, kind, nm)
    info = {"kind": kind, "names": [nm], "hint": None, "plain_name": None, "exc": "UndefinedError"}
    if kind in TEMPLATE_ORIGINS:
        got = []
        tmpl = env.from_string("{{ grab(" + origin_expr(kind, nm) + ") }}")
        tmpl.render(grab=lambda v: got.append(v) or "", **render_ctx())
        u = got[0]
        if kind == "name":
            info["plain_name"] = nm
        if kind == "item_list":
            info["names"] = ["99"]
    elif kind == "env_name":
        u = env.undefined(name=nm)
        info["plain_name"] = nm
    elif kind == "env_obj_name":
        u = env.undefined(obj=Plain(), name=nm)
    elif kind == "hint":
        u = env.undefined(HINT)
        info["hint"] = HINT
    elif kind == "hint_name_obj":
        u = env.undefined(hint=HINT2, obj=Plain(), name=nm)
        info["hint"] = HINT2
    elif kind == "ctor":
        u = cls(name=nm)
        info["plain_name"] = nm
    elif kind == "ctor_obj":
        u = cls(obj={"present": 1}, name=nm)
    elif kind == "exc":
        u = env.undefined(name=nm, exc=SecurityError)
        info["plain_name"] = nm
        info["exc"] = "SecurityError"
    else:
        raise AssertionError(kind)
    return u, info


# ------------------------------------------------------------------ operands
OPERANDS = [
    ("int0", 0), ("int", 42), ("negint", -3), ("float", 2.5), ("str", "a"), ("emptystr", ""),
    ("list", [1]), ("tuple", (1,)), ("none", None), ("true", True), ("dict", {"k": 1}),
    ("plainobj", "$plain"), ("undef_same", "$same"), ("undef_diff", "$diff"),
] + [("undef_cls:" + c, "$cls:" + c) for c in
     ("Undefined", "ChainableUndefined", "DebugUndefined", "StrictUndefined",
      "Logging(Undefined)")]
# "undef_cls:<C>": an undefined value of undefined class C (an object of ANOTHER environment /
# handed in by the application) meets the undefined under test
OPERAND_TMPL = {  # template spelling of the operand
    "int0": "0", "int": "42", "negint": "-3", "float": "2.5", "str": "'a'", "emptystr": "''",
    "list": "[1]", "tuple": "(1,)", "none": "none", "true": "true", "dict": "{'k': 1}",
    "plainobj": "obj2", "undef_same": "other_undef",
    "undef_cls:Undefined": "foreign_Undefined",
    "undef_cls:ChainableUndefined": "foreign_ChainableUndefined",
    "undef_cls:DebugUndefined": "foreign_DebugUndefined",
    "undef_cls:StrictUndefined": "foreign_StrictUndefined",
    "undef_cls:Logging(Undefined)": "foreign_LoggingUndefined",
}
UNHASHABLE_OPERANDS = ("list", "dict")
OTHER_NAME = "other_undef"


_foreign_logging = []


def foreign_class(spec):
    """An undefined class that does not belong to the environment under test."""
    import jinja2

    if spec == "Logging(Undefined)":
        if not _foreign_logging:
            lg = logging.getLogger("vt.c21.foreign")
            lg.propagate = False
            lg.handlers[:] = [logging.NullHandler()]
            _foreign_logging.append(jinja2.make_logging_undefined(logger=lg,
                                                                  base=jinja2.Undefined))
        return _foreign_logging[0]
    return getattr(jinja2, spec)


def foreign_undefineds():
    """render-context entries for the template spellings of the undef_cls operands"""
    return {v: foreign_class(k.split(":", 1)[1])(name=OTHER_NAME)
            for k, v in OPERAND_TMPL.items() if k.startswith("undef_cls:")}


def make_operand(cls, base, kind, value):
    """-> (x, x_origin_or_None)"""
    import jinja2

    if value == "$plain":
        return Plain(), None
    if isinstance(value, str) and value.startswith("$cls:"):
        return foreign_class(value[5:])(name=OTHER_NAME), {"names": [OTHER_NAME], "hint": None,
                                                           "exc": "UndefinedError"}
    if value == "$same":
        return cls(name=OTHER_NAME), {"names": [OTHER_NAME], "hint": None, "exc": "UndefinedError"}
    if value == "$diff":
        other = jinja2.Undefined if base == "StrictUndefined" else jinja2.StrictUndefined
        return other(name=OTHER_NAME), {"names": [OTHER_NAME], "hint": None,
                                        "exc": "UndefinedError"}
    if isinstance(value, list) and kind == "tuple":
        value = tuple(value)
    return copy.deepcopy(value), None


class Probe:
    """Neutral right-hand operand: records whether Python's dispatch consulted it."""

    def __init__(self):
        self.called = False

    def _hit(self, *a):
        self.called = True
        return NotImplemented

    __radd__ = __rsub__ = __rmul__ = __rtruediv__ = __rfloordiv__ = __rmod__ = __rpow__ = _hit
    __lt__ = __le__ = __gt__ = __ge__ = __eq__ = __ne__ = _hit
    __hash__ = None

    def __getitem__(self, k):  # undefineds are subscriptable; so is the probe
        raise KeyError(k)


BIN = {
    "add": operator.add, "sub": operator.sub, "mul": operator.mul, "truediv": operator.truediv,
    "floordiv": operator.floordiv, "mod": operator.mod, "pow": operator.pow,
    "lt": operator.lt, "le": operator.le, "gt": operator.gt, "ge": operator.ge,
    "eq": operator.eq, "ne": operator.ne,
}
BIN_TMPL = {"add": "+", "sub": "-", "mul": "*", "truediv": "/", "floordiv": "//", "mod": "%",
            "pow": "**", "lt": "<", "le": "<=", "gt": ">", "ge": ">=", "eq": "==", "ne": "!="}


def right_operand_consulted(x, opname):
    p = Probe()
    try:
        BIN[opname](x, p)
    except Exception:
        pass
    return p.called


def run_coro(coro):
    try:
        coro.send(None)
    except StopIteration as e:
        return e.value
    coro.close()
    raise RuntimeError("async iteration suspended")


async def _drain(u):
    return [x async for x in u]


def shallow_stack(fn, u):
    """Run a copy-protocol operation with little stack head-room: a half-built
    copy that recurses without bound (possibly with exponential fan-out) then
    ends in RecursionError quickly instead of stalling the shard."""
    import sys

    depth = 0
    f = sys._getframe()
    while f is not None:
        depth += 1
        f = f.f_back
    old = sys.getrecursionlimit()
    sys.setrecursionlimit(depth + 30)
    try:
        return fn(u)
    finally:
        sys.setrecursionlimit(old)


def unary_ops(env):
    import jinja2

    return {
        "str": str,
        "format": lambda u: format(u),
        "bool": bool,
        "not": lambda u: not u,
        "iter": lambda u: list(iter(u)),
        "aiter": lambda u: run_coro(_drain(u)),
        "len": len,
        "hash": hash,
        "int": int,
        "float": float,
        "complex": complex,
        "neg": operator.neg,
        "pos": operator.pos,
        "call": lambda u: u(),
        "call_args": lambda u: u(1, "a", k=2),
        "getattr": lambda u: getattr(u, "some_attr"),
        "getitem_str": lambda u: u["some_key"],
        "getitem_int": lambda u: u[0],
        "copy": lambda u: shallow_stack(copy.copy, u),
        "deepcopy": lambda u: shallow_stack(copy.deepcopy, u),
        "pickle": lambda u: shallow_stack(lambda v: pickle.loads(pickle.dumps(v)), u),
        "test_defined": lambda u: env.call_test("defined", u),
        "test_undefined": lambda u: env.call_test("undefined", u),
        "is_undefined": jinja2.is_undefined,
        "default": lambda u: env.call_filter("default", u, ["DFLT"]),
        "default_true": lambda u: env.call_filter("default", u, ["DFLT", True]),
        "eq_self": lambda u: u == u,
    }


class OpTimeout(BaseException):
    """A single micro-operation did not finish (e.g. unbounded recursion)."""


def _on_alarm(signum, frame):
    raise OpTimeout("operation still running after %ss of CPU time" % OP_TIMEOUT_S)


OP_TIMEOUT_S = 8.0       # process CPU time (ITIMER_PROF), so machine load cannot trip it


_alarm_installed = [False]


def attempt(fn, *a):
    if not _alarm_installed[0]:
        signal.signal(signal.SIGPROF, _on_alarm)
        _alarm_installed[0] = True
    signal.setitimer(signal.ITIMER_PROF, OP_TIMEOUT_S, 0.25)
    try:
        return ("ok", fn(*a))
    except Exception as e:  # noqa: BLE001 - the exception *is* the observation
        return ("exc", e)
    except OpTimeout as e:
        return ("exc", e)
    finally:
        signal.setitimer(signal.ITIMER_PROF, 0)


# ------------------------------------------------------------------ judging
def exc_classes(*infos):
    import jinja2
    from jinja2.sandbox import SecurityError

    m = {"UndefinedError": jinja2.UndefinedError, "SecurityError": SecurityError}
    return tuple(m[i["exc"]] for i in infos if i)


def short(v):
    r = repr(v)
    return r if len(r) < 200 else r[:200] + "..."


def judge(ctx, cell, expected, outcome, info, xinfo=None, u=None):
    """Compare one observed outcome with the table; returns failure (mode, text) or None."""
    kind = expected[0]
    st, val = outcome
    if kind == "weak":
        if st == "exc":
            ctx.count("weak_err")
            kind = "err"
        else:
            ctx.count("weak_val")
            kind = "val"
    if kind == "attrerr":
        ctx.count("outcome_attrerr")
        if st != "exc":
            return "no-raise", f"expected AttributeError (dunder probe), got value {short(val)}"
        if not isinstance(val, AttributeError) or isinstance(val, exc_classes(info)):
            return "wrong-exc", f"raised {type(val).__name__}: {val} instead of AttributeError"
        return None
    if kind == "err":
        ctx.count("outcome_err")
        if st != "exc":
            return "no-raise", f"expected the undefined error, got value {short(val)}"
        infos = [info] + ([xinfo] if xinfo else [])
        if not isinstance(val, exc_classes(*infos)):
            return "wrong-exc", f"raised {type(val).__name__}: {val} instead of " \
                                f"{'/'.join(i['exc'] for i in infos)}"
        ctx.count("msg_checks")
        if not any(T.message_ok(str(val), i) for i in infos):
            return "bad-message", f"message {str(val)!r} does not name " \
                                  f"{[i.get('hint') or i['names'] for i in infos]}"
        return None
    if st == "exc":
        ctx.count("outcome_val")
        return "raises", f"expected success ({expected}), raised {type(val).__name__}: {val}"
    ctx.count("outcome_val")
    if kind == "val":
        pred, arg = expected[1], expected[2]
        ok = {
            "is": lambda: val is arg,
            "eq": lambda: type(val) is type(arg) and val == arg,
            "isint": lambda: isinstance(val, int),
            "isbool": lambda: isinstance(val, bool),
            "debugstr": lambda: T.debug_string_ok(val, info),
        }[pred]()
        if not ok:
            return "wrong-value", f"got {short(val)}, documented {pred} {arg!r}"
        return None
    if kind == "chain":
        if type(val) is not type(u):
            return "wrong-value", f"chained access returned {type(val).__name__}, not the " \
                                  f"undefined's own class"
        o2 = attempt(operator.add, val, 42)
        if o2[0] != "exc" or not isinstance(o2[1], exc_classes(info)) or \
                not T.message_ok(str(o2[1]), info):
            return "chain-lost-origin", f"failure after chaining does not name the original: {o2}"
        o3 = attempt(str, val)
        if o3 != ("ok", ""):
            return "wrong-value", f"str() of chained undefined gave {o3}"
        return None
    if kind == "equiv":
        if type(val) is not type(u):
            return "wrong-value", f"copy is a {type(val).__name__}, original {type(u).__name__}"
        for probe in (lambda z: z + 42, str, bool):
            a, b = attempt(probe, u), attempt(probe, val)
            same = a[0] == b[0] and (
                (a[0] == "ok" and a[1] == b[1])
                or (a[0] == "exc" and type(a[1]) is type(b[1]) and str(a[1]) == str(b[1])))
            if not same:
                return "copy-differs", f"original gives {a}, copy gives {b}"
        return None
    raise AssertionError(expected)


def report(ctx, level, op, spec, fail, cell):
    mode, text = fail
    key = f"{level}:{op}:{spec}:{mode}"
    if cell.get("model_op", op) == "aiter":
        # one mechanism: iteration through the async protocol
        key = f"async-iteration:{spec}:{mode}"
    ctx.violation(key, f"{spec} from {cell['origin']} op {op} operand {cell.get('operand')}: "
                       f"{text}", cell)


# ------------------------------------------------------------------ python level cells
def arg_dist(origin):
    """distinct-case component of an origin: exc / via of an args origin do not make a new case"""
    return ":".join(origin.split(":")[:4]) if is_args(origin) else origin


def count_args(ctx, info, level, outcome):
    h, o, n = info["args"]
    ctx.count("ctor_arg_cells")
    ctx.count(f"ctor_arg_{level}_cells")
    if outcome[0] == "exc":
        ctx.count("ctor_arg_raising_cells")
        if info.get("hint") and not info.get("hint_weak"):
            ctx.count("ctor_arg_msg_hint_text")
        elif info.get("hint_weak"):
            ctx.count("ctor_arg_msg_hint_blank_or_nonstr")
        elif info.get("unnamed"):
            ctx.count("ctor_arg_msg_nohint_unnamed")
        else:
            ctx.count("ctor_arg_msg_nohint_must_name")
            if h == "empty":
                ctx.count("ctor_arg_msg_hint_emptystr_must_name")
            if n in ("int", "int0", "tuple"):
                ctx.count("ctor_arg_msg_nonstr_name")
            if o not in ("missing",):
                ctx.count("ctor_arg_msg_obj_given")


def py_unary_group(ctx, env, cls, base, recs, spec, origin, nm):
    ops = unary_ops(env)
    u, info = make_undefined(env, cls, origin, nm)
    for op in ops:
        if op == "pickle" and recs is not None:
            continue
        cell = {"level": "py", "type": spec, "origin": origin, "name": nm, "op": op,
                "operand": None}
        py_cell(ctx, env, cls, base, recs, cell, u=u, info=info)


def py_cell(ctx, env, cls, base, recs, cell, u=None, info=None):
    spec, origin, nm, op = cell["type"], cell["origin"], cell["name"], cell["op"]
    if u is None:
        u, info = make_undefined(env, cls, origin, nm)
    if recs is not None:
        del recs[:]
    xinfo = None
    opd = cell["operand"]
    if opd is None:
        expected = T.expect(base, op)
        outcome = attempt(unary_ops(env)[op], u)
    else:
        x, xinfo = make_operand(cls, base, opd["kind"], opd["value"])
        is_u = xinfo is not None
        if op == "contains":          # x in u
            expected = T.expect(base, "contains")
            outcome = attempt(operator.contains, u, x)
            xinfo = None               # `in` never operates on x
        elif op in ("in_list", "in_tuple", "in_set", "in_dict"):
            if op in ("in_dict", "in_set"):
                try:
                    hash(x)
                except Exception:
                    ctx.count("skipped_unhashable_operand")
                    return
            cont = {"in_list": lambda: [x, 5], "in_tuple": lambda: (x, 5),
                    "in_set": lambda: {x, 5}, "in_dict": lambda: {x: 1, 5: 2}}[op]()
            expected = T.expect(base, op, is_u)
            outcome = attempt(operator.contains, cont, u)
        elif op.startswith("r") and op[1:] in BIN:   # x OP u
            if not is_u and not right_operand_consulted(x, op[1:]):
                ctx.count("skipped_left_operand_handles_op")
                return
            expected = T.expect(base, op, is_u)
            import jinja2
            x_strict = isinstance(x, jinja2.StrictUndefined)
            if is_u and expected[0] != "err":
                # x is itself an undefined on the left: its own table applies first
                xb = "StrictUndefined" if x_strict else base
                if T.expect(xb, op[1:], True)[0] == "err":
                    expected = T.ERR
            elif is_u and op in ("req", "rne") and not x_strict and \
                    not (isinstance(u, type(x)) and type(u) is not type(x)):
                # a non-strict undefined on the left answers itself unless Python gives the
                # right operand priority (its type is a proper subclass of the left one's)
                expected = T.expect("Undefined", op[1:], True)
            outcome = attempt(BIN[op[1:]], x, u)
        else:                                          # u OP x
            expected = T.expect(base, op, is_u)
            if is_u and expected[0] != "err" and type(x).__name__ == "StrictUndefined":
                # a StrictUndefined subclass operand gets the reflected call first
                expected = ("weak",) + tuple(expected[1:])
            outcome = attempt(BIN[op], u, x)
    ctx.ev()
    ctx.count("py_cells")
    ctx.dist(("py", spec, arg_dist(origin), op, opd["kind"] if opd else None))
    if is_args(origin):
        count_args(ctx, info, "py", outcome)
    fail = judge(ctx, cell, expected, outcome, info, xinfo, u)
    if fail:
        report(ctx, "py", op, spec, fail, cell)
        return
    # hash/eq consistency between equal undefineds (Python data model: objects that compare
    # equal must have the same hash value; otherwise dict/set lookups contradict ==)
    if op in ("eq", "req") and opd and outcome == ("ok", True):
        ctx.count("hash_eq_checks")
        h1, h2 = attempt(hash, u), attempt(hash, x)
        if h1[0] == "ok" and h2[0] == "ok" and h1[1] != h2[1]:
            report(ctx, "py", "hash", spec, ("hash-eq-inconsistent",
                                             f"{type(u).__name__} and {type(x).__name__} compare "
                                             f"equal but hash differently {h1} {h2}"), cell)
    # sequence containment (==) and hashed containment (hash + ==) of the same undefined operand
    # must agree
    if op in ("in_set", "in_dict") and opd and xinfo is not None and outcome[0] == "ok":
        ctx.count("container_agreement_checks")
        seq = attempt(operator.contains, [x, 5], u)
        if seq[0] == "ok" and bool(seq[1]) != bool(outcome[1]):
            report(ctx, "py", "hash", spec,
                   ("containers-disagree", f"{type(u).__name__} in [{type(x).__name__}, 5] is "
                                           f"{seq[1]} but {op} lookup gives {outcome[1]}"), cell)
    # logging variants: "It will log iterations and printing"
    if recs is not None:
        ctx.count("log_records_seen", len(recs))
        if op in ("str", "format", "iter"):
            ctx.count("log_checks")
            if is_args(origin):
                ctx.count("ctor_arg_log_checks")
            if not any(T.message_ok(m, info) for _, m in recs):
                report(ctx, "py", op, spec, ("not-logged",
                                             f"logger saw {recs!r}, nothing naming the variable"),
                       cell)


def py_binary_group(ctx, env, cls, base, recs, spec, origin, nm, okind, ovalue):
    u, info = make_undefined(env, cls, origin, nm)
    opd = {"kind": okind, "value": ovalue}
    for op in list(BIN) + ["r" + b for b in BIN] + ["contains", "in_list", "in_tuple", "in_set",
                                                    "in_dict"]:
        cell = {"level": "py", "type": spec, "origin": origin, "name": nm, "op": op,
                "operand": opd}
        py_cell(ctx, env, cls, base, recs, cell, u=u, info=info)


# ------------------------------------------------------------------ attribute-name cells
ATTR_PY = {
    "py_getattr": lambda env, u, n: getattr(u, n),
    "py_hasattr": lambda env, u, n: hasattr(u, n),
    "env_getattr": lambda env, u, n: env.getattr(u, n),
    "attr_filter": lambda env, u, n: env.call_filter("attr", u, [n]),
}
ATTR_TMPL = {
    "tmpl_dot": "{{ @E.@N }}",
    "tmpl_attr_filter": "{{ @E|attr('@N') }}",
    "tmpl_attr_filter_var": "{{ @E|attr(attrname) is defined }}",
}


def attr_cell(ctx, env, cls, base, recs, cell, u=None, info=None):
    """One access to attribute `cell['attr']` (any underscore shape) of an
    undefined through `cell['op']`; the table decides by the shape of the name."""
    spec, origin, nm, way, an = (cell["type"], cell["origin"], cell["name"], cell["op"],
                                 cell["attr"])
    expected = T.expect_attr(base, an, way)
    if expected is None:
        ctx.count("attr_undecided")
        return
    shape = T.attr_shape(an)
    lead = len(an) - len(an.lstrip("_"))
    trail = len(an) - len(an.rstrip("_"))
    if recs is not None:
        del recs[:]
    if way in ATTR_PY:
        if u is None:
            u, info = make_undefined(env, cls, origin, nm)
        outcome = attempt(ATTR_PY[way], env, u, an)
        level = "py"
        fail = judge(ctx, cell, expected, outcome, info, None, u)
    else:
        if origin not in TEMPLATE_ORIGINS:
            return
        level = "tmpl"
        info = {"kind": origin, "names": ["99"] if origin == "item_list" else [nm], "hint": None,
                "plain_name": nm if origin == "name" else None, "exc": "UndefinedError"}
        src = ATTR_TMPL[way].replace("@E", origin_expr(origin, nm)).replace("@N", an)
        cell["src"] = src
        rctx = render_ctx()
        rctx["attrname"] = an
        outcome = attempt(lambda: env.from_string(src).render(**rctx))
        fail = judge(ctx, cell, expected, outcome, info, None, None)
        if fail:
            fail = (fail[0], f"{src!r}: {fail[1]}")
    ctx.ev()
    ctx.count("attr_cells")
    ctx.count("attr_cells_dunder" if shape == "dunder" else "attr_cells_nondunder")
    if shape != "dunder" and lead >= 2:
        ctx.count("attr_cells_two_leading_underscores")
    ctx.dist(("attr", spec, origin, way, min(lead, 3), min(trail, 3), "_" in an.strip("_")))
    if fail:
        mode, text = fail
        klass = "dunder" if shape == "dunder" else "non-dunder"
        ctx.violation(f"attr:{way}:{klass}:{spec}:{mode}",
                      f"{spec} from {origin}: attribute {an!r} via {way}: {text}", cell)


def attr_group(ctx, env, cls, base, recs, spec, origin, nm, names):
    u, info = make_undefined(env, cls, origin, nm)
    for an in names:
        for way in T.ATTR_WAYS_PY + T.ATTR_WAYS_TMPL:
            cell = {"level": "attr", "type": spec, "origin": origin, "name": nm, "op": way,
                    "attr": an, "operand": None}
            attr_cell(ctx, env, cls, base, recs, cell, u=u, info=info)


# ------------------------------------------------------------------ template level cells
# (template op name, model op, source with E / X, value -> expected text)
def _txt(v):
    return str(v)


TMPL_UNARY = [
    ("print", "str", "{{ @E }}", _txt),
    ("concat", "concat", "{{ @E ~ 'x' }}", None),
    ("rconcat", "concat", "{{ 'x' ~ @E }}", None),
    ("if", "bool", "{% if @E %}T{% else %}F{% endif %}", lambda v: "T" if v else "F"),
    ("condexpr", "bool", "{{ 'T' if @E else 'F' }}", lambda v: "T" if v else "F"),
    ("not", "not", "{{ not @E }}", _txt),
    ("for", "iter", "{% for i in @E %}x{% else %}EMPTY{% endfor %}", lambda v: "EMPTY"),
    ("list", "iter", "{{ @E|list }}", _txt),
    ("length", "len", "{{ @E|length }}", _txt),
    ("neg", "neg", "{{ -@E }}", None),
    ("pos", "pos", "{{ +@E }}", None),
    ("call", "call", "{{ @E() }}", None),
    ("call_args", "call_args", "{{ @E(1, 'a', k=2) }}", None),
    ("getattr", "getattr", "{{ @E.some_attr }}", lambda v: ""),
    ("getitem_str", "getitem_str", "{{ @E['some_key'] }}", lambda v: ""),
    ("getitem_int", "getitem_int", "{{ @E[0] }}", lambda v: ""),
    ("chain_fail", "add", "{{ @E.aa['bb'].cc + 42 }}", None),
    ("is_defined", "test_defined", "{{ @E is defined }}", _txt),
    ("is_not_defined", "test_undefined", "{{ @E is not defined }}", _txt),
    ("is_undefined", "test_undefined", "{{ @E is undefined }}", _txt),
    ("default", "default", "{{ @E|default('DFLT') }}", _txt),
    ("d", "default", "{{ @E|d('DFLT') }}", _txt),
    ("default_true", "default_true", "{{ @E|default('DFLT', true) }}", _txt),
]


def tmpl_expected_text(base, tname, mop, expected, conv, info):
    """-> callable(text) -> bool for a successful render"""
    pred, arg = expected[1], expected[2]
    if mop == "concat":
        if base == "DebugUndefined":
            if tname == "concat":
                return lambda s: s.endswith("x") and T.debug_string_ok(s[:-1], info)
            return lambda s: s.startswith("x") and T.debug_string_ok(s[1:], info)
        return lambda s: s == "x"
    if pred == "debugstr":
        return lambda s: T.debug_string_ok(s, info)
    if pred in ("is", "eq"):
        want = conv(arg)
        return lambda s: s == want
    if pred == "isbool":
        return lambda s: s in ("True", "False")
    if pred == "isint":
        return lambda s: s.lstrip("-").isdigit()
    raise AssertionError(expected)


_tcache = {}


def cached_template(env, src):
    """the sources of the constructor-argument section do not vary with the arguments (the
    undefined is data): compile each once per environment"""
    k = (id(env), src)
    if k not in _tcache:
        _tcache[k] = (env, env.from_string(src))
    return _tcache[k][1]


def tmpl_cell(ctx, env, base, recs, cell):
    spec, origin, nm, tname = cell["type"], cell["origin"], cell["name"], cell["op"]
    E = origin_expr(origin, nm)
    info = {"kind": origin, "names": ["99"] if origin == "item_list" else [nm], "hint": None,
            "plain_name": nm if origin == "name" else None, "exc": "UndefinedError"}
    uarg = None
    if is_args(origin):
        # the undefined built from boundary constructor arguments is handed to the template
        # as the variable `uarg` (what a filter / function returning env.undefined(...) does)
        uarg, info = build_args(env, env.undefined, origin, nm)
    opd = cell["operand"]
    xinfo = None
    conv = None
    if opd is None:
        tname, mop, src, conv = next(t for t in TMPL_UNARY if t[0] == tname)
        src = src.replace("@E", E)
        expected = T.expect(base, mop)
        if tname == "chain_fail":
            expected = T.ERR
        if tname in ("getattr", "getitem_str", "getitem_int") and expected[0] == "chain":
            expected = ("val", "eq", "")
    else:
        op = tname
        X = OPERAND_TMPL[opd["kind"]]
        is_u = opd["kind"].startswith("undef_")
        if is_u:
            xinfo = {"names": [OTHER_NAME], "hint": None, "exc": "UndefinedError"}
        if op == "contains":
            src, mop = "{{ (%s) in %s }}" % (X, E), "contains"
            xinfo = None
        elif op == "not_contains":
            src, mop = "{{ (%s) not in %s }}" % (X, E), "contains"
            xinfo = None
            conv = lambda v: str(not v)  # noqa: E731
        elif op == "in_list":
            src, mop = "{{ %s in [(%s), 5] }}" % (E, X), "in_list"
        elif op in ("in_tuple", "in_dict", "eq_in_dict_agree"):
            if opd["kind"] in UNHASHABLE_OPERANDS:
                ctx.count("skipped_unhashable_operand")
                return
            if op == "eq_in_dict_agree":
                src = "{{ (%s == (%s)) == (%s in {(%s): 1}) }}" % (E, X, E, X)
            elif op == "in_tuple":
                src = "{{ %s in ((%s), 5) }}" % (E, X)
            else:
                src = "{{ %s in {(%s): 1, 5: 2} }}" % (E, X)
            mop = op
        elif op.startswith("r") and op[1:] in BIN:
            if not is_u:
                x, _ = make_operand(None, base, opd["kind"], opd["value"])
                if not right_operand_consulted(x, op[1:]):
                    ctx.count("skipped_left_operand_handles_op")
                    return
            src, mop = "{{ (%s) %s %s }}" % (X, BIN_TMPL[op[1:]], E), op
        else:
            src, mop = "{{ %s %s (%s) }}" % (E, BIN_TMPL[op], X), op
        expected = T.expect(base, mop, is_u)
        if op in ("req", "rne") and expected[0] == "err" and opd["kind"].startswith("undef_cls:"):
            import jinja2
            xcls = foreign_class(opd["kind"].split(":", 1)[1])
            ucls = env.undefined
            if not issubclass(xcls, jinja2.StrictUndefined) and \
                    not (issubclass(ucls, xcls) and ucls is not xcls):
                # the non-strict undefined on the left answers itself (see py_cell)
                expected = T.expect("Undefined", op[1:], True)
        conv = conv or _txt
    if recs is not None:
        del recs[:]
    rctx = render_ctx()
    rctx["obj2"] = Plain()
    rctx.update(foreign_undefineds())
    cell["src"] = src
    if uarg is not None:
        rctx["uarg"] = uarg
        outcome = attempt(lambda: cached_template(env, src).render(**rctx))
    else:
        outcome = attempt(lambda: env.from_string(src).render(**rctx))
    ctx.ev()
    is_async = bool(cell.get("async"))
    ctx.count("async_cells" if is_async else "tmpl_cells")
    ctx.dist(("async" if is_async else "tmpl", spec, arg_dist(origin), tname,
              opd["kind"] if opd else None))
    if uarg is not None:
        count_args(ctx, info, "tmpl", outcome)
    cell["model_op"] = "aiter" if (is_async and mop == "iter") else mop
    if expected[0] in ("val", "weak"):
        checker = tmpl_expected_text(base, tname, mop, expected, conv, info)
        st, val = outcome
        if st == "ok":
            ctx.count("outcome_val")
            if expected[0] == "weak":
                ctx.count("weak_val")
            fail = None if checker(val) else ("wrong-value",
                                              f"{src!r} rendered {val!r}, documented {expected}")
        elif expected[0] == "weak":
            fail = judge(ctx, cell, T.ERR, outcome, info, xinfo)
        else:
            ctx.count("outcome_val")
            fail = ("raises", f"{src!r} raised {type(val).__name__}: {val}, documented {expected}")
    else:
        fail = judge(ctx, cell, T.ERR, outcome, info, xinfo)
        if fail:
            fail = (fail[0], f"{src!r}: {fail[1]}")
    if fail:
        report(ctx, "async" if is_async else "tmpl", tname, spec, fail, cell)
        return
    if recs is not None and not is_async:
        ctx.count("log_records_seen", len(recs))
        if tname in ("print", "for", "list"):
            ctx.count("log_checks")
            if uarg is not None:
                ctx.count("ctor_arg_log_checks")
            if not any(T.message_ok(m, info) for _, m in recs):
                report(ctx, "tmpl", tname, spec,
                       ("not-logged", f"{src!r}: logger saw {recs!r}"), cell)


TMPL_OPERANDS = [o for o in OPERANDS if o[0] in OPERAND_TMPL]
TMPL_BIN_OPS = list(BIN) + ["r" + b for b in BIN] + ["contains", "not_contains", "in_list",
                                                     "in_tuple", "in_dict", "eq_in_dict_agree"]
ASYNC_OPS = ("print", "for", "list", "if", "is_defined", "default")


def envs_for(spec, cache):
    from jinja2 import Environment

    if spec not in cache:
        cls, base, recs = build_type(spec)
        cache[spec] = (cls, base, recs, Environment(undefined=cls),
                       Environment(undefined=cls, enable_async=True))
    return cache[spec]


def run_cell(ctx, cache, cell):
    cls, base, recs, env, aenv = envs_for(cell["type"], cache)
    if cell["level"] == "attr":
        attr_cell(ctx, env, cls, base, recs, cell)
    elif cell["level"] == "py":
        py_cell(ctx, env, cls, base, recs, cell)
    else:
        tmpl_cell(ctx, aenv if cell.get("async") else env, base, recs, cell)


def run(ctx):
    cache = {}
    gi = 0
    nm = "nosuchvar"
    first = True
    for spec in TYPE_SPECS:
        cls, base, recs, env, aenv = envs_for(spec, cache)
        for origin in ORIGINS:
            gi += 1
            if ctx.mine(gi):
                py_unary_group(ctx, env, cls, base, recs, spec, origin, nm)
            for okind, ovalue in OPERANDS:
                gi += 1
                if ctx.mine(gi):
                    py_binary_group(ctx, env, cls, base, recs, spec, origin, nm, okind, ovalue)
            gi += 1
            if ctx.mine(gi):
                attr_group(ctx, env, cls, base, recs, spec, origin, nm,
                           [n for _, n in T.ATTR_NAMES])
        for origin in TEMPLATE_ORIGINS:
            gi += 1
            if ctx.mine(gi):
                for t in TMPL_UNARY:
                    cell = {"level": "tmpl", "type": spec, "origin": origin, "name": nm,
                            "op": t[0], "operand": None}
                    tmpl_cell(ctx, env, base, recs, cell)
                    if first:
                        ctx.sample(cell)
                        first = False
            gi += 1
            if ctx.mine(gi):
                for tname in ASYNC_OPS:
                    cell = {"level": "tmpl", "type": spec, "origin": origin, "name": nm,
                            "op": tname, "operand": None, "async": True}
                    tmpl_cell(ctx, aenv, base, recs, cell)
            for okind, ovalue in TMPL_OPERANDS:
                gi += 1
                if not ctx.mine(gi):
                    continue
                for op in TMPL_BIN_OPS:
                    cell = {"level": "tmpl", "type": spec, "origin": origin, "name": nm,
                            "op": op, "operand": {"kind": okind, "value": ovalue}}
                    tmpl_cell(ctx, env, base, recs, cell)
    # ---- boundary values of the constructor arguments -----------------------------------
    ci = 0
    for spec in TYPE_SPECS:
        cls, base, recs, env, aenv = envs_for(spec, cache)
        for h, _ in ARG_HINTS:
            for n, _ in ARG_NAMES:
                for o, _ in ARG_OBJS:
                    ci += 1
                    gi += 1
                    if not ctx.mine(gi):
                        continue
                    origin = args_origin(h, o, n, ARG_EXCS[ci % 5 == 0],
                                         ARG_VIAS[ci % len(ARG_VIAS)])
                    py_unary_group(ctx, env, cls, base, recs, spec, origin, nm)
                    if ci % 2:
                        okind, ovalue = OPERANDS[(ci // 2) % len(OPERANDS)]
                        py_binary_group(ctx, env, cls, base, recs, spec, origin, nm, okind,
                                        ovalue)
                    if ci % len(ARG_OBJS) == (ci // len(ARG_OBJS)) % len(ARG_OBJS):
                        # template level: every hint x name, the obj rotating
                        origin = args_origin(h, o, n)
                        for t in TMPL_UNARY:
                            tmpl_cell(ctx, env, base, recs,
                                      {"level": "tmpl", "type": spec, "origin": origin,
                                       "name": nm, "op": t[0], "operand": None})
                        for tname in ASYNC_OPS:
                            tmpl_cell(ctx, aenv, base, recs,
                                      {"level": "tmpl", "type": spec, "origin": origin,
                                       "name": nm, "op": tname, "operand": None, "async": True})
                        okind, ovalue = TMPL_OPERANDS[ci % len(TMPL_OPERANDS)]
                        for op in TMPL_BIN_OPS:
                            tmpl_cell(ctx, env, base, recs,
                                      {"level": "tmpl", "type": spec, "origin": origin,
                                       "name": nm, "op": op,
                                       "operand": {"kind": okind, "value": ovalue}})
    ctx.exhaustive = True
    ctx.extra["table_groups"] = gi if ctx.shard == 0 else 0
    random_extension(ctx, cache, 30 if ctx.tier == "quick" else 4000)


# ------------------------------------------------------------------ random extension
NAME_START = "abcxyzABC_éλж中"
NAME_REST = NAME_START + "0123456789"


def rand_name(rng):
    while True:
        n = rng.choice(NAME_START) + "".join(rng.choice(NAME_REST)
                                             for _ in range(rng.randint(0, 9)))
        if n.isidentifier() and not n.startswith("_") and n not in RESERVED and \
                not (n.startswith("__") and n.endswith("__")):
            return n


def rand_attr_name(rng):
    """Attribute name of a random underscore shape: 0-3 leading and trailing
    underscores around an ASCII stem that may contain inner (double) underscores."""
    stem = rng.choice("abcxyz") + "".join(rng.choice("abxy09_") for _ in range(rng.randint(0, 6)))
    stem = stem.rstrip("_")
    lead = rng.choice([0, 1, 2, 2, 2, 3])
    trail = rng.choice([0, 0, 1, 2, 3])
    return "_" * lead + stem + "_" * trail


RESERVED = {"obj", "obj2", "num", "d", "seq", "grab", "present", OTHER_NAME, "true", "false",
            "none", "True", "False", "None", "and", "or", "not", "in", "is", "if", "else",
            "range", "dict", "lipsum", "cycler", "joiner", "namespace", "loop", "self",
            "varargs", "kwargs", "caller", "super", "a", "x", "k", "i", "E", "T", "F"}


def rand_operand(rng):
    k = rng.randrange(8)
    if k == 0:
        return ("int", rng.choice([0, 1, -1, 2**70, -(2**40), rng.randint(-1000, 1000)]))
    if k == 1:
        return ("float", rng.choice([0.0, -0.5, 1e300, 1e-300, rng.uniform(-100, 100)]))
    if k == 2:
        return ("str", "".join(rng.choice("ab %s{}é") for _ in range(rng.randint(0, 6))))
    if k == 3:
        return ("list", [rng.randint(0, 9) for _ in range(rng.randint(0, 4))])
    if k == 4:
        return ("none", None)
    if k == 5:
        return ("true", rng.choice([True, False]))
    if k == 6:
        return rng.choice([o for o in OPERANDS if o[0].startswith("undef_")])
    return ("undef_diff", "$diff")


def random_extension(ctx, cache, rounds):
    rng = ctx.rng("ext")
    i = 0
    while ctx.more(i, rounds, 10):
        i += 1
        ctx.count("random_rounds")
        spec = rng.choice(TYPE_SPECS)
        cls, base, recs, env, aenv = envs_for(spec, cache)
        origin = rng.choice([o for o in ORIGINS if o != "item_list"])
        nm = rand_name(rng)
        py_unary_group(ctx, env, cls, base, recs, spec, origin, nm)
        okind, ovalue = rand_operand(rng)
        py_binary_group(ctx, env, cls, base, recs, spec, origin, nm, okind, ovalue)
        if i % 4 == 0 and origin in TEMPLATE_ORIGINS:
            for t in TMPL_UNARY:
                tmpl_cell(ctx, env, base, recs,
                          {"level": "tmpl", "type": spec, "origin": origin, "name": nm,
                           "op": t[0], "operand": None})
        attr_group(ctx, env, cls, base, recs, spec, origin, nm,
                   [rand_attr_name(rng) for _ in range(4)])
        if base == "ChainableUndefined":
            chain_walk(ctx, rng, env, cls, spec, origin, nm)


def chain_walk(ctx, rng, env, cls, spec, origin, nm):
    u, info = make_undefined(env, cls, origin, nm)
    path = []
    cur = u
    for _ in range(rng.randint(1, 8)):
        if rng.random() < 0.5:
            a = rand_name(rng)
            path.append(["attr", a])
            o = attempt(getattr, cur, a)
        else:
            k = rng.choice([0, -1, "k", rand_name(rng), 2.5])
            path.append(["item", k])
            o = attempt(operator.getitem, cur, k)
        ctx.ev()
        ctx.count("py_cells")
        ctx.count("chain_steps")
        cell = {"level": "chain", "type": spec, "origin": origin, "name": nm, "path": path,
                "op": "getattr" if path[-1][0] == "attr" else "getitem", "operand": None}
        fail = judge(ctx, cell, ("chain",), o, info, None, u)
        if fail:
            report(ctx, "py", cell["op"], spec, fail, cell)
            return
        cur = o[1]
    ctx.dist(("chain", spec, origin, [p[0] for p in path]))


def replay(ctx, case):
    cache = {}
    if case["level"] == "chain":
        cls, base, recs, env, aenv = envs_for(case["type"], cache)
        u, info = make_undefined(env, cls, case["origin"], case["name"])
        cur = u
        for kind, k in case["path"]:
            o = attempt(getattr, cur, k) if kind == "attr" else attempt(operator.getitem, cur, k)
            fail = judge(ctx, case, ("chain",), o, info, None, u)
            if fail:
                report(ctx, "py", case["op"], case["type"], fail, case)
                return
            cur = o[1]
        return
    case = dict(case)
    case.pop("src", None)
    case.pop("model_op", None)
    run_cell(ctx, cache, case)
