"""C18 — a sandboxed template never calls a callable the sandbox deems unsafe.

Recording callables of many kinds (function, bound/class method, callable
instance, partial, class, pass_context function, coroutine function...) are
marked unsafe with jinja2.sandbox.unsafe, with alters_data=True, or are
rejected by an overridden is_safe_callable.  Templates are composed from
  obtain(how the template gets hold of the callable)
  x wrapper(alias: set / with / loop variable / macro parameter / namespace ...)
  x site(where the call expression sits: output, filter/test argument, macro
    default, call block, caller, include, import, ...)
  x call arguments.
Every case is rendered twice: with the unmarked *twin* (must be invoked at
least once, otherwise the case is unreached and not counted) and with the marked
callable: zero invocations and SecurityError from render are required.

Second part, *histories*: the verdict for a callable may legitimately change
while one environment lives (a mark set after the first use, a deny-list the
application extends between two renderings, an overridden check that looks at
the receiver of a bound method).  A history is a short sequence of steps on ONE
fresh environment over a family of two sibling callables A and B (two closures
of one def, two instances of one class bound to the same method, two classes
sharing a classmethod, two partials of one function, two callable instances):
  call T / call both in one render / set a mark / remove a mark / render
  templates that use an unrelated family.
Every call step is judged against the marks and the policy in force at that
moment: allowed -> the callable runs and no SecurityError; forbidden -> zero
invocations and SecurityError.

Third part, *builtin-method policies*: an is_safe_callable override with an
allow-list / deny-list / per-type ban over the methods of builtin values
(str, list, dict, tuple, int, float).  The receiver is a context value or a
LITERAL written in the template (bare, parenthesised, in constant expressions,
aliased) and the arguments are constants, so the call is a candidate for
compile-time evaluation.  A call the policy rejects must raise SecurityError
exactly like the same call on a context variable.

Callable kinds include callable OBJECTS whose __call__ is decorated with
pass_context / pass_environment / pass_eval_context, marked on the instance
or on the class: the safety check must see the object the template calls.

Fourth part, *names the engine resolves itself*: environments with the i18n,
do, loopcontrols and debug extensions loaded (gettext callables not installed,
installed old-style, installed new-style).  The callable is bound to a NAME
  gettext / ngettext / pgettext / npgettext (looked up in the context by the
  `_` alias and by the code the trans tag compiles to), `_`, caller, loop,
  super, self, varargs, kwargs, joiner, cycler, namespace, lipsum, range, dict
by render data, env.globals, set (plain, in an if, twice, tuple), with, loop
variable, macro parameter / default / keyword, call-block parameter, set inside
a macro or block, from-import-as, and set in a parent of an include / an
imported-with-context macro / a child or parent of an extends.  The use is
`_(...)` at many sites, a trans block (plain, variables, trimmed, pluralize,
context string, in a macro / loop / autoescape block) or a call of the name
itself (output, for iterable, loop body, call block, filter argument, do, block,
attribute and item of the bound value).  Same oracle: the unmarked twin bound
to the name must be invoked, the marked one never, and render raises
SecurityError.

Fifth part, *combinations of the two flags*: a callable may carry both
unsafe_callable and alters_data, each true, false or absent (a base class or a
decorator that spells out both, a subclass / instance / call site that flips
one).  The attributes sit on a function, are set by a decorator that always
sets both, by jinja2.sandbox.unsafe plus an explicit alters_data, on the
function behind a bound method / classmethod / staticmethod, on a callable
instance, on its class, inherited from a base class that spells out defaults,
split over base class and subclass, on an instance overriding a class that says
True, on a functools.partial, on a class the template instantiates, on a
pass_context function.  Reached along the same obtain x wrapper x site grammar;
the flag-free twin of the construction must run; then: refused (0 invocations,
SecurityError) iff unsafe_callable is True or alters_data is True on the object
the template calls, otherwise invoked without SecurityError.

Sixth part, *callables implemented in C*: the callable an overridden policy
rejects cannot carry any marker: builtin functions (len, sorted, repr, next,
getattr, setattr, operator.setitem), bound builtin methods (alist.append /
extend / insert, adict.setdefault / update, aset.add, deque.append /
appendleft, dict.fromkeys, '-'.join), method descriptors (list.append,
dict.update, str.join), slot wrappers (list.__iadd__, object.__str__), method
wrappers (alist.__iadd__, adict.__setitem__), functools.partial objects (of a
builtin method, of a builtin function, of a recording Python function),
classes implemented in C (deque, list, dict, frozenset, zip, map),
operator.methodcaller / itemgetter / attrgetter objects (tables in
vt/gen/c18_ccall.py).  Invocation is observed from the harness: the container
the method belongs to really changed, or the recording Python object handed in
as the argument had its protocol method run.  Policies: deny-list of qualified
names, type ban on everything implemented in C, allow-list of Python-level
callables plus named builtins.  Same obtain x wrapper x site grammar; the twin
render (policy not armed) must run the callable, the armed render must give
zero observed invocations and SecurityError.

Seventh part, *decorated callables*: the object the template calls is the
product of a decorator chain (functools.wraps / update_wrapper wrappers, with
and without the __dict__ copy, two layers, lru_cache / cache, singledispatch,
partial / partialmethod, contextlib.contextmanager functions, bound / class /
static methods whose function is a wrapper, class based decorators, callable
objects and classes whose __wrapped__ points at an unrelated function,
pass_context above and below a wrapper; vt/gen/c18_wrapped.py).  The marker
(unsafe, alters_data, the attribute or the object identity an overridden
is_safe_callable looks at) sits on the outer object, on the innermost function
before or after decorating, on both, on the middle layer, or says False on the
outer object and True on the innermost function.  The verdict is computed, not
tabulated: the documented rule is applied to the object the template calls
(attribute lookup on that object / the override's view of that object); what
the decorator copied onto its product counts.  Refused -> 0 invocations and
SecurityError; not refused -> the call runs without SecurityError.  Same
obtain x wrapper x site grammar, marker-free twin of the same chain must run.

Eighth part, *how the marker is visible*: unsafe_callable / alters_data (and
the attribute an overridden is_safe_callable reads) are attributes of the
called object, and Python attribute access has many sources.  The marker, True
or False, is made visible through (vt/gen/c18_visible.py): the __dict__ of a
function or of a callable instance, the class, a base class, a property (own,
inherited, reading instance state), a non-data / data descriptor, a slot, a
class __getattr__ answering the marker names, a __getattribute__ override (also
saying False over a class attribute that says True), a transparent forwarding
proxy in the style of werkzeug LocalProxy / django SimpleLazyObject (__getattr__
forwards every attribute, __call__ forwards the call) around a marked function,
a factory producing the target on every access, a bound method, a callable
object, a pass_context function, another proxy, the same with __class__
forwarded as well, a bound method whose __func__ is such a proxy, and the
metaclass (attribute, property, __getattr__) of a class the template
instantiates.  The verdict is computed with plain getattr on the called object
(the documented rule); refused -> 0 invocations and SecurityError, otherwise the
call runs without SecurityError.  Same obtain x wrapper x site grammar, the
marker-free twin of the same construction must run.

Ninth part, *names with a binding history*: the name the template calls was
bound before in the same scope: to a macro definition (plain, with arguments,
using caller, defined twice, aliased), an imported macro, a template module, a
constant, a safe callable, a block set, a loop / with variable that is over, a
macro of that name inside another macro; the prior binding is executed, sits in
a branch that is not taken or in an empty loop, or comes after the call.  Then
the name comes to hold the callable (set, tuple set, set in if, via a temporary,
from-import with context, with, loop variable, macro parameter, render data,
env.globals), all of it at top level or inside a macro / nested macro / block /
for / if / with / call block / filter / set / autoescape body, an included
template, an extends child block or a macro imported with context
(vt/gen/c18_rebind.py).  The call sits at any site of the main grammar.  Same
oracle: the unmarked twin must be invoked through the re-bound name by the same
template; with the mark zero invocations and SecurityError.
"""
from __future__ import annotations

import functools
import json

from vt.gen import c18_ccall as CC
from vt.gen import c18_rebind as RB
from vt.gen import c18_visible as VS
from vt.gen import c18_wrapped as WR

PID = "C18"
LEVEL = "exploration"
TECHNIQUE = ("recording unsafe callables with an unmarked control twin over a composed reach-path grammar "
             "(single marks, and every true/false/absent combination of the two marker attributes over 14 "
             "placements, judged in both directions); "
             "state-model monitor over multi-step mark/policy histories on one environment; the same "
             "twin oracle over names resolved by engine helpers (i18n `_` alias, trans tag) and shadowed "
             "builtin/special names in environments with extensions loaded; the same twin oracle over "
             "C-implemented callables (observed through container side effects / recording arguments) "
             "under deny-list, type-ban and allow-list overrides of is_safe_callable; the twin oracle over "
             "products of 24 decorator chains x 6 marker positions x 4 marks with the verdict computed from "
             "the documented rule applied to the called object (both directions); the twin oracle over 24 ways "
             "of making the marker visible to attribute lookup (dict, class, property, descriptor, slot, "
             "__getattr__/__getattribute__, forwarding proxies, metaclass) x 3 marks x true/false, verdict "
             "computed with getattr on the called object; the twin oracle over names that were bound before in "
             "the same scope (15 prior bindings x 12 rebindings x 14 scopes, prior executed or not, before or "
             "after the call)")
RULE = ("case = (obtain form x alias wrapper x call site x argument form x callable kind x mark "
        "x environment kind x sync/async x extension set [do only / i18n+do+loopcontrols+debug with "
        "gettext callables absent, old-style, new-style]); base coverage enumerates every (site, kind, mark) and "
        "every (obtain, wrapper, mark) once, the rest is seeded sampling of the product; a case is "
        "counted as distinct and non-trivial only when the control twin (same construction, no "
        "mark) is actually invoked by the template; histories = (callable kind x environment kind x "
        "sync/async x (mark, scope own/shared) x 7 step patterns) enumerated once with sampled "
        "reach-path templates, plus seeded random step sequences of length 2-6, each on one fresh "
        "environment; a history is distinct by its kind, environment, step list and the templates "
        "used, and is counted only when its templates reach both unmarked sibling callables; "
        "callable kinds include callable objects with a pass_context/pass_environment/"
        "pass_eval_context __call__ marked on the instance or the class; builtin-method policy "
        "cases = (builtin method with constant arguments x receiver form [literal bare/parenthesised/"
        "constant filter/constant inline-if/list element, set/loop/macro alias of a literal, context "
        "variable/attribute/item/alias] x access [dot, subscript, |attr] x argument form [constant, "
        "*list, *list+**dict] x call site x policy [allow-list, deny-list, type ban] x sync/async x "
        "optimizer on/off): every (method, receiver, policy) at the print site and every (site, "
        "method) once, plus seeded sampling; counted only when the same template with a context "
        "variable written in place of the literal renders and consults the override for the method; "
        "resolved-name cases = (name bound [gettext, ngettext, pgettext, npgettext, _, caller, loop, super, "
        "self, varargs, kwargs, joiner, cycler, namespace, lipsum, range, dict] x binding form [render data, "
        "env.globals, set plain/in-if/twice/tuple, with, loop variable, macro parameter/default/keyword, "
        "call-block parameter, set in macro/block, from-import-as, set before include / import-with-context "
        "macro / in extends child / in extends parent] x use [16 sites of `_(...)`, 11 trans-block shapes, "
        "10 sites calling the name, its attribute or item] x obtain form x arguments x callable kind x mark "
        "x environment kind x sync/async x gettext callables none/old-style/new-style) in environments with "
        "the i18n, do, loopcontrols and debug extensions: every (use, name, binding) row once with rotating "
        "mark/kind (quick: `_`/trans rows all, name-call rows every second one by seed parity; thorough: all "
        "rows x all marks) plus seeded sampling; counted only when the unmarked twin bound to the name is "
        "invoked; flag-combination cases = ((unsafe_callable, alters_data) in {absent, false, true}^2 minus "
        "(absent, absent) x 14 placements of the attributes [function, both-flags decorator, unsafe decorator "
        "plus alters_data, function of a method / classmethod / staticmethod, callable instance, its class, "
        "base class with spelled-out defaults + subclass, split over base and subclass, instance over a "
        "class that says True, partial, instantiated class, pass_context function] x obtain x wrapper x site "
        "x arguments x environment kind x sync/async x extension set): every (placement, combination) row "
        "with 6 (thorough: all 62) rotating sites plus seeded sampling; counted only when the flag-free twin "
        "of the same construction is invoked; both directions judged (a true flag refuses, false/absent "
        "flags do not); C-level cases = (C-implemented callable kind [36: bound builtin methods, builtin "
        "functions, method descriptors, slot wrappers, method wrappers, functools.partial objects, C "
        "classes, operator objects] x policy [deny_name, deny_c_level, allow_python_level] x obtain x "
        "wrapper x site x argument form [plain, *list] x base class [sandbox, immutable] x sync/async): "
        "every (site, kind) once with rotating policy / obtain / wrapper (quick: non-print sites by seed "
        "parity) and every (obtain, wrapper, policy) at the print site, plus seeded sampling; counted only "
        "when the same template with the policy not armed is OBSERVED to run the callable and the armed "
        "policy rejects the target when asked directly; decorated-callable cases = (decorator chain [24: "
        "functools.wraps, update_wrapper, wraps without __dict__ copy, two wraps layers, wraps over lru_cache, "
        "lru_cache over wraps, lru_cache with and without arguments, cache, singledispatch, partial, partial of "
        "a wrapper, wrapper of a partial, partialmethod, contextmanager function, bound method / classmethod / "
        "staticmethod of a wrapper, bound method of an lru_cache, class based decorator with update_wrapper, "
        "callable object / instantiated class with __wrapped__ pointing at an unrelated function, pass_context "
        "over / under a wrapper] x marker position [outer object, innermost function before decorating, "
        "innermost function after decorating, both, middle layer, outer False + innermost True] x mark "
        "[unsafe, alters_data, override attribute, override identity deny-list] x obtain x wrapper x site x "
        "arguments x environment kind x sync/async x extension set): every (chain, position, mark) row with "
        "3 (thorough: 8) rotating sites, the first at the print site, plus seeded sampling; counted only when "
        "the marker-free twin of the same chain is invoked; expected verdict = the documented rule applied "
        "to the object the template calls; marker-visibility cases = (form of visibility [24: function __dict__, "
        "instance __dict__, class attribute, base class attribute, property own / inherited / reading instance "
        "state, non-data descriptor, data descriptor, slot, class __getattr__, __getattribute__ override, "
        "forwarding proxy around a function / lazy factory / bound method / callable object / pass_context "
        "function / another proxy, __class__-forwarding proxy around a function / bound method, bound method "
        "of a proxy, metaclass attribute / property / __getattr__ of an instantiated class] x mark [unsafe, "
        "alters_data, override attribute] x value [true, false] x obtain x wrapper x site x arguments x "
        "environment kind x sync/async x extension set): every (form, mark, value) row with 3 (thorough: 8) "
        "rotating sites, the first at the print site, plus seeded sampling; counted only when the marker-free "
        "twin of the same construction is invoked; expected verdict = getattr on the called object; "
        "binding-history cases = (prior binding of the called NAME in the same scope [15: none, macro definition "
        "(plain / with arguments / using caller / defined twice / aliased), imported macro (from-import, "
        "from-import-as), template module (import-as), set to a constant / a safe callable / a block, loop "
        "variable and with variable that are over, macro of that name inside another macro] x is the prior "
        "binding executed [plain, if true, if false, else branch not taken, empty loop] x how the name then comes "
        "to hold the callable [set, tuple set, set in if, set via temporary, set twice, from-import-as / "
        "from-import of the same name with context, with, loop variable, macro parameter, render data, "
        "env.globals] x scope holding all of it [top level, macro body, nested macro body, block, for / if / "
        "with body, call block body, filter / set / autoescape block, included template, extends child block, "
        "macro imported with context] x order [prior first, prior value used first, prior after the call] x "
        "name x obtain x site x arguments x callable kind x mark x environment kind x sync/async x extension "
        "set): every (prior, rebinding, scope) row once with rotating guard / order (quick: print site and a "
        "rotating site on alternating rows; thorough: 4 sites per row) plus seeded sampling; counted only when "
        "the unmarked twin is invoked through the re-bound name by the very same template")
LEVEL_TEXT = ("binding histories of the called name: 0 invocations and SecurityError on every reached (prior "
              "binding, rebinding, scope, order) row, whatever the name held before in that scope; "
              "marker visibility: on every reached (form, mark, value) row the call was refused (0 invocations, "
              "SecurityError) iff getattr on the called object shows a true marker, and ran otherwise; "
              "decorated callables: on every reached (chain, marker position, mark) row the call was refused "
              "(0 invocations, SecurityError) iff the called object itself shows a true marker / is rejected "
              "by the override, and ran otherwise; "
              "C-level callables: 0 observed invocations and SecurityError on every reached (kind, policy, "
              "path) case of a C-implemented callable an overridden policy rejects; "
              "flag combinations: on every reached (placement, unsafe_callable, alters_data) row the call was "
              "refused iff one of the two attributes is True; "
              "resolved names: 0 invocations and SecurityError on every reached (name, binding, use) row "
              "with the i18n/do/loopcontrols/debug extensions loaded; "
              "builtin-method policies: SecurityError on every reached call the override rejects, for "
              "literal and context receivers alike; "
              "held on every reached case: 0 invocations of the marked callable and SecurityError "
              "raised, over the composed grammar of reach paths (not exhaustive over all templates); "
              "on every enumerated/sampled multi-step history on one environment each call was allowed "
              "or refused according to the marks and policy in force at that step")
ASSUMPTIONS = [
    "callables are invoked by call syntax written in the template (or call blocks); engine-internal calls of data objects' protocol methods are out of scope",
    "marks: jinja2.sandbox.unsafe, alters_data=True, and an is_safe_callable override that rejects objects carrying vt_forbidden and defers to super() otherwise",
    "histories: the override additionally rejects objects (or bound receivers) carrying vt_frozen and objects whose vt_name is in the environment's deny-list; marks are set on and removed from the object the template calls (function, instance, partial, class) or the function/class shared by both siblings; the unsafe mark is removed by deleting the attribute(s) jinja2.sandbox.unsafe was observed to add",
    "builtin-method policies: builtin methods cannot record their invocation, so the observation is the documented outcome (SecurityError from render) under a policy that rejects the method, given that the structural twin of the template (context variable in place of the literal) evaluates the call under a policy that admits it (the policy subclass also overrides the public SandboxedEnvironment.call to record which methods the generated code hands over: the reach decision does not depend on is_safe_callable being consulted)",
    "C-level callables: invocation is observed through effects visible from the harness (growth of the container a bound method belongs to, a counter on the recording Python object passed as the argument); callables without such an effect (os.getcwd ...) are not generated; the recording object's protocol methods are run by nothing but the target call (it appears in the template only as that call's argument); under the type-ban and allow-list policies a template that itself calls a C-level builtin (range, dict.items ...) before the target is refused there, which satisfies the oracle and is counted apart (ccall_target_rejected_by_override counts the cases where the override was asked about the target itself)",
    "resolved names: a call the engine makes because the template wrote `_(...)` or a trans block counts as a call written in the template (`_` is documented as the alias of gettext and trans as calling gettext/ngettext/pgettext/npgettext); the callable is bound to the name by the template, the render data or env.globals. Translation callables the application registers through install_gettext_callables / install_null_translations are application hooks and are never marked",
    "flag combinations: the attribute values are the booleans True / False or the attribute is absent (other truthy values are not generated); 'on the object the template calls' means ordinary attribute lookup on that object (instance, then class, then base classes; a bound method shows the attributes of its function), which is how both documented markers (the unsafe decorator, func.alters_data = True) are written; attributes set only on the __call__ function of a callable object are not generated",
    "decorated callables: the verdict is that of the object the template calls: is_safe_callable documents 'callables are considered safe unless decorated with unsafe' and 'func.alters_data = True', both attributes of the called object; a marker on a function that the called object merely wraps counts only when the decorator copied it onto its product (functools.update_wrapper copies __dict__; partial, partialmethod and updated=() do not), and __wrapped__ is not followed. The identity deny-list override rejects exactly the listed objects. Invocation is recorded in the innermost function (the caches and partial are C code), for contextmanager functions in a plain function that returns the generator, for __wrapped__-elsewhere objects in the called object; arguments are hashable and include one positional argument (singledispatch)",
    "marker visibility: is_safe_callable documents the markers as attributes of the callable ('decorated with unsafe', 'func.alters_data = True'), so the verdict is what getattr(obj, name, False) gives on the object the template calls, whatever makes the attribute visible (instance, class, property, descriptor, __getattr__ / __getattribute__, a proxy forwarding attribute access to the wrapped callable, the metaclass for a class); the values are the booleans True / False, the lookup has no side effects and gives the same answer every time, properties and hooks never raise anything but AttributeError for names they do not know; proxies are called through their own __call__ (a proxy that is not itself callable is not generated)",
    "binding histories: prior binding, rebinding and call sit in one template scope (plus the templates that scope imports from); the name is one of g / helper / fmt, never a name the engine defines; what the name held before is harmless (a macro, a template module, a constant, an unmarked function), so only the call through the final binding is judged",
    "extensions other than i18n, do, loopcontrols and debug are not loaded; only the resolved-name part runs with more than the do extension",
    "histories also require the reverse direction: once a mark or deny-list entry is removed the call must be let through again (reported under history-wrongly-blocked keys)",
]
NSHARDS = {"quick": 16, "thorough": 16}
#: floors of the ninth part (names with a binding history), about 1/4 of a quick
#: run on the unchanged tree; the thorough tier runs 4 sites per row: 4 x
REBIND_FLOORS_QUICK = {
    "rebind_cases": 700, "rebind_security_errors": 700,
    "rebind_same_scope_cases": 350, "rebind_same_scope_after_macro_cases": 140,
    "rebind_macro_name_reused_cases": 380, "rebind_prior_not_executed_cases": 230,
    "rebind_prior_value_used_before_cases": 230, "rebind_name_bound_before_cases": 600,
    "rebind_name_bound_afterwards_cases": 45, "rebind_non_print_site_cases": 300,
    "rebind_async_cases": 200, "rebind_override_env_cases": 350,
    "rebind_mark:unsafe": 240, "rebind_mark:alters": 240, "rebind_mark:override": 240,
    "rebind_guard:plain": 440, "rebind_guard:if_true": 45, "rebind_guard:if_false": 65,
    "rebind_guard:else_not_taken": 80, "rebind_guard:empty_loop": 80,
    **{"rebind_prior:" + k: 45 for k in RB.PRIOR},
    **{"rebind_form:" + k: 55 for k in RB.REBIND},
    **{"rebind_scope:" + k: 48 for k in RB.SCOPE},
}
BUDGET_S = {"quick": 16, "thorough": 300}
FLOORS = {
    "quick": {"evaluations": 6000, "distinct": 3000,
              "counters": {"twin_invocations": 3000, "marked_renders": 3000,
                           "security_errors": 3000, "async_cases": 800,
                           "override_env_cases": 1200,
                           "history_cases": 900, "history_allowed_calls": 800,
                           "history_security_errors": 800,
                           "history_verdict_flips_allow_to_block": 400,
                           "history_verdict_flips_block_to_allow": 240,
                           "history_one_render_steps": 220, "history_async_cases": 200,
                           "history_override_env_cases": 230,
                           "bm_cases": 400, "bm_security_errors": 400,
                           "bm_literal_receiver_cases": 200, "bm_rejecting_consults": 400,
                           "callable_object_pass_cases": 150,
                           "helper_cases": 600, "helper_security_errors": 600,
                           "helper_engine_resolved_cases": 120, "helper_alias_cases": 60,
                           "helper_trans_cases": 60, "helper_shadowed_name_cases": 450,
                           "helper_async_cases": 170, "helper_i18n:none": 190,
                           "helper_i18n:null-old": 190, "helper_i18n:null-new": 190,
                           "extension_env_cases": 1000,
                           "flag_cases": 270, "flag_security_errors": 180, "flag_allowed_calls": 90,
                           "flag_both_attributes_present_cases": 170,
                           "flag_one_false_other_true_cases": 85, "flag_async_cases": 75,
                           "wrapped_cases": 450, "wrapped_security_errors": 250, "wrapped_allowed_calls": 200,
                           "wrapped_refused_though_innermost_unmarked": 100,
                           "wrapped_allowed_though_innermost_marked": 180,
                           "wrapped_dunder_wrapped_cases": 380, "wrapped_async_cases": 120,
                           "wrapped_override_env_cases": 280,
                           "wrapped_mark:unsafe": 120, "wrapped_mark:alters": 120,
                           "wrapped_mark:override": 120, "wrapped_mark:deny_object": 75,
                           "wrapped_position:outer": 95, "wrapped_position:inner_before": 70,
                           "wrapped_position:inner_after": 95, "wrapped_position:both": 95,
                           "wrapped_position:middle": 20, "wrapped_position:outer_false_inner_true": 70,
                           **{"wrapped_chain:" + c: 15 for c in WR.CHAINS},
                           "visible_cases": 200, "visible_security_errors": 100, "visible_allowed_calls": 100,
                           "visible_dynamic_only_cases": 150, "visible_dynamic_only_refused_expected": 75,
                           "visible_dynamic_only_allowed_expected": 75, "visible_proxy_cases": 70,
                           "visible_async_cases": 55, "visible_override_env_cases": 110,
                           "visible_mark:unsafe": 60, "visible_mark:alters": 60, "visible_mark:override": 60,
                           "visible_value:true": 100, "visible_value:false": 100,
                           **{"visible_form:" + v: 6 for v in VS.VIS},
                           "ccall_cases": 600, "ccall_security_errors": 600,
                           "ccall_target_rejected_by_override": 550, "ccall_async_cases": 170,
                           "ccall_controls_ok": 12,
                           "ccall_group:bound_builtin_method": 170, "ccall_group:builtin_function": 120,
                           "ccall_group:c_class": 100, "ccall_group:method_descriptor": 50,
                           "ccall_group:method_wrapper": 30, "ccall_group:operator_object": 50,
                           "ccall_group:partial": 50, "ccall_group:slot_wrapper": 30,
                           "ccall_policy:deny_name": 200, "ccall_policy:deny_c_level": 200,
                           "ccall_policy:allow_python_level": 200,
                           **REBIND_FLOORS_QUICK}},
    "thorough": {"evaluations": 60000, "distinct": 30000,
                 "counters": {"twin_invocations": 30000, "marked_renders": 30000,
                              "security_errors": 30000, "async_cases": 8000,
                              "override_env_cases": 12000,
                              "history_cases": 16000, "history_allowed_calls": 27000,
                              "history_security_errors": 22000,
                              "history_verdict_flips_allow_to_block": 7500,
                              "history_verdict_flips_block_to_allow": 2700,
                              "history_one_render_steps": 9500, "history_async_cases": 6500,
                              "history_override_env_cases": 8000,
                              "bm_cases": 3000, "bm_security_errors": 3000,
                              "bm_literal_receiver_cases": 1500, "bm_rejecting_consults": 3000,
                              "callable_object_pass_cases": 1000,
                              "helper_cases": 6000, "helper_security_errors": 6000,
                              "helper_engine_resolved_cases": 1500, "helper_alias_cases": 700,
                              "helper_trans_cases": 800, "helper_shadowed_name_cases": 4500,
                              "helper_async_cases": 1800, "helper_i18n:none": 2000,
                              "helper_i18n:null-old": 2000, "helper_i18n:null-new": 2000,
                              "extension_env_cases": 20000,
                              "flag_cases": 5400, "flag_security_errors": 3500,
                              "flag_allowed_calls": 1850,
                              "flag_both_attributes_present_cases": 3300,
                              "flag_one_false_other_true_cases": 1700, "flag_async_cases": 1600,
                              "wrapped_cases": 1920, "wrapped_security_errors": 1020,
                              "wrapped_allowed_calls": 840,
                              "wrapped_refused_though_innermost_unmarked": 420,
                              "wrapped_allowed_though_innermost_marked": 780,
                              "wrapped_dunder_wrapped_cases": 1680, "wrapped_async_cases": 540,
                              "wrapped_override_env_cases": 1200,
                              "wrapped_mark:unsafe": 510, "wrapped_mark:alters": 510,
                              "wrapped_mark:override": 510, "wrapped_mark:deny_object": 310,
                              "wrapped_position:outer": 390, "wrapped_position:inner_before": 300,
                              "wrapped_position:inner_after": 390, "wrapped_position:both": 390,
                              "wrapped_position:middle": 70,
                              "wrapped_position:outer_false_inner_true": 300,
                              **{"wrapped_chain:" + c: 70 for c in WR.CHAINS},
                              "visible_cases": 1800, "visible_security_errors": 900,
                              "visible_allowed_calls": 900,
                              "visible_dynamic_only_cases": 1300, "visible_dynamic_only_refused_expected": 650,
                              "visible_dynamic_only_allowed_expected": 650, "visible_proxy_cases": 600,
                              "visible_async_cases": 450, "visible_override_env_cases": 900,
                              "visible_mark:unsafe": 500, "visible_mark:alters": 500,
                              "visible_mark:override": 500,
                              "visible_value:true": 900, "visible_value:false": 900,
                              **{"visible_form:" + v: 60 for v in VS.VIS},
                              "ccall_cases": 4000, "ccall_security_errors": 4000,
                              "ccall_target_rejected_by_override": 3600, "ccall_async_cases": 1000,
                              "ccall_controls_ok": 12,
                              "ccall_group:bound_builtin_method": 1000,
                              "ccall_group:builtin_function": 700,
                              "ccall_group:c_class": 600, "ccall_group:method_descriptor": 300,
                              "ccall_group:method_wrapper": 200, "ccall_group:operator_object": 300,
                              "ccall_group:partial": 300, "ccall_group:slot_wrapper": 200,
                              "ccall_policy:deny_name": 1200, "ccall_policy:deny_c_level": 1200,
                              "ccall_policy:allow_python_level": 1200,
                              **{k: 4 * v for k, v in REBIND_FLOORS_QUICK.items()}}},
}

# ------------------------------------------------------------------ grammar
OBTAIN = {
    "name": "f",
    "attr": "o.m",
    "subscript_attr": "o['m']",
    "attr_filter": "(o|attr('m'))",
    "dict_attr": "d.f",
    "dict_item": "d['f']",
    "dict_nested": "d.k.g",
    "dict_get": "d.get('f')",
    "dict_values": "(d.values()|list)[0]",
    "list_index": "l[0]",
    "list_first": "(l|first)",
    "list_last": "(l|last)",
    "tuple_index": "t[0]",
    "nested": "nested[0].f[0]",
    "map_attr": "([d]|map(attribute='f')|first)",
    "condexpr": "(f if true else none)",
    "or_expr": "(none or f)",
    "default_filter": "(nope|default(f))",
}
# wrapper: text with ## = obtain expression, BODY = site text; CALLEE is the
# name the site uses for the callable.
WRAP = {
    "none": ("BODY", None),
    "set": ("{% set g = ## %}BODY", "g"),
    "set2": ("{% set g0 = ## %}{% set g = g0 %}BODY", "g"),
    "with": ("{% with g = ## %}BODY{% endwith %}", "g"),
    "namespace": ("{% set ns = namespace(g=##) %}BODY", "ns.g"),
    "namespace_set": ("{% set ns = namespace() %}{% set ns.g = ## %}BODY", "ns.g"),
    "loop_var": ("{% for g in [##] %}BODY{% endfor %}", "g"),
    "loop_var_items": ("{% for k, g in {'a': ##}.items() %}BODY{% endfor %}", "g"),
    "macro_param": ("{% macro wm(g) %}BODY{% endmacro %}{{ wm(##) }}", "g"),
    "macro_default": ("{% macro wm(g=##) %}BODY{% endmacro %}{{ wm() }}", "g"),
    "macro_kwargs": ("{% macro wm() %}BODY{% endmacro %}{{ wm(g=##) }}", "kwargs.g"),
    "macro_varargs": ("{% macro wm() %}BODY{% endmacro %}{{ wm(##) }}", "varargs[0]"),
    "caller_param": ("{% macro wm() %}{{ caller(##) }}{% endmacro %}{% call(g) wm() %}BODY{% endcall %}", "g"),
    "list_lit": ("BODY", "[##][0]"),
    "dict_lit": ("BODY", "{'a': ##}.a"),
    "aloop": ("{% for g in agen(##) %}BODY{% endfor %}", "g"),        # async only
}
# site: @@ = call expression (callee + "(" + args + ")"); ^^ = callee, ARGS = args
SITES = {
    "print": "{{ @@ }}",
    "print_filter": "{{ @@|string }}",
    "filter_arg_default": "{{ 1|default(@@) }}",
    "filter_arg_default_bool": "{{ none|default(@@, true) }}",
    "filter_arg_join": "{{ [1, 2]|join(@@) }}",
    "filter_kwarg": "{{ [3, 1]|sort(reverse=@@)|list }}",
    "map_filter_arg": "{{ [1]|map('default', @@)|list }}",
    "select_test_arg": "{{ [1, 2]|select('eq', @@)|list }}",
    "test_arg": "{{ 1 is eq(@@) }}",
    "test_input": "{{ @@ is none }}",
    "binop": "{{ 1 + @@ }}",
    "concat": "{{ @@ ~ 'x' }}",
    "condexpr_test": "{{ 'a' if @@ else 'b' }}",
    "condexpr_branch": "{{ @@ if true else 'b' }}",
    "and": "{{ true and @@ }}",
    "or": "{{ false or @@ }}",
    "not": "{{ not @@ }}",
    "compare": "{{ @@ == 1 }}",
    "in": "{{ 1 in [@@] }}",
    "list_lit": "{{ [@@] }}",
    "dict_lit": "{{ {'a': @@} }}",
    "tuple_lit": "{{ (@@, 2) }}",
    "subscript_of": "{{ @@[0] }}",
    "subscript_arg": "{{ [5, 6, 7][@@] }}",
    "slice": "{{ 'abcd'[@@:] }}",
    "attr_of": "{{ @@.real }}",
    "call_of": "{{ @@() }}",
    "call_arg": "{{ range(@@)|list }}",
    "call_kwarg": "{{ dict(a=@@) }}",
    "if_stmt": "{% if @@ %}y{% endif %}",
    "elif_stmt": "{% if false %}n{% elif @@ %}y{% endif %}",
    "set_stmt": "{% set x = @@ %}{{ x }}",
    "set_block": "{% set x %}{{ @@ }}{% endset %}{{ x }}",
    "with_stmt": "{% with x = @@ %}{{ x }}{% endwith %}",
    "for_iter": "{% for x in @@ %}{{ x }}{% endfor %}",
    "for_body": "{% for x in [1, 2] %}{{ @@ }}{% endfor %}",
    "for_filter": "{% for x in [1, 2] if @@ %}{{ x }}{% endfor %}",
    "for_else": "{% for x in [] %}{% else %}{{ @@ }}{% endfor %}",
    "for_recursive": "{% for x in [1] recursive %}{{ @@ }}{% endfor %}",
    "for_loop_cycle": "{% for x in [1] %}{{ loop.cycle(@@, 2) }}{% endfor %}",
    "macro_body": "{% macro m() %}{{ @@ }}{% endmacro %}{{ m() }}",
    "macro_default": "{% macro m(a=@@) %}{{ a }}{% endmacro %}{{ m() }}",
    "macro_call_arg": "{% macro m(a) %}{{ a }}{% endmacro %}{{ m(@@) }}",
    "macro_call_kwarg": "{% macro m(a=1) %}{{ a }}{% endmacro %}{{ m(a=@@) }}",
    "call_block_body": "{% macro m() %}[{{ caller() }}]{% endmacro %}{% call m() %}{{ @@ }}{% endcall %}",
    "call_block_macro_arg": "{% macro m(a) %}{{ a }}{{ caller() }}{% endmacro %}{% call m(@@) %}b{% endcall %}",
    "caller_with_param": "{% macro m() %}{{ caller(1) }}{% endmacro %}{% call(cq) m() %}{{ @@ }}{% endcall %}",
    "call_block_target": "{% call ^^(ARGS) %}body{% endcall %}",
    "call_block_target_params": "{% call(v) ^^(ARGS) %}{{ v }}{% endcall %}",
    "filter_block": "{% filter upper %}{{ @@ }}{% endfilter %}",
    "autoescape_block": "{% autoescape true %}{{ @@ }}{% endautoescape %}",
    "block": "{% block b %}{{ @@ }}{% endblock %}",
    "block_scoped": "{% for x in [1] %}{% block b scoped %}{{ @@ }}{% endblock %}{% endfor %}",
    "include": "{% include 'inc' %}",
    "import_with_context": "{% import 'lib' as lib with context %}{{ lib.m() }}",
    "from_import_param": "{% from 'lib2' import ap %}{{ ap(^^) }}",
    "extends_block": "{% extends 'base' %}{% block b %}{{ @@ }}{% endblock %}",
    "do_ext": "{% do @@ %}",
    "chained_after_safe_call": "{{ ident(^^)(ARGS) }}",
    "arg_of_safe_call": "{{ ident(@@) }}",
}
SITE_TEMPLATES = {
    "include": {"inc": "{{ @@ }}"},
    "import_with_context": {"lib": "{% macro m() %}{{ @@ }}{% endmacro %}"},
    "from_import_param": {"lib2": "{% macro ap(q) %}{{ q(ARGS) }}{% endmacro %}"},
    "extends_block": {"base": "<{% block b %}{% endblock %}>"},
}
ARGS = ["", "1", "1, k=2", "*[1, 2]", "**{'k': 1}", "1, *[2], **{'k': 3}"]
KINDS = ["func", "lambda", "method", "classmethod", "staticmethod", "callable_obj",
         "callable_cls", "partial", "klass", "pass_context", "pass_environment",
         "pass_eval_context", "async_func",
         # callable OBJECTS whose __call__ takes the context / environment / eval
         # context; the mark sits on the instance (cobj_*) or on the class (ccls_*)
         "cobj_pass_context", "cobj_pass_environment", "cobj_pass_eval_context",
         "ccls_pass_context", "ccls_pass_environment", "ccls_pass_eval_context"]
MARKS = ["unsafe", "alters", "override"]
ENVS = ["sandbox", "immutable", "override"]


# ----------------------------------------------------------- the callables
class Ret(int):
    """Flexible return value so the control twin gets through most sites."""

    def __call__(self, *a, **k):
        return 1

    def __getitem__(self, i):
        return 1

    def __iter__(self):
        return iter([1])


class Rec:
    def __init__(self):
        self.calls = 0


def make_callable(kind, mark, rec):
    """Returns (f, o) with o.m being the callable too.  mark None = twin."""
    from jinja2 import pass_context, pass_environment, pass_eval_context
    from jinja2.sandbox import unsafe

    def apply_mark(obj):
        if mark == "unsafe":
            return unsafe(obj)
        if mark == "alters":
            obj.alters_data = True
        elif mark == "override":
            obj.vt_forbidden = True
        return obj

    def body(*a, **k):
        rec.calls += 1
        return Ret(1)

    if kind == "func":
        def f(*a, **k):
            return body(*a, **k)
        f = apply_mark(f)
    elif kind == "lambda":
        f = apply_mark(lambda *a, **k: body(*a, **k))
    elif kind in ("method", "classmethod", "staticmethod"):
        def m(self_or_cls=None, *a, **k):
            return body(*a, **k)

        def sm(*a, **k):
            return body(*a, **k)
        if kind == "method":
            class O:
                meth = apply_mark(m)
        elif kind == "classmethod":
            class O:
                meth = classmethod(apply_mark(m))
        else:
            class O:
                meth = staticmethod(apply_mark(sm))
        f = O().meth
    elif kind == "callable_obj":
        class CO:
            def __call__(self, *a, **k):
                return body(*a, **k)
        f = apply_mark(CO())
    elif kind == "callable_cls":
        class CC:
            def __call__(self, *a, **k):
                return body(*a, **k)
        apply_mark(CC)
        f = CC()
    elif kind.startswith(("cobj_pass_", "ccls_pass_")):
        deco = {"pass_context": pass_context, "pass_environment": pass_environment,
                "pass_eval_context": pass_eval_context}[kind[5:]]

        class PO:
            @deco
            def __call__(self, passed, *a, **k):
                return body(*a, **k)
        if kind.startswith("ccls_"):
            apply_mark(PO)
            f = PO()
        else:
            f = apply_mark(PO())
    elif kind == "partial":
        f = apply_mark(functools.partial(body, 0))
    elif kind == "klass":
        class K(int):
            def __new__(cls, *a, **k):
                body()
                return int.__new__(cls, 1)

            def __call__(self, *a, **k):
                return 1

            def __getitem__(self, i):
                return 1

            def __iter__(self):
                return iter([1])
        f = apply_mark(K)
    elif kind == "pass_context":
        @pass_context
        def f(c, *a, **k):
            return body(*a, **k)
        f = apply_mark(f)
    elif kind == "pass_environment":
        @pass_environment
        def f(e, *a, **k):
            return body(*a, **k)
        f = apply_mark(f)
    elif kind == "pass_eval_context":
        @pass_eval_context
        def f(e, *a, **k):
            return body(*a, **k)
        f = apply_mark(f)
    elif kind == "async_func":
        def f(*a, **k):
            rec.calls += 1      # counted when *called*, the body is awaited later

            async def co():
                return Ret(1)
            return co()
        f = apply_mark(f)
    else:
        raise AssertionError(kind)

    class Holder:
        pass

    o = Holder()
    o.m = f
    return f, o


_envs = {}


def new_env(kind, is_async, extensions=("jinja2.ext.do",), i18n="none"):
    """A fresh environment of the given kind ('override' = the policy subclass).
    i18n (only with the i18n extension among the extensions): 'none' = nothing
    installed, 'null-old' / 'null-new' = install_null_translations with
    old-style / new-style callables."""
    from jinja2.sandbox import ImmutableSandboxedEnvironment, SandboxedEnvironment

    if kind == "sandbox":
        cls = SandboxedEnvironment
    elif kind == "immutable":
        cls = ImmutableSandboxedEnvironment
    else:
        class cls(SandboxedEnvironment):
            vt_denied = frozenset()
            vt_denied_objs = ()

            def is_safe_callable(self, obj):
                if getattr(obj, "vt_forbidden", False):
                    return False
                if any(obj is x for x in self.vt_denied_objs):
                    return False
                if getattr(obj, "vt_frozen", False):
                    return False
                recv = getattr(obj, "__self__", None)
                if recv is not None and getattr(recv, "vt_frozen", False):
                    return False
                if self.vt_denied and getattr(obj, "vt_name", None) in self.vt_denied:
                    return False
                return super().is_safe_callable(obj)
    env = cls(enable_async=is_async, extensions=list(extensions), cache_size=0)
    if i18n == "null-old":
        env.install_null_translations(newstyle=False)
    elif i18n == "null-new":
        env.install_null_translations(newstyle=True)
    env.globals["ident"] = lambda x: x

    async def agen(x):
        yield x
    env.globals["agen"] = agen
    return env


#: extension sets of the reach-path cases: the do extension only, or the i18n,
#: do, loopcontrols and debug extensions with the gettext callables not
#: installed / installed old-style / installed new-style
EXTS = ["do", "all:none", "all:null-old", "all:null-new"]


def get_env(kind, is_async, templates, ext="do"):
    from jinja2 import DictLoader

    key = (kind, is_async, ext)
    env = _envs.get(key)
    if env is None:
        if ext == "do":
            env = new_env(kind, is_async)
        else:
            env = new_env(kind, is_async, HELPER_EXTENSIONS, ext.split(":", 1)[1])
        _envs[key] = env
    env.loader = DictLoader(dict(templates))
    return env


def compose(case):
    callee_expr = OBTAIN[case["obtain"]]
    wtext, alias = WRAP[case["wrap"]]
    if alias is None:
        callee = callee_expr
    else:
        callee = alias.replace("##", callee_expr)
    args = case["args"]

    def fill(text):
        return (text.replace("@@", f"{callee}({args})").replace("^^", callee)
                .replace("ARGS", args))
    body = fill(SITES[case["site"]])
    source = wtext.replace("BODY", body).replace("##", callee_expr)
    templates = {k: fill(v) for k, v in SITE_TEMPLATES.get(case["site"], {}).items()}
    return source, templates


def render_once(case, marked):
    from jinja2.exceptions import SecurityError

    rec = Rec()
    f, o = make_callable(case["kind"], case["mark"] if marked else None, rec)
    source, templates = compose(case)
    env = get_env(case["env"], case["async"], templates, case.get("ext", "do"))
    data = {"f": f, "o": o, "d": {"f": f, "k": {"g": f}}, "l": [f], "t": (f,),
            "nested": [{"f": [f]}]}
    try:
        out = env.from_string(source).render(**data)
        exc = None
    except SecurityError as e:
        out, exc = None, ("SecurityError", str(e))
    except Exception as e:
        out, exc = None, (type(e).__name__, str(e)[:200])
    return rec.calls, out, exc, source, templates


def run_case(ctx, case, count=True):
    """-> True if reached (non-trivial)."""
    calls, out, exc, source, templates = render_once(case, marked=False)
    if count:
        ctx.ev()
        ctx.count("twin_renders")
    if exc is not None and exc[0] == "SecurityError":
        # the construction itself trips the sandbox without any mark: not a
        # usable case for this property
        if count:
            ctx.count("twin_security_error")
        return False
    if calls == 0:
        if count:
            ctx.count("unreached_cases")
            ctx.count("unreached_site:" + case["site"])
        return False
    if count:
        ctx.count("twin_invocations", calls)
    mcalls, mout, mexc, _, _ = render_once(case, marked=True)
    if count:
        ctx.ev()
        ctx.count("marked_renders")
        ctx.count("site:" + case["site"])
        ctx.count("mark:" + case["mark"])
        if case["async"]:
            ctx.count("async_cases")
        if case["env"] == "override":
            ctx.count("override_env_cases")
        if case["kind"].startswith(("cobj_pass_", "ccls_pass_")):
            ctx.count("callable_object_pass_cases")
        if case.get("ext", "do") != "do":
            ctx.count("extension_env_cases")
        ctx.dist([case[k] for k in ("obtain", "wrap", "site", "args", "kind", "mark", "env", "async")]
                 + [case.get("ext", "do")])
    full = dict(case, source=source, templates=templates)
    mech = f"site={case['site']}:wrap={case['wrap']}:kind={case['kind']}:mark={case['mark']}"
    if mcalls:
        ctx.violation("invoked:" + mech,
                      f"marked callable ({case['kind']}/{case['mark']}, env {case['env']}, "
                      f"extensions {case.get('ext', 'do')}, async={case['async']}) was invoked {mcalls}x by {source!r} {templates}; "
                      f"render outcome: {mexc or mout!r}", full)
    elif mexc is None or mexc[0] != "SecurityError":
        ctx.violation("no-security-error:" + mech,
                      f"control twin is invoked {calls}x but with the mark the render of {source!r} "
                      f"{templates} gave {mexc or mout!r} instead of SecurityError "
                      f"(env {case['env']}, extensions {case.get('ext', 'do')}, async={case['async']})", full)
    elif count:
        ctx.count("security_errors")
    return True


def valid(case):
    if case["kind"] == "async_func" and not case["async"]:
        return False
    if case["wrap"] == "aloop" and not case["async"]:
        return False
    if case["mark"] == "override" and case["env"] != "override":
        return False
    return True


def base_cases():
    """Deterministic coverage core: every (site, kind, mark) with the plain
    name, every (obtain, wrap, mark) at the print site."""
    out = []
    i = 0
    for site in SITES:
        for kind in KINDS:
            for mark in MARKS:
                i += 1
                out.append({"obtain": "name", "wrap": "none", "site": site,
                            "args": ARGS[i % len(ARGS)], "kind": kind, "mark": mark,
                            "env": "override" if mark == "override" else ENVS[i % 3],
                            "async": kind == "async_func" or i % 3 == 0,
                            "ext": EXTS[(i // 3) % 4]})
    for ob in OBTAIN:
        for wr in WRAP:
            for mark in MARKS:
                i += 1
                kind = KINDS[i % len(KINDS)]
                a = wr == "aloop" or kind == "async_func" or i % 4 == 0
                out.append({"obtain": ob, "wrap": wr, "site": "print",
                            "args": ARGS[i % len(ARGS)], "kind": kind, "mark": mark,
                            "env": "override" if mark == "override" else ENVS[i % 3],
                            "async": a, "ext": EXTS[(i // 3) % 4]})
    return [c for c in out if valid(c)]


def random_case(rng):
    while True:
        mark = rng.choice(MARKS)
        c = {"obtain": rng.choice(list(OBTAIN)), "wrap": rng.choice(list(WRAP)),
             "site": rng.choice(list(SITES)), "args": rng.choice(ARGS),
             "kind": rng.choice(KINDS), "mark": mark,
             "env": "override" if mark == "override" else rng.choice(ENVS),
             "async": rng.random() < 0.3, "ext": rng.choice(EXTS)}
        if valid(c):
            return c


# ---------------------------------------------------------------- histories
HKINDS = ["func", "lambda", "method", "classmethod", "staticmethod", "callable_obj",
          "partial", "klass", "pass_context", "pass_environment", "pass_eval_context",
          "async_func", "async_def",
          "callable_obj_pass_context", "callable_obj_pass_environment",
          "callable_obj_pass_eval_context"]
ASYNC_ONLY = ("async_func", "async_def")
SHARED_FUNC_KINDS = ("method", "classmethod", "staticmethod")
# both siblings in one render; fa/oa = first, fb/ob = second
FORMS2 = {
    "seq_name": "{{ fa(ARGS) }}{{ fb(ARGS) }}",
    "seq_attr": "{{ oa.m(ARGS) }}{{ ob.m(ARGS) }}",
    "loop_attr": "{% for x in [oa, ob] %}{{ x.m(ARGS) }}{% endfor %}",
    "loop_name": "{% for g in [fa, fb] %}{{ g(ARGS) }}{% endfor %}",
    "macro_param": "{% macro w(g) %}{{ g(ARGS) }}{% endmacro %}{{ w(fa) }}{{ w(fb) }}",
    "reset_alias": "{% set g = fa %}{{ g(ARGS) }}{% set g = fb %}{{ g(ARGS) }}",
    "filter_args": "{{ [1]|join(fa(ARGS)) }}{{ 1|default(fb(ARGS)) }}",
    "call_block": "{% macro w(g) %}{{ g(ARGS) }}{{ caller() }}{% endmacro %}"
                  "{% call w(fa) %}{{ fb(ARGS) }}{% endcall %}",
    "dict_items": "{% for k, g in {'a': fa, 'b': fb}|dictsort %}{{ g(ARGS) }}{% endfor %}",
    "one_expr": "{{ [oa.m(ARGS), ob.m(ARGS)]|length }}",
}
PATTERNS = ["late_mark", "unmark", "sibling_between", "blocked_first", "one_render",
            "interleaved", "sibling_then_mark"]


class Target:
    __slots__ = ("o", "own", "rec")


class Family:
    """Two sibling callables A and B.  t[T].o.m is the callable of T; own is
    the object carrying per-target marks (None if there is none); shared is
    the object whose marks apply to both."""

    def __init__(self, kind):
        self.kind = kind
        self.t = {}
        self.shared = None

    def holder(self, scope):
        return self.shared if scope == "shared" else self.t[scope].own

    def reset(self):
        for t in self.t.values():
            t.rec.calls = 0

    def data(self, T):
        o = self.t[T].o
        f = o.m
        return {"f": f, "o": o, "d": {"f": f, "k": {"g": f}}, "l": [f], "t": (f,),
                "nested": [{"f": [f]}]}

    def data2(self, first, second):
        oa, ob = self.t[first].o, self.t[second].o
        return {"fa": oa.m, "fb": ob.m, "oa": oa, "ob": ob}


def make_family(kind, tag):
    from jinja2 import pass_context, pass_environment, pass_eval_context

    fam = Family(kind)
    recs = {"A": Rec(), "B": Rec()}

    class Holder:
        pass

    def add(T, o, own, rec=None):
        t = Target()
        t.o, t.own, t.rec = o, own, rec or recs[T]
        fam.t[T] = t

    if kind == "method":
        class O:
            def m(self, *a, **k):
                self.vt_rec.calls += 1
                return Ret(1)
        fam.shared = vars(O)["m"]
        fam.shared.vt_name = tag + "S"
        for T in "AB":
            o = O()
            o.vt_rec = recs[T]
            add(T, o, o)
    elif kind == "classmethod":
        def cm(cls, *a, **k):
            cls.vt_rec.calls += 1
            return Ret(1)
        cm.vt_name = tag + "S"

        class Root:
            m = classmethod(cm)
        fam.shared = cm
        for T in "AB":
            K = type("K" + T, (Root,), {"vt_rec": recs[T]})
            add(T, K(), K)
    elif kind == "staticmethod":
        rec = recs["A"]

        def sm(*a, **k):
            rec.calls += 1
            return Ret(1)
        sm.vt_name = tag + "S"

        class OS:
            m = staticmethod(sm)
        fam.shared = sm
        for T in "AB":
            add(T, OS(), None, rec)
    elif kind.startswith("callable_obj"):
        if kind == "callable_obj":
            class CO:
                def __call__(self, *a, **k):
                    self.vt_rec.calls += 1
                    return Ret(1)
        else:
            deco = {"pass_context": pass_context, "pass_environment": pass_environment,
                    "pass_eval_context": pass_eval_context}[kind[len("callable_obj_"):]]

            class CO:
                @deco
                def __call__(self, passed, *a, **k):
                    self.vt_rec.calls += 1
                    return Ret(1)
        fam.shared = CO
        for T in "AB":
            inst = CO()
            inst.vt_rec = recs[T]
            inst.vt_name = tag + T
            o = Holder()
            o.m = inst
            add(T, o, inst)
    else:
        def pt(rec, *a, **k):
            rec.calls += 1
            return Ret(1)

        def mk(rec):
            if kind == "func":
                def f(*a, **k):
                    rec.calls += 1
                    return Ret(1)
            elif kind == "lambda":
                def bump():
                    rec.calls += 1
                    return Ret(1)
                f = lambda *a, **k: bump()      # noqa: E731
            elif kind == "partial":
                f = functools.partial(pt, rec)
            elif kind == "klass":
                class f(int):
                    def __new__(cls, *a, **k):
                        rec.calls += 1
                        return int.__new__(cls, 1)

                    def __call__(self, *a, **k):
                        return 1

                    def __getitem__(self, i):
                        return 1

                    def __iter__(self):
                        return iter([1])
            elif kind == "pass_context":
                @pass_context
                def f(c, *a, **k):
                    rec.calls += 1
                    return Ret(1)
            elif kind == "pass_environment":
                @pass_environment
                def f(e, *a, **k):
                    rec.calls += 1
                    return Ret(1)
            elif kind == "pass_eval_context":
                @pass_eval_context
                def f(e, *a, **k):
                    rec.calls += 1
                    return Ret(1)
            elif kind == "async_func":
                def f(*a, **k):
                    rec.calls += 1

                    async def co():
                        return Ret(1)
                    return co()
            elif kind == "async_def":
                async def f(*a, **k):
                    rec.calls += 1
                    return Ret(1)
            else:
                raise AssertionError(kind)
            return f
        for T in "AB":
            f = mk(recs[T])
            f.vt_name = tag + T
            o = Holder()
            o.m = f
            add(T, o, f)
    return fam


def changes_for(kind, envkind):
    """(mark, scope) pairs whose effect on the verdict of A and B is known by
    construction: scope T -> only T becomes forbidden, shared -> both."""
    ov = envkind == "override"
    basic = ["unsafe", "alters"] + (["forbid", "deny"] if ov else [])
    if kind in SHARED_FUNC_KINDS:
        out = [(m, "shared") for m in basic]
        if ov and kind != "staticmethod":
            out += [("freeze", "A"), ("freeze", "B")]
    elif kind.startswith("callable_obj"):
        out = [(m, T) for m in basic + (["freeze"] if ov else []) for T in "AB"]
        out += [(m, "shared") for m in ["unsafe", "alters"] + (["forbid"] if ov else [])]
    else:
        out = [(m, T) for m in basic for T in "AB"]
    return out


def set_mark(fam, env, mark, scope):
    """Applies the change; returns the function that takes it back (None if
    the mark cannot be taken back through observable means)."""
    from jinja2.sandbox import unsafe

    h = fam.holder(scope)
    if mark == "unsafe":
        before = set(vars(h))
        unsafe(h)
        added = sorted(set(vars(h)) - before)
        if not added:
            return None

        def undo():
            for a in added:
                delattr(h, a)
    elif mark == "alters":
        h.alters_data = True
        if fam.shared is None and scope == "B":
            def undo():
                h.alters_data = False
        else:
            def undo():
                del h.alters_data
    elif mark == "forbid":
        h.vt_forbidden = True

        def undo():
            del h.vt_forbidden
    elif mark == "freeze":
        h.vt_frozen = True

        def undo():
            del h.vt_frozen
    elif mark == "deny":
        name = h.vt_name
        env.vt_denied = set(env.vt_denied) | {name}

        def undo():
            env.vt_denied = set(env.vt_denied) - {name}
    else:
        raise AssertionError(mark)
    return undo


def hist_render(env, tmpl_cache, source, templates, data):
    from jinja2 import DictLoader
    from jinja2.exceptions import SecurityError

    env.loader = DictLoader(dict(templates))
    try:
        t = tmpl_cache.get(source)
        if t is None:
            t = tmpl_cache[source] = env.from_string(source)
        out = t.render(**data)
        exc = None
    except SecurityError as e:
        out, exc = None, ("SecurityError", str(e)[:200])
    except Exception as e:
        out, exc = None, (type(e).__name__, str(e)[:200])
    return out, exc


def compose2(form, args):
    return FORMS2[form].replace("ARGS", args)


_reach = {}


def tc_reaches(tc, kind, envkind, is_async):
    """True if the template (single-target case dict or [form, args] pair)
    invokes both unmarked siblings and renders without any exception."""
    key = json.dumps([tc, kind, envkind, is_async], sort_keys=True)
    r = _reach.get(key)
    if r is None:
        fam = make_family(kind, "t")
        if isinstance(tc, dict):
            if not valid(dict(tc, kind=kind, mark="unsafe", env=envkind)) or \
                    (tc["wrap"] == "aloop" and not is_async):
                r = False
            else:
                source, templates = compose(tc)
                r = True
                for T in "AB":
                    fam.reset()
                    _, exc = hist_render(get_env(envkind, is_async, {}), {}, source,
                                         templates, fam.data(T))
                    r = r and exc is None and fam.t[T].rec.calls > 0
        else:
            source = compose2(*tc)
            _, exc = hist_render(get_env(envkind, is_async, {}), {}, source, {},
                                 fam.data2("A", "B"))
            r = exc is None and all(t.rec.calls > 0 for t in fam.t.values())
        _reach[key] = r
    return r


def pick_tc(rng, kind, envkind, is_async):
    for _ in range(8):
        tc = {"obtain": rng.choice(list(OBTAIN)), "wrap": rng.choice(list(WRAP)),
              "site": rng.choice(list(SITES)), "args": rng.choice(ARGS), "async": is_async}
        if tc_reaches(tc, kind, envkind, is_async):
            return tc
    return {"obtain": "name", "wrap": "none", "site": "print", "args": "", "async": is_async}


def pick_form(rng, kind, envkind, is_async):
    for _ in range(8):
        tc = [rng.choice(list(FORMS2)), rng.choice(ARGS)]
        if tc_reaches(tc, kind, envkind, is_async):
            return tc
    return ["seq_name", ""]


def pattern_steps(pattern, change, X, Y):
    m, s = change
    mark, unmark = ["mark", m, s], ["unmark", m, s]
    if pattern == "late_mark":
        return [["call", X, 0], mark, ["call", X, 0]]
    if pattern == "unmark":
        return [mark, ["call", X, 0], unmark, ["call", X, 0]]
    if pattern == "sibling_between":
        return [mark, ["call", Y, 0], ["call", X, 0], ["call", Y, 1]]
    if pattern == "blocked_first":
        return [mark, ["call", X, 0], ["call", Y, 0], ["call", X, 1]]
    if pattern == "one_render":
        return [["call2", X + Y, 0], mark, ["call2", Y + X, 0], ["call2", X + Y, 1]]
    if pattern == "interleaved":
        return [["call", X, 0], ["other", 1], mark, ["other", 0], ["call", X, 1], unmark,
                ["call", X, 0]]
    if pattern == "sibling_then_mark":
        return [["call", Y, 0], mark, ["call", X, 0], ["call", Y, 0]]
    raise AssertionError(pattern)


def history_index():
    """Deterministic list of (kind, env, async, change, pattern)."""
    out = []
    i = 0
    for kind in HKINDS:
        for envkind in ENVS:
            for change in changes_for(kind, envkind):
                for pattern in PATTERNS:
                    i += 1
                    out.append((kind, envkind, kind in ASYNC_ONLY or i % 3 == 0, change, pattern))
    return out


def build_history(rng, kind, envkind, is_async, steps):
    return {"hist": True, "kind": kind, "env": envkind, "async": is_async,
            "tcs": [pick_tc(rng, kind, envkind, is_async) for _ in range(2)],
            "forms": [pick_form(rng, kind, envkind, is_async) for _ in range(2)],
            "steps": steps}


def random_history(rng):
    kind = rng.choice(HKINDS)
    envkind = rng.choice(ENVS + ["override"])
    is_async = kind in ASYNC_ONLY or rng.random() < 0.3
    changes = changes_for(kind, envkind)
    active = []
    steps = []
    n = rng.randint(2, 6)
    while len(steps) < n:
        r = rng.random()
        last = len(steps) == n - 1
        if last or r < 0.45:
            if rng.random() < 0.25:
                steps.append(["call2", rng.choice(["AB", "BA"]), rng.randrange(2)])
            else:
                steps.append(["call", rng.choice("AB"), rng.randrange(2)])
        elif r < 0.70 or not active:
            free = [c for c in changes if c not in active]
            if free:
                c = rng.choice(free)
                active.append(c)
                steps.append(["mark", c[0], c[1]])
        elif r < 0.88:
            c = active.pop(rng.randrange(len(active)))
            steps.append(["unmark", c[0], c[1]])
        else:
            steps.append(["other", rng.randrange(2)])
    return build_history(rng, kind, envkind, is_async, steps)


def run_history(ctx, spec, count=True):
    """Executes one history on one fresh environment -> True if counted."""
    kind, envkind, is_async = spec["kind"], spec["env"], spec["async"]
    tcs, forms = spec["tcs"], [list(f) for f in spec["forms"]]
    used_tc = sorted({s[2] for s in spec["steps"] if s[0] == "call"} |
                     {s[1] for s in spec["steps"] if s[0] == "other"})
    used_f = sorted({s[2] for s in spec["steps"] if s[0] == "call2"})
    if not all(tc_reaches(tcs[i], kind, envkind, is_async) for i in used_tc) or \
            not all(tc_reaches(forms[i], kind, envkind, is_async) for i in used_f):
        if count:
            ctx.count("history_unreached")
        return False
    env = new_env(envkind, is_async)
    fam = make_family(kind, "p")
    fam_ok = make_family(kind, "q")          # unrelated family, never marked
    fam_bad = make_family(kind, "r")         # unrelated family, marked from the start
    for T in "AB":
        sc = T if fam_bad.t[T].own is not None and kind not in ("method", "classmethod") else "shared"
        if getattr(fam_bad.holder(sc), "alters_data", False) is not True:
            set_mark(fam_bad, env, "alters", sc)
    cache = {}
    active = {}              # (mark, scope) -> undo
    trace = []
    last_change = "none"
    prior = {}               # target -> "allowed" / "blocked" of its latest call
    last_call = None
    nrender = 0
    flips = {"allow_to_block": 0, "block_to_allow": 0}

    def allowed(T):
        return not any(s in (T, "shared") for (_m, s) in active)

    def rel(scope, T):
        return "shared" if scope == "shared" else ("own" if scope == T else "sibling")

    def judge(T, exp_allowed, invoked, exc, source, templates, label):
        sec = exc is not None and exc[0] == "SecurityError"
        pr = "none"
        if last_call is not None:
            pr = prior[last_call] + ("-own" if last_call == T else "-sibling")
        lc = last_change if isinstance(last_change, str) else \
            f"{last_change[0]}-{last_change[1]}@{rel(last_change[2], T)}"
        mech = f"kind={kind}:step={label}:change={lc}:prior={pr}"
        info = (f"history on one {envkind} environment (async={is_async}), {kind} family; steps so far "
                f"{trace}; now {label} of {T} by {source!r} {templates or ''}")
        full = dict(spec, failing_step=len(trace))
        if exp_allowed:
            if sec or not invoked:
                ctx.violation("history-wrongly-blocked:" + mech,
                              f"{info}: nothing in force forbids it (active marks {sorted(active)}) but "
                              f"invocations={invoked}, outcome {exc}", full)
                return False
        else:
            if invoked:
                ctx.violation("history-invoked:" + mech,
                              f"{info}: forbidden by {sorted(active)} at this moment but it was invoked "
                              f"{invoked}x; outcome {exc or 'rendered'}", full)
                return False
            if not sec:
                ctx.violation("history-no-security-error:" + mech,
                              f"{info}: forbidden by {sorted(active)} but the outcome was {exc or 'rendered'} "
                              f"instead of SecurityError", full)
                return False
        return True

    def note(T, exp_allowed):
        nonlocal last_call
        new = "allowed" if exp_allowed else "blocked"
        for U, old in prior.items():
            if old != new:
                flips["block_to_allow" if exp_allowed else "allow_to_block"] += 1
                break
        prior[T] = new
        last_call = T

    for step in spec["steps"]:
        op = step[0]
        if op == "mark":
            c = (step[1], step[2])
            if c not in active and c in changes_for(kind, envkind):
                active[c] = set_mark(fam, env, *c)
                last_change = ("mark", step[1], step[2])
                trace.append(step)
        elif op == "unmark":
            c = (step[1], step[2])
            if active.get(c) is not None:
                active.pop(c)()
                last_change = ("unmark", step[1], step[2])
                trace.append(step)
        elif op == "call":
            T = step[1]
            source, templates = compose(tcs[step[2]])
            fam.reset()
            _, exc = hist_render(env, cache, source, templates, fam.data(T))
            nrender += 1
            exp = allowed(T)
            ok = judge(T, exp, fam.t[T].rec.calls, exc, source, templates, "call")
            trace.append(step + ["allowed" if exp else "forbidden"])
            if count and ok:
                ctx.count("history_allowed_calls" if exp else "history_security_errors")
            note(T, exp)
        elif op == "call2":
            first, second = step[1][0], step[1][1]
            source = compose2(*forms[step[2]])
            fam.reset()
            _, exc = hist_render(env, cache, source, {}, fam.data2(first, second))
            nrender += 1
            e1, e2 = allowed(first), allowed(second)
            inv1, inv2 = fam.t[first].rec.calls, fam.t[second].rec.calls
            if fam.t[first].rec is fam.t[second].rec:
                # one shared function (staticmethod): the verdicts coincide
                ok = judge(first, e1, inv1, exc, source, {}, "one-render-first")
                note(first, e1)
            elif not e1:
                # the render stops at the first call; the second is never reached
                ok = judge(first, False, inv1, exc, source, {}, "one-render-first")
                note(first, False)
                if inv2:
                    ctx.violation(f"history-invoked:kind={kind}:step=one-render-after-refusal",
                                  f"{source!r}: the first call is forbidden by {sorted(active)}, yet the "
                                  f"second callable ran {inv2}x (outcome {exc or 'rendered'})",
                                  dict(spec, failing_step=len(trace)))
                    ok = False
            else:
                ok = judge(first, True, inv1, exc if e2 else None, source, {}, "one-render-first")
                note(first, True)
                ok = judge(second, e2, inv2, exc, source, {}, "one-render-second") and ok
                note(second, e2)
            trace.append(step + ["allowed" if e1 else "forbidden",
                                 "allowed" if e2 else "forbidden"])
            if count and ok:
                ctx.count("history_allowed_calls" if e1 and e2 else "history_security_errors")
                ctx.count("history_one_render_steps")
        elif op == "other":
            source, templates = compose(tcs[step[1]])
            for other, exp in ((fam_ok, True), (fam_bad, False)):
                for T in "AB":
                    other.reset()
                    fam.reset()
                    _, exc = hist_render(env, cache, source, templates, other.data(T))
                    nrender += 1
                    saved = last_change
                    last_change = "unrelated-family"
                    ok = judge(T, exp, other.t[T].rec.calls, exc, source, templates,
                               "other-" + ("safe" if exp else "marked"))
                    last_change = saved
                    if count and ok:
                        ctx.count("history_allowed_calls" if exp else "history_security_errors")
            trace.append(step)
        else:
            raise AssertionError(step)
    if count:
        ctx.ev(nrender)
        ctx.count("history_cases")
        ctx.count("history_renders", nrender)
        ctx.count("history_kind:" + kind)
        ctx.count("history_verdict_flips_allow_to_block", flips["allow_to_block"])
        ctx.count("history_verdict_flips_block_to_allow", flips["block_to_allow"])
        if is_async:
            ctx.count("history_async_cases")
        if envkind == "override":
            ctx.count("history_override_env_cases")
        ctx.dist(["hist", kind, envkind, is_async, spec["steps"],
                  [tcs[i] for i in used_tc], [forms[i] for i in used_f]])
    return True


# ------------------------------------------------- builtin-method policies
# Third part: an application may override is_safe_callable with an allow-list
# or deny-list over the methods of builtin types ("templates may call
# str.lower but not str.format").  Builtin methods cannot record their own
# invocation, so the observation is the documented outcome: a call the policy
# rejects raises SecurityError.  The receiver is a context value OR a literal
# written in the template (bare, parenthesised, inside constant expressions,
# aliased): "exactly like the same call on a variable".  Whether a site
# evaluates its call expression at all is established with the receiver taken
# from the context under a policy that admits the method (is_safe_callable is
# then consulted for that very method).
BM_TYPES = (str, list, dict, tuple, int, float)
BM_METHODS = [
    # (type, literal text, method, constant arguments)
    ("str", "'abc'", "upper", ""),
    ("str", "'a,b'", "split", "','"),
    ("str", "'{}-{}'", "format", "1, 2"),
    ("str", "'abc'", "replace", "'a', 'b'"),
    ("str", "' x '", "strip", ""),
    ("str", "'-'", "join", "['x', 'y']"),
    ("str", "'abc'", "startswith", "'a'"),
    ("str", "'abc'", "encode", ""),
    ("list", "[3, 1, 2]", "index", "1"),
    ("list", "[3, 1]", "count", "1"),
    ("list", "[1, 2]", "copy", ""),
    ("dict", "{'a': 1}", "get", "'a'"),
    ("dict", "{'a': 1}", "keys", ""),
    ("dict", "{'a': 1}", "items", ""),
    ("tuple", "(1, 2)", "index", "2"),
    ("tuple", "(1, 2, 1)", "count", "1"),
    ("int", "42", "bit_length", ""),
    ("float", "1.5", "is_integer", ""),
    ("float", "2.5", "hex", ""),
]
BM_NAMES = sorted({m[2] for m in BM_METHODS})
BM_TYPENAMES = sorted({m[0] for m in BM_METHODS})
# receiver forms: (wrapper with BODY, receiver expression); R = the literal
# text, v = the context variable holding the equal value
BM_RECV = {
    "literal": ("BODY", "R"),
    "literal_paren": ("BODY", "(R)"),
    "literal_const_filter": ("BODY", "(R|default(0))"),
    "literal_const_condexpr": ("BODY", "(R if true else 0)"),
    "literal_in_list": ("BODY", "[R][0]"),
    "set_alias_of_literal": ("{% set r = R %}BODY", "r"),
    "loop_var_of_literal": ("{% for r in [R] %}BODY{% endfor %}", "r"),
    "macro_param_of_literal": ("{% macro wm(r) %}BODY{% endmacro %}{{ wm(R) }}", "r"),
    "context_var": ("BODY", "v"),
    "context_attr": ("BODY", "h.v"),
    "context_item": ("BODY", "c['v']"),
    "set_alias_of_var": ("{% set r = v %}BODY", "r"),
}
BM_LITERAL_RECV = [k for k in BM_RECV if k.startswith("literal")]
BM_ACCESS = {"dot": "X.M", "subscript": "X['M']", "attr_filter": "(X|attr('M'))"}
BM_ARGFORMS = ["const", "star", "star_kw"]
BM_POLICIES = ["allow_list", "deny_list", "deny_type"]

_bm_envs = {}


def bm_env(is_async, optimized):
    import types

    from jinja2.sandbox import SandboxedEnvironment

    key = (is_async, optimized)
    env = _bm_envs.get(key)
    if env is None:
        class PolicyEnv(SandboxedEnvironment):
            """allow_list: of the methods of builtin-type values only those named in
            vt_names may be called; deny_list: those named in vt_names may not;
            deny_type: no method of a value whose type is named in vt_names."""
            vt_policy = "allow_list"
            vt_names = frozenset()

            def is_safe_callable(self, obj):
                recv = getattr(obj, "__self__", None)
                if isinstance(obj, types.BuiltinMethodType) and isinstance(recv, BM_TYPES):
                    name = obj.__name__
                    self.vt_consulted.append(name)
                    if self.vt_policy == "allow_list" and name not in self.vt_names:
                        return False
                    if self.vt_policy == "deny_list" and name in self.vt_names:
                        return False
                    if self.vt_policy == "deny_type" and type(recv).__name__ in self.vt_names:
                        return False
                return super().is_safe_callable(obj)

            def call(__self, __context, __obj, *args, **kwargs):  # noqa: B902
                # harness-side record of the calls the generated code makes (reach
                # oracle: must not depend on the safety check under test)
                if isinstance(__obj, types.BuiltinMethodType) and \
                        isinstance(getattr(__obj, "__self__", None), BM_TYPES):
                    __self.vt_called.append(__obj.__name__)
                return super().call(__context, __obj, *args, **kwargs)

        env = PolicyEnv(enable_async=is_async, extensions=["jinja2.ext.do"], cache_size=0,
                        optimized=optimized)
        env.vt_consulted = []
        env.vt_called = []
        env.globals["ident"] = lambda x: x
        _bm_envs[key] = env
    return env


def bm_names(policy, typ, method, admit):
    """The policy's name set that admits / rejects exactly this method."""
    if policy == "allow_list":
        return frozenset(BM_NAMES) if admit else frozenset(n for n in BM_NAMES if n != method)
    if policy == "deny_list":
        return frozenset() if admit else frozenset([method])
    return frozenset() if admit else frozenset([typ])


def bm_compose(case, var_twin=False):
    """var_twin: the same template with the context variable v written wherever
    the literal stands (the structural twin whose receiver is not a literal)."""
    typ, lit, method, cargs = BM_METHODS[case["method"]]
    if var_twin:
        lit = "v"
    wrap, rexpr = BM_RECV[case["recv"]]
    callee = BM_ACCESS[case["access"]].replace("X", rexpr).replace("M", method)
    args = cargs
    if case["argform"] != "const" and cargs:
        args = f"*[{cargs}]" + (", **{}" if case["argform"] == "star_kw" else "")
    elif case["argform"] == "star_kw":
        args = "**{}"

    def fill(text):
        return (text.replace("@@", f"{callee}({args})").replace("^^", callee)
                .replace("ARGS", args))
    source = wrap.replace("BODY", fill(SITES[case["site"]])).replace("R", lit)
    templates = {k: fill(v).replace("R", lit)
                 for k, v in SITE_TEMPLATES.get(case["site"], {}).items()}
    return source, templates


def bm_render(case, source, templates, policy, names):
    import ast

    from jinja2 import DictLoader
    from jinja2.exceptions import SecurityError

    typ, lit, method, _ = BM_METHODS[case["method"]]
    env = bm_env(case["async"], case.get("optimized", True))
    env.loader = DictLoader(dict(templates))
    env.vt_policy, env.vt_names = policy, names
    env.vt_consulted = consulted = []
    env.vt_called = []
    value = ast.literal_eval(lit)

    class H:
        pass
    h = H()
    h.v = value
    try:
        out = env.from_string(source).render(v=value, h=h, c={"v": value})
        exc = None
    except SecurityError as e:
        out, exc = None, ("SecurityError", str(e)[:200])
    except Exception as e:
        out, exc = None, (type(e).__name__, str(e)[:200])
    return out, exc, consulted


_bm_reach = {}


def bm_reached(case):
    """Does this template evaluate its call expression?  Decided on its twin
    with the receiver taken from the context (the variable v written in place
    of the literal) and the method admitted: no exception and the method was
    handed to environment.call (recorded by the subclass's call override) or the
    override was consulted for it."""
    key = json.dumps([case[k] for k in ("site", "method", "recv", "access", "argform", "async")]
                     + [case.get("optimized", True)])
    r = _bm_reach.get(key)
    if r is None:
        typ, lit, method, _ = BM_METHODS[case["method"]]
        source, templates = bm_compose(case, var_twin=True)
        out, exc, consulted = bm_render(case, source, templates, "allow_list",
                                        bm_names("allow_list", typ, method, True))
        # (reached = the generated code hands the method to environment.call; the
        # consult of the override is what the property demands, not a precondition)
        r = _bm_reach[key] = exc is None and (method in consulted or
                                              method in bm_env(case["async"],
                                                               case.get("optimized", True)).vt_called)
    return r


def run_bm_case(ctx, case, count=True):
    typ, lit, method, _ = BM_METHODS[case["method"]]
    if not bm_reached(case):
        if count:
            ctx.count("bm_unreached")
        return False
    source, templates = bm_compose(case)
    policy = case["policy"]
    out, exc, consulted = bm_render(case, source, templates, policy,
                                    bm_names(policy, typ, method, True))
    mout, mexc, mconsulted = bm_render(case, source, templates, policy,
                                       bm_names(policy, typ, method, False))
    literal = case["recv"] in BM_LITERAL_RECV
    if count:
        ctx.ev(2)
        ctx.count("bm_cases")
        ctx.count("bm_policy:" + policy)
        ctx.count("bm_recv:" + case["recv"])
        if literal:
            ctx.count("bm_literal_receiver_cases")
        if not case.get("optimized", True):
            ctx.count("bm_unoptimized_cases")
        if case["async"]:
            ctx.count("bm_async_cases")
        if exc is None:
            ctx.count("bm_admitted_renders_ok")
        if method in mconsulted:
            ctx.count("bm_rejecting_consults")
        ctx.dist(["bm"] + [case[k] for k in ("site", "method", "recv", "access", "argform",
                                              "policy", "async")] + [case.get("optimized", True)])
    full = dict(case, bm=True, source=source, templates=templates)
    if mexc is None or mexc[0] != "SecurityError":
        ctx.violation(f"builtin-method-policy-bypassed:recv={case['recv']}:type={typ}:"
                      f"access={case['access']}:policy={policy}",
                      f"is_safe_callable override ({policy}) rejects {typ}.{method} but {source!r} "
                      f"{templates or ''} (async={case['async']}, optimized={case.get('optimized', True)}) "
                      f"gave {mexc or mout!r} instead of SecurityError; the override was consulted for "
                      f"{mconsulted}; the same template with a context variable in place of the "
                      f"literal consults the override for {method}",
                      full)
    elif count:
        ctx.count("bm_security_errors")
    return True


def bm_core_cases():
    out = []
    i = 0
    recvs, accs = list(BM_RECV), list(BM_ACCESS)
    for mi in range(len(BM_METHODS)):
        for recv in recvs:
            for policy in BM_POLICIES:
                i += 1
                out.append({"site": "print", "method": mi, "recv": recv, "access": accs[i % 3],
                            "argform": BM_ARGFORMS[(i // 3) % 3], "policy": policy,
                            "async": i % 5 == 0, "optimized": i % 4 != 3})
    for site in SITES:
        for mi in range(len(BM_METHODS)):
            i += 1
            out.append({"site": site, "method": mi, "recv": recvs[i % len(recvs)],
                        "access": accs[(i // 2) % 3] if i % 2 else "dot",
                        "argform": BM_ARGFORMS[(i // 3) % 3] if i % 3 == 0 else "const",
                        "policy": BM_POLICIES[i % 3], "async": i % 5 == 0, "optimized": i % 4 != 3})
    return out


def bm_random_case(rng):
    return {"site": rng.choice(list(SITES)), "method": rng.randrange(len(BM_METHODS)),
            "recv": rng.choice(BM_LITERAL_RECV if rng.random() < 0.5 else list(BM_RECV)),
            "access": rng.choice(list(BM_ACCESS)), "argform": rng.choice(BM_ARGFORMS),
            "policy": rng.choice(BM_POLICIES), "async": rng.random() < 0.2,
            "optimized": rng.random() < 0.75}


# ------------------------------------------- names the engine resolves itself
# Fourth part: the callable is bound to a NAME that an engine-provided helper
# (or a tag compiled by an extension) looks up in the context and calls on the
# template's behalf, or to the name of a builtin global / special variable the
# template then calls.  Environments carry the i18n, do, loopcontrols and debug
# extensions; the gettext functions are not installed, installed old-style or
# installed new-style.  @N@ = the name, ## = obtain expression, BODY = the use.
HELPER_EXTENSIONS = ("jinja2.ext.do", "jinja2.ext.i18n", "jinja2.ext.loopcontrols",
                     "jinja2.ext.debug")
I18N_MODES = ["none", "null-old", "null-new"]
GETTEXT_NAMES = ["gettext", "ngettext", "pgettext", "npgettext"]
HELPER_NAMES = GETTEXT_NAMES + ["_", "caller", "loop", "super", "self", "varargs", "kwargs",
                                "joiner", "cycler", "namespace", "lipsum", "range", "dict"]
# shadow: how the name comes to hold the callable -> (source text, extra templates)
# 'data' / 'global' put the value into the render data / env.globals instead.
HELPER_SHADOW = {
    "data": ("BODY", {}),
    "global": ("BODY", {}),
    "set": ("{% set @N@ = ## %}BODY", {}),
    "set_in_if": ("{% if true %}{% set @N@ = ## %}{% endif %}BODY", {}),
    "set_twice": ("{% set @N@ = none %}{% set @N@ = ## %}BODY", {}),
    "set_tuple": ("{% set hz, @N@ = 1, ## %}BODY", {}),
    "with": ("{% with @N@ = ## %}BODY{% endwith %}", {}),
    "loop_var": ("{% for @N@ in [##] %}BODY{% endfor %}", {}),
    "macro_param": ("{% macro wm(@N@) %}BODY{% endmacro %}{{ wm(##) }}", {}),
    "macro_default": ("{% macro wm(@N@=##) %}BODY{% endmacro %}{{ wm() }}", {}),
    "macro_kwarg": ("{% macro wm() %}BODY{% endmacro %}{{ wm(@N@=##) }}", {}),
    "call_param": ("{% macro wm() %}{{ caller(##) }}{% endmacro %}{% call(@N@) wm() %}BODY{% endcall %}", {}),
    "macro_body_set": ("{% macro wm() %}{% set @N@ = ## %}BODY{% endmacro %}{{ wm() }}", {}),
    "block_set": ("{% block hb %}{% set @N@ = ## %}BODY{% endblock %}", {}),
    "from_import_as": ("{% from 'hlib' import hg as @N@ with context %}BODY",
                       {"hlib": "{% set hg = ## %}"}),
    "include_parent_set": ("{% set @N@ = ## %}{% include 'hinc' %}", {"hinc": "BODY"}),
    "import_ctx_macro": ("{% set @N@ = ## %}{% import 'hlib2' as hl with context %}{{ hl.hm() }}",
                         {"hlib2": "{% macro hm() %}BODY{% endmacro %}"}),
    "extends_child_set": ("{% extends 'hbase' %}{% set @N@ = ## %}{% block hb %}BODY{% endblock %}",
                          {"hbase": "<{% block hb %}{% endblock %}>"}),
    "extends_parent_set": ("{% extends 'hbase2' %}{% block hb %}BODY{% endblock %}",
                           {"hbase2": "{% set @N@ = ## %}<{% block hb %}{% endblock %}>"}),
}
# use: how the call happens.  'family' uses go through the `_` alias or the
# trans tag (the engine resolves a gettext-family name); 'generic' uses call
# the name itself.
HELPER_USE = {
    "alias": "{{ _('x') }}",
    "alias_kwargs": "{{ _('x %(a)s', a=1) }}",
    "alias_filter": "{{ _('x')|upper }}",
    "alias_in_if": "{% if _('x') %}y{% endif %}",
    "alias_in_set": "{% set hv = _('x') %}{{ hv }}",
    "alias_in_set_block": "{% set hv %}{{ _('x') }}{% endset %}{{ hv }}",
    "alias_filter_arg": "{{ none|default(_('x'), true) }}",
    "alias_test_arg": "{{ 1 is eq(_('x')) }}",
    "alias_in_macro": "{% macro hm2() %}{{ _('x') }}{% endmacro %}{{ hm2() }}",
    "alias_in_loop": "{% for hi in [1, 2] %}{{ _('x') }}{% endfor %}",
    "alias_in_call_block": "{% macro hm3() %}{{ caller() }}{% endmacro %}{% call hm3() %}{{ _('x') }}{% endcall %}",
    "alias_in_filter_block": "{% filter upper %}{{ _('x') }}{% endfilter %}",
    "alias_in_autoescape": "{% autoescape true %}{{ _('<x>') }}{% endautoescape %}",
    "alias_renamed": "{% set tr = _ %}{{ tr('x') }}",
    "alias_macro_arg": "{% macro hm4(t) %}{{ t('x') }}{% endmacro %}{{ hm4(_) }}",
    "alias_do": "{% do _('x') %}",
    "trans": "{% trans %}x{% endtrans %}",
    "trans_var": "{% trans a=1 %}x {{ a }}{% endtrans %}",
    "trans_trimmed": "{% trans trimmed %}  x\n  y {% endtrans %}",
    "trans_in_macro": "{% macro hm5() %}{% trans %}x{% endtrans %}{% endmacro %}{{ hm5() }}",
    "trans_in_loop": "{% for hi in [1, 2] %}{% trans %}x{% endtrans %}{% endfor %}",
    "trans_autoescape": "{% autoescape true %}{% trans a='<' %}x {{ a }}{% endtrans %}{% endautoescape %}",
    "trans_plural": "{% trans n=2 %}one{% pluralize %}many {{ n }}{% endtrans %}",
    "trans_plural_count": "{% trans a=1, hc=3 %}one {{ a }}{% pluralize hc %}{{ hc }} many{% endtrans %}",
    "trans_ctx": "{% trans 'c' %}x{% endtrans %}",
    "trans_ctx_var": "{% trans 'c' a=1 %}x {{ a }}{% endtrans %}",
    "trans_ctx_plural": "{% trans 'c' n=2 %}one{% pluralize %}many {{ n }}{% endtrans %}",
    "call": "{{ @N@(ARGS) }}",
    "call_in_for": "{% for hi in @N@(ARGS) %}{{ hi }}{% endfor %}",
    "call_in_loop_body": "{% for hx in [1] %}{{ @N@(ARGS) }}{% endfor %}",
    "call_block": "{% call @N@(ARGS) %}{% endcall %}",
    "call_filter_arg": "{{ 1|default(@N@(ARGS)) }}",
    "call_do": "{% do @N@(ARGS) %}",
    "call_in_call_block": "{% macro hm3() %}{{ caller() }}{% endmacro %}{% call hm3() %}{{ @N@(ARGS) }}{% endcall %}",
    "call_in_block": "{% block hb2 %}{{ @N@(ARGS) }}{% endblock %}",
    "attr_call": "{{ @N@.m(ARGS) }}",
    "item_call": "{{ @N@[0](ARGS) }}",
}
FAMILY_USES = [u for u in HELPER_USE if u.startswith(("alias", "trans"))]
GENERIC_USES = [u for u in HELPER_USE if u not in FAMILY_USES]
#: obtain expressions that make sense for the value bound to the name
HELPER_OBTAIN = {"attr_call": ["holder"], "item_call": ["list"]}
HELPER_OBTAIN_TEXT = {"holder": "o", "list": "l"}

_henvs = {}


def helper_env(kind, is_async, i18n):
    key = (kind, is_async, i18n)
    env = _henvs.get(key)
    if env is None:
        env = _henvs[key] = new_env(kind, is_async, HELPER_EXTENSIONS, i18n)
    return env


def helper_compose(case):
    name, use = case["name"], case["use"]
    ob = case["obtain"]
    obtain = HELPER_OBTAIN_TEXT.get(ob) or OBTAIN[ob]
    wrap, extra = HELPER_SHADOW[case["shadow"]]

    def fill(text):
        return (text.replace("BODY", HELPER_USE[use]).replace("@N@", name)
                .replace("##", obtain).replace("ARGS", case["args"]))
    return fill(wrap), {k: fill(v) for k, v in extra.items()}


def helper_render(case, marked):
    from jinja2 import DictLoader
    from jinja2.exceptions import SecurityError

    rec = Rec()
    f, o = make_callable(case["kind"], case["mark"] if marked else None, rec)
    source, templates = helper_compose(case)
    env = helper_env(case["env"], case["async"], case["i18n"])
    env.loader = DictLoader(dict(templates))
    data = {"f": f, "o": o, "d": {"f": f, "k": {"g": f}}, "l": [f], "t": (f,),
            "nested": [{"f": [f]}]}
    value = {"holder": o, "list": [f]}.get(case["obtain"], f)
    missing = object()
    saved = missing
    if case["shadow"] == "data":
        data[case["name"]] = value
    elif case["shadow"] == "global":
        saved = env.globals.get(case["name"], missing)
        env.globals[case["name"]] = value
    try:
        # positional dict: names such as 'self' cannot be keyword arguments
        out = env.from_string(source).render(data)
        exc = None
    except SecurityError as e:
        out, exc = None, ("SecurityError", str(e))
    except Exception as e:
        out, exc = None, (type(e).__name__, str(e)[:200])
    finally:
        if case["shadow"] == "global":
            if saved is missing:
                env.globals.pop(case["name"], None)
            else:
                env.globals[case["name"]] = saved
    return rec.calls, out, exc, source, templates


def helper_valid(case):
    if case["kind"] == "async_func" and not case["async"]:
        return False
    if case["mark"] == "override" and case["env"] != "override":
        return False
    if case["shadow"] in ("data", "global") and case["obtain"] not in ("name", "holder", "list"):
        return False
    want = HELPER_OBTAIN.get(case["use"])
    if want is not None:
        return case["obtain"] in want
    return case["obtain"] not in HELPER_OBTAIN_TEXT


def run_helper_case(ctx, case, count=True):
    """-> True if reached: the control twin bound to the name is invoked."""
    calls, out, exc, source, templates = helper_render(case, marked=False)
    if count:
        ctx.ev()
        ctx.count("helper_twin_renders")
    if exc is not None and exc[0] == "SecurityError":
        if count:
            ctx.count("helper_twin_security_error")
        return False
    if calls == 0:
        if count:
            ctx.count("helper_unreached")
        return False
    mcalls, mout, mexc, _, _ = helper_render(case, marked=True)
    family = case["use"] in FAMILY_USES and case["name"] in GETTEXT_NAMES
    if count:
        ctx.ev()
        ctx.count("helper_cases")
        ctx.count("helper_twin_invocations", calls)
        ctx.count("helper_use:" + case["use"])
        ctx.count("helper_shadow:" + case["shadow"])
        ctx.count("helper_name:" + case["name"])
        ctx.count("helper_i18n:" + case["i18n"])
        if family:
            ctx.count("helper_engine_resolved_cases")
            ctx.count("helper_alias_cases" if case["use"].startswith("alias") else "helper_trans_cases")
        else:
            ctx.count("helper_shadowed_name_cases")
        if case["async"]:
            ctx.count("helper_async_cases")
        ctx.dist(["helper"] + [case[k] for k in ("name", "use", "shadow", "obtain", "args", "kind",
                                                  "mark", "env", "async", "i18n")])
    full = dict(case, helper=True, source=source, templates=templates)
    # mechanism = which name was resolved, by whom (the `_` alias, the trans tag,
    # or a call of the name written at this kind of site) and which mark was
    # ignored; how the name got its value and the callable kind are in the text
    use = case["use"]
    through = ("underscore-alias" if use.startswith("alias") else
               "trans-tag" if use.startswith("trans") else "written-" + use)
    mech = f"name={case['name']}:through={through}:mark={case['mark']}"
    where = (f"{source!r} {templates or ''} (env {case['env']} with extensions i18n/do/loopcontrols/debug, "
             f"gettext callables: {case['i18n']}, async={case['async']})")
    if mcalls:
        ctx.violation("invoked-via-resolved-name:" + mech,
                      f"marked callable ({case['kind']}/{case['mark']}) bound to the name "
                      f"{case['name']!r} ({case['shadow']}) was invoked {mcalls}x by {where}; "
                      f"render outcome: {mexc or mout!r}", full)
    elif mexc is None or mexc[0] != "SecurityError":
        ctx.violation("no-security-error-via-resolved-name:" + mech,
                      f"control twin bound to {case['name']!r} is invoked {calls}x but with the mark "
                      f"{where} gave {mexc or mout!r} instead of SecurityError", full)
    elif count:
        ctx.count("helper_security_errors")
    return True


def helper_rows():
    """Deterministic (use, name, shadow) table: engine-resolved uses x the
    gettext-family names and `_`; generic uses x every name."""
    rows = []
    for use in FAMILY_USES:
        for name in GETTEXT_NAMES + ["_"]:
            for shadow in HELPER_SHADOW:
                rows.append((use, name, shadow))
    for use in GENERIC_USES:
        for name in HELPER_NAMES:
            for shadow in HELPER_SHADOW:
                rows.append((use, name, shadow))
    return rows


def helper_case_for(i, use, name, shadow, mark, salt=0):
    j = i + salt
    kind = KINDS[j % len(KINDS)]
    ob = HELPER_OBTAIN.get(use, [None])[0]
    if ob is None:
        ob = "name" if shadow in ("data", "global") else list(OBTAIN)[(j // 3) % len(OBTAIN)]
    return {"name": name, "use": use, "shadow": shadow, "obtain": ob,
            "args": ARGS[j % len(ARGS)], "kind": kind, "mark": mark,
            "env": "override" if mark == "override" else ENVS[j % 3],
            "async": kind == "async_func" or j % 4 == 0, "i18n": I18N_MODES[(j // 2) % 3]}


def helper_random_case(rng):
    while True:
        mark = rng.choice(MARKS)
        use = rng.choice(list(HELPER_USE))
        family = use in FAMILY_USES
        c = {"name": rng.choice(GETTEXT_NAMES if family and rng.random() < 0.9 else HELPER_NAMES),
             "use": use, "shadow": rng.choice(list(HELPER_SHADOW)),
             "obtain": rng.choice(HELPER_OBTAIN.get(use) or list(OBTAIN)),
             "args": rng.choice(ARGS), "kind": rng.choice(KINDS), "mark": mark,
             "env": "override" if mark == "override" else rng.choice(ENVS),
             "async": rng.random() < 0.3, "i18n": rng.choice(I18N_MODES)}
        if helper_valid(c):
            return c


# ------------------------------------------------ combinations of the two flags
# Fifth part: the documentation names two markers - jinja2.sandbox.unsafe (sets
# unsafe_callable = True) and the Django convention alters_data = True - and
# "safe unless" either is given.  Applications spell the flags out (a base class
# or a decorator that sets both, a subclass or call site that flips one), so a
# callable may carry both attributes in any combination of true / false /
# absent.  Expected verdict: refused iff unsafe_callable is True or alters_data
# is True, whatever the other attribute says and wherever the attributes sit.
FLAG_VALUES = ["absent", "false", "true"]
# placement: where the attributes sit relative to the object the template calls
FLAG_PLACEMENTS = [
    "function",                    # attributes on a plain function
    "decorator_both",              # a decorator that always sets both attributes
    "unsafe_decorator",            # jinja2.sandbox.unsafe for the true case, alters_data set besides it
    "method_function",             # on the function of a method; the template calls the bound method
    "classmethod_function",
    "staticmethod_function",
    "callable_instance",           # on an instance with __call__
    "callable_class",              # class attributes of a class whose instances are called
    "inherited_base_defaults",     # base class spells out both as False, subclass overrides the given ones
    "inherited_split",             # unsafe_callable on the base class, alters_data on the subclass
    "instance_over_true_class",    # class says True for both, the instance overrides the given ones
    "partial",                     # attributes on a functools.partial object
    "klass",                       # class attributes of a class the template instantiates
    "pass_context_function",
]


def flag_effective(placement, u, a):
    """The value each attribute has on the object the template calls (by
    construction of make_flagged), or None if the combination cannot be built."""
    if placement == "unsafe_decorator" and u != "true":
        return None
    if placement in ("decorator_both", "inherited_base_defaults"):
        return ("false" if u == "absent" else u, "false" if a == "absent" else a)
    if placement == "instance_over_true_class":
        return ("true" if u == "absent" else u, "true" if a == "absent" else a)
    return (u, a)


def make_flagged(placement, u, a, rec, twin=False):
    """-> (f, o) with o.m the callable too.  twin: the same construction with
    no flag attribute anywhere."""
    from jinja2 import pass_context
    from jinja2.sandbox import unsafe

    def put(obj, which=("u", "a"), absent_as=None):
        if twin:
            return obj
        for w, val, attr in (("u", u, "unsafe_callable"), ("a", a, "alters_data")):
            if w not in which:
                continue
            v = absent_as if val == "absent" else val
            if v is not None:
                setattr(obj, attr, v == "true")
        return obj

    def body(*args, **kwargs):
        rec.calls += 1
        return Ret(1)

    def fresh():
        def fn(*args, **kwargs):
            return body()
        return fn

    if placement == "function":
        f = put(fresh())
    elif placement == "decorator_both":
        def flags(unsafe_callable=False, alters_data=False):
            def deco(fn):
                fn.unsafe_callable = unsafe_callable
                fn.alters_data = alters_data
                return fn
            return deco
        f = fresh() if twin else flags(unsafe_callable=u == "true", alters_data=a == "true")(fresh())
    elif placement == "unsafe_decorator":
        f = fresh() if twin else put(unsafe(fresh()), which=("a",))
    elif placement in ("method_function", "classmethod_function", "staticmethod_function"):
        def m(self_or_cls=None, *args, **kwargs):
            return body()
        if placement == "staticmethod_function":
            fn = put(fresh())
            wrapped = staticmethod(fn)
        elif placement == "classmethod_function":
            wrapped = classmethod(put(m))
        else:
            wrapped = put(m)
        O = type("O", (), {"meth": wrapped})
        f = O().meth
    elif placement == "callable_instance":
        CO = type("CO", (), {"__call__": lambda self, *args, **kwargs: body()})
        f = put(CO())
    elif placement == "callable_class":
        CO = type("CO", (), {"__call__": lambda self, *args, **kwargs: body()})
        f = put(CO)()
    elif placement == "inherited_base_defaults":
        ns = {"__call__": lambda self, *args, **kwargs: body()}
        if not twin:
            ns.update(unsafe_callable=False, alters_data=False)
        Base = type("Command", (), ns)
        f = put(type("SubCommand", (Base,), {}))()
    elif placement == "inherited_split":
        Base = put(type("Base", (), {"__call__": lambda self, *args, **kwargs: body()}), which=("u",))
        f = put(type("Sub", (Base,), {}), which=("a",))()
    elif placement == "instance_over_true_class":
        ns = {"__call__": lambda self, *args, **kwargs: body()}
        if not twin:
            ns.update(unsafe_callable=True, alters_data=True)
        f = put(type("Loud", (), ns)())
    elif placement == "partial":
        f = put(functools.partial(body, 0))
    elif placement == "klass":
        class K(int):
            def __new__(cls, *args, **kwargs):
                body()
                return int.__new__(cls, 1)

            def __call__(self, *args, **kwargs):
                return 1

            def __getitem__(self, i):
                return 1

            def __iter__(self):
                return iter([1])
        f = put(K)
    elif placement == "pass_context_function":
        @pass_context
        def f(c, *args, **kwargs):
            return body()
        f = put(f)
    else:
        raise AssertionError(placement)

    class Holder:
        pass

    o = Holder()
    o.m = f
    return f, o


def flag_render(case, twin):
    from jinja2.exceptions import SecurityError

    rec = Rec()
    f, o = make_flagged(case["placement"], case["u"], case["a"], rec, twin=twin)
    source, templates = compose(case)
    env = get_env(case["env"], case["async"], templates, case.get("ext", "do"))
    data = {"f": f, "o": o, "d": {"f": f, "k": {"g": f}}, "l": [f], "t": (f,),
            "nested": [{"f": [f]}]}
    try:
        out = env.from_string(source).render(**data)
        exc = None
    except SecurityError as e:
        out, exc = None, ("SecurityError", str(e)[:200])
    except Exception as e:
        out, exc = None, (type(e).__name__, str(e)[:200])
    return rec.calls, out, exc, source, templates, f


def flag_valid(case):
    if case["wrap"] == "aloop" and not case["async"]:
        return False
    return flag_effective(case["placement"], case["u"], case["a"]) is not None


def run_flag_case(ctx, case, count=True):
    """-> True if reached (the flag-free twin of the same construction runs)."""
    calls, out, exc, source, templates, _ = flag_render(case, twin=True)
    if count:
        ctx.ev()
        ctx.count("flag_twin_renders")
    if calls == 0 or (exc is not None and exc[0] == "SecurityError"):
        if count:
            ctx.count("flag_unreached")
        return False
    ue, ae = flag_effective(case["placement"], case["u"], case["a"])
    refused = ue == "true" or ae == "true"
    mcalls, mout, mexc, _, _, f = flag_render(case, twin=False)
    # the construction must expose what flag_effective says (harness self-check)
    seen = tuple("absent" if not hasattr(f, n) else str(getattr(f, n)).lower()
                 for n in ("unsafe_callable", "alters_data"))
    if seen != (ue, ae):
        ctx.inconc(f"harness: {case['placement']} built with {case['u']}/{case['a']} exposes {seen}, "
                   f"expected {(ue, ae)}")
        return False
    sec = mexc is not None and mexc[0] == "SecurityError"
    if count:
        ctx.ev()
        ctx.count("flag_cases")
        ctx.count("flag_placement:" + case["placement"])
        ctx.count(f"flag_combo:{ue}/{ae}")
        ctx.count("flag_refused_expected" if refused else "flag_allowed_expected")
        if ue != "absent" and ae != "absent":
            ctx.count("flag_both_attributes_present_cases")
        if refused and "false" in (ue, ae):
            ctx.count("flag_one_false_other_true_cases")
        if case["async"]:
            ctx.count("flag_async_cases")
        ctx.dist(["flag"] + [case[k] for k in ("placement", "u", "a", "obtain", "wrap", "site", "args",
                                               "env", "async")] + [case.get("ext", "do")])
    full = dict(case, flags=True, source=source, templates=templates)
    mech = f"unsafe_callable={ue}:alters_data={ae}:on={case['placement']}"
    info = (f"{source!r} {templates or ''} (env {case['env']}, extensions {case.get('ext', 'do')}, "
            f"async={case['async']}); the object the template calls has unsafe_callable {ue}, "
            f"alters_data {ae} ({case['placement']}, written {case['u']}/{case['a']})")
    if refused:
        if mcalls:
            ctx.violation("flag-combination-invoked:" + mech,
                          f"a callable that carries a true marker was invoked {mcalls}x by {info}; "
                          f"outcome {mexc or mout!r}", full)
        elif not sec:
            ctx.violation("flag-combination-no-security-error:" + mech,
                          f"flag-free twin is invoked {calls}x, the marked callable was not, but {info} "
                          f"gave {mexc or mout!r} instead of SecurityError", full)
        elif count:
            ctx.count("flag_security_errors")
    else:
        if sec or not mcalls:
            ctx.violation("flag-combination-wrongly-blocked:" + mech,
                          f"neither marker is true, the flag-free twin is invoked {calls}x, but {info} "
                          f"gave invocations={mcalls}, outcome {mexc or mout!r}", full)
        elif count:
            ctx.count("flag_allowed_calls")
    return True


def flag_rows():
    return [(p, u, a) for p in FLAG_PLACEMENTS for u in FLAG_VALUES for a in FLAG_VALUES
            if flag_effective(p, u, a) is not None and (u, a) != ("absent", "absent")]


def flag_case_for(j, placement, u, a, site):
    obs, wrs = list(OBTAIN), [w for w in WRAP if w != "aloop"]
    return {"placement": placement, "u": u, "a": a, "obtain": obs[j % len(obs)],
            "wrap": wrs[(j // 2) % len(wrs)] if j % 3 == 0 else "none", "site": site,
            "args": ARGS[j % len(ARGS)], "env": ENVS[j % 3], "async": j % 4 == 0,
            "ext": EXTS[(j // 3) % 4]}


def flag_random_case(rng):
    while True:
        c = {"placement": rng.choice(FLAG_PLACEMENTS), "u": rng.choice(FLAG_VALUES),
             "a": rng.choice(FLAG_VALUES), "obtain": rng.choice(list(OBTAIN)),
             "wrap": rng.choice(list(WRAP)), "site": rng.choice(list(SITES)),
             "args": rng.choice(ARGS), "env": rng.choice(ENVS), "async": rng.random() < 0.3,
             "ext": rng.choice(EXTS)}
        if flag_valid(c) and (c["u"], c["a"]) != ("absent", "absent"):
            return c


# ------------------------------------------------- C-implemented callables
# Sixth part: the callable the overridden policy rejects is implemented in C
# (tables, policies and harness-side observations in vt/gen/c18_ccall.py).  Same
# obtain x wrapper x site grammar; twin render = policy not armed (the callable
# must run: observed through its side effect / the recording argument), marked
# render = policy armed: zero invocations and SecurityError.
_cc_envs = {}


def cc_env(base, is_async, templates):
    from jinja2 import DictLoader
    from jinja2.sandbox import ImmutableSandboxedEnvironment, SandboxedEnvironment

    key = (base, is_async)
    env = _cc_envs.get(key)
    if env is None:
        cls = CC.make_env_class(ImmutableSandboxedEnvironment if base == "immutable"
                                else SandboxedEnvironment)
        env = cls(enable_async=is_async, extensions=["jinja2.ext.do"], cache_size=0)
        env.globals["ident"] = lambda x: x

        async def agen(x):
            yield x
        env.globals["agen"] = agen
        _cc_envs[key] = env
    env.loader = DictLoader(dict(templates))
    return env


def cc_compose(case, args):
    a = args if case["argform"] == "plain" or not args else f"*[{args}]"
    return compose(dict(case, args=a))


def cc_render(case, armed):
    from jinja2.exceptions import SecurityError

    f, args, extra, probe = CC.build(case["kind"])
    source, templates = cc_compose(case, args)
    env = cc_env(case["env"], case["async"], templates)

    class Holder:
        pass
    o = Holder()
    o.m = f
    data = {"f": f, "o": o, "d": {"f": f, "k": {"g": f}}, "l": [f], "t": (f,),
            "nested": [{"f": [f]}]}
    data.update(extra)
    if armed:
        CC.arm(env, case["policy"], f)
        admits_target = env.is_safe_callable(f)
        env.vt_rejected = []
    else:
        CC.disarm(env)
        admits_target = True
    try:
        out = env.from_string(source).render(**data)
        exc = None
    except SecurityError as e:
        out, exc = None, ("SecurityError", str(e)[:200])
    except Exception as e:
        out, exc = None, (type(e).__name__, str(e)[:200])
    finally:
        rejected = list(env.vt_rejected)
        CC.disarm(env)
    target_rejected = any(CC.same_callable(r, f) for r in rejected)
    return probe(), out, exc, source, templates, admits_target, target_rejected


def run_ccall_case(ctx, case, count=True):
    calls, out, exc, source, templates, _, _ = cc_render(case, armed=False)
    if count:
        ctx.ev()
        ctx.count("ccall_twin_renders")
    if exc is not None and exc[0] == "SecurityError":
        if count:
            ctx.count("ccall_twin_security_error")
        return False
    if calls <= 0:
        if count:
            ctx.count("ccall_unreached")
        return False
    mcalls, mout, mexc, _, _, admits, target_rejected = cc_render(case, armed=True)
    if admits:
        # (the policy of this case does not reject the target at all: nothing to check)
        if count:
            ctx.count("ccall_policy_admits_target")
        return False
    group = CC.group_of(case["kind"])
    if count:
        ctx.ev()
        ctx.count("ccall_cases")
        ctx.count("ccall_group:" + group)
        ctx.count("ccall_policy:" + case["policy"])
        ctx.count("ccall_site:" + case["site"])
        if case["async"]:
            ctx.count("ccall_async_cases")
        if target_rejected:
            ctx.count("ccall_target_rejected_by_override")
        ctx.dist(["cc"] + [case[k] for k in ("obtain", "wrap", "site", "argform", "kind", "policy",
                                              "env", "async")])
    full = dict(case, cc=True, source=source, templates=templates)
    mech = f"site={case['site']}:wrap={case['wrap']}:kind=c-level/{group}:mark=override-{case['policy']}"
    where = (f"{case['kind']} under an is_safe_callable override ({case['policy']}, env {case['env']}, "
             f"async={case['async']}) that rejects it")
    if mcalls > 0:
        ctx.violation("invoked:" + mech,
                      f"{where} was invoked by {source!r} {templates or ''} (observed effect count "
                      f"{mcalls}); render outcome: {mexc or mout!r}", full)
    elif mexc is None or mexc[0] != "SecurityError":
        ctx.violation("no-security-error:" + mech,
                      f"{where}: without the policy the call runs, with it the render of {source!r} "
                      f"{templates or ''} gave {mexc or mout!r} instead of SecurityError", full)
    elif count:
        ctx.count("ccall_security_errors")
    return True


def ccall_core_cases():
    """every (site, kind) once with rotating policy / obtain / wrapper, every
    (obtain, wrapper, policy) at the print site with rotating kind"""
    out = []
    i = 0
    obt, wraps = list(OBTAIN), [w for w in WRAP if w != "aloop"]
    for site in SITES:
        for kind in CC.KINDS:
            i += 1
            out.append({"obtain": obt[i % len(obt)] if i % 3 == 0 else "name",
                        "wrap": wraps[(i // 3) % len(wraps)] if i % 3 == 1 else "none",
                        "site": site, "kind": kind, "policy": CC.POLICIES[i % 3],
                        "argform": "star" if i % 5 == 0 else "plain",
                        "env": "immutable" if i % 7 == 0 else "sandbox", "async": i % 4 == 0})
    for ob in OBTAIN:
        for wr in WRAP:
            for policy in CC.POLICIES:
                i += 1
                out.append({"obtain": ob, "wrap": wr, "site": "print",
                            "kind": CC.KINDS[i % len(CC.KINDS)], "policy": policy,
                            "argform": "star" if i % 5 == 0 else "plain",
                            "env": "immutable" if i % 7 == 0 else "sandbox",
                            "async": wr == "aloop" or i % 4 == 0})
    return out


def ccall_random_case(rng):
    while True:
        c = {"obtain": rng.choice(list(OBTAIN)), "wrap": rng.choice(list(WRAP)),
             "site": rng.choice(list(SITES)), "kind": rng.choice(CC.KINDS),
             "policy": rng.choice(CC.POLICIES), "argform": rng.choice(["plain", "plain", "star"]),
             "env": rng.choice(["sandbox", "sandbox", "immutable"]), "async": rng.random() < 0.3}
        if c["wrap"] != "aloop" or c["async"]:
            return c


def ccall_control(ctx):
    """Self-test of the observations: in an environment whose policy is not armed
    every C-level kind, called at the print site, is observed to run."""
    bad = []
    for kind in CC.KINDS:
        case = {"obtain": "name", "wrap": "none", "site": "print", "kind": kind,
                "policy": "deny_name", "argform": "plain", "env": "sandbox", "async": False}
        calls, out, exc, source, _, _, _ = cc_render(case, armed=False)
        if calls <= 0:
            bad.append(f"{kind}: {source!r} -> {exc or out!r}, observed {calls}")
    if bad:
        ctx.inconc("C-level callable self-test failed: " + "; ".join(bad[:4]))
    else:
        ctx.count("ccall_controls_ok")


# ------------------------------------------------------ decorated callables
# Seventh part: the callable the template calls is the product of a decorator
# chain (vt/gen/c18_wrapped.py builds the objects).  Documented rule
# (SandboxedEnvironment.is_safe_callable: "callables are considered safe unless
# decorated with unsafe", "recognizes func.alters_data = True"; an override
# replaces that judgement): the object the template CALLS is judged - by
# ordinary attribute lookup on it, or by whatever the override looks at.  What a
# decorator copied onto its product (functools.update_wrapper copies __dict__)
# counts, what it did not copy does not.
def wrapped_reference_refuses(obj, envkind, denied):
    """The documented verdict for calling obj (True = must be refused)."""
    if getattr(obj, "unsafe_callable", False) or getattr(obj, "alters_data", False):
        return True
    if envkind == "override":
        if getattr(obj, "vt_forbidden", False):
            return True
        if any(obj is x for x in denied):
            return True
    return False


def wrapped_render(case, twin):
    from jinja2.exceptions import SecurityError

    rec = Rec()

    def body():
        rec.calls += 1
        return Ret(1)
    f, denied, info = WR.build(case["chain"], case["position"], case["mark"], body, twin=twin)
    source, templates = compose(case)
    env = get_env(case["env"], case["async"], templates, case.get("ext", "do"))

    class Holder:
        pass
    o = Holder()
    o.m = f
    data = {"f": f, "o": o, "d": {"f": f, "k": {"g": f}}, "l": [f], "t": (f,),
            "nested": [{"f": [f]}]}
    if case["env"] == "override":
        env.vt_denied_objs = tuple(denied)
    try:
        out = env.from_string(source).render(**data)
        exc = None
    except SecurityError as e:
        out, exc = None, ("SecurityError", str(e)[:200])
    except Exception as e:
        out, exc = None, (type(e).__name__, str(e)[:200])
    finally:
        if case["env"] == "override":
            env.vt_denied_objs = ()
    return rec.calls, out, exc, source, templates, f, denied, info


def wrapped_valid(case):
    if case["wrap"] == "aloop" and not case["async"]:
        return False
    if case["mark"] in ("override", "deny_object") and case["env"] != "override":
        return False
    return WR.valid(case["chain"], case["position"], case["mark"])


def run_wrapped_case(ctx, case, count=True):
    """-> True if reached (the marker-free twin of the same chain runs)."""
    calls, out, exc, source, templates, _, _, _ = wrapped_render(case, twin=True)
    if count:
        ctx.ev()
        ctx.count("wrapped_twin_renders")
    if calls == 0 or (exc is not None and exc[0] == "SecurityError"):
        if count:
            ctx.count("wrapped_unreached")
        return False
    mcalls, mout, mexc, _, _, f, denied, info = wrapped_render(case, twin=False)
    refused = wrapped_reference_refuses(f, case["env"], denied)
    inner_refused = wrapped_reference_refuses(info["inner"], case["env"], denied)
    sec = mexc is not None and mexc[0] == "SecurityError"
    if count:
        ctx.ev()
        ctx.count("wrapped_cases")
        ctx.count("wrapped_chain:" + case["chain"])
        ctx.count("wrapped_position:" + case["position"])
        ctx.count("wrapped_mark:" + case["mark"])
        ctx.count("wrapped_refused_expected" if refused else "wrapped_allowed_expected")
        if refused and not inner_refused:
            ctx.count("wrapped_refused_though_innermost_unmarked")
        if inner_refused and not refused:
            ctx.count("wrapped_allowed_though_innermost_marked")
        if hasattr(f, "__wrapped__"):
            ctx.count("wrapped_dunder_wrapped_cases")
        if case["async"]:
            ctx.count("wrapped_async_cases")
        if case["env"] == "override":
            ctx.count("wrapped_override_env_cases")
        ctx.dist(["wrapped"] + [case[k] for k in ("chain", "position", "mark", "obtain", "wrap", "site",
                                                  "args", "env", "async")] + [case.get("ext", "do")])
    full = dict(case, wrapped=True, source=source, templates=templates)
    mech = f"chain={case['chain']}:marker={case['position']}:mark={case['mark']}"
    info_s = (f"{source!r} {templates or ''} (env {case['env']}, extensions {case.get('ext', 'do')}, "
              f"async={case['async']}); the called object is a {case['chain']} product with the "
              f"{case['mark']} marker placed {case['position']}; judged by itself it is "
              f"{'unsafe' if refused else 'safe'} (its innermost function: "
              f"{'unsafe' if inner_refused else 'safe'})")
    if refused:
        if mcalls:
            ctx.violation("wrapped-invoked:" + mech,
                          f"a decorated callable the sandbox deems unsafe ran {mcalls}x: {info_s}; "
                          f"outcome {mexc or mout!r}", full)
        elif not sec:
            ctx.violation("wrapped-no-security-error:" + mech,
                          f"marker-free twin is invoked {calls}x, the marked callable was not, but "
                          f"{info_s} gave {mexc or mout!r} instead of SecurityError", full)
        elif count:
            ctx.count("wrapped_security_errors")
    else:
        if sec or not mcalls:
            ctx.violation("wrapped-wrongly-blocked:" + mech,
                          f"the called object carries no true marker and is not rejected by the policy, "
                          f"the marker-free twin is invoked {calls}x, but {info_s} gave "
                          f"invocations={mcalls}, outcome {mexc or mout!r}", full)
        elif count:
            ctx.count("wrapped_allowed_calls")
    return True


def wrapped_case_for(j, chain, position, mark, site):
    obs, wrs = list(OBTAIN), [w for w in WRAP if w != "aloop"]
    return {"chain": chain, "position": position, "mark": mark, "obtain": obs[j % len(obs)],
            "wrap": wrs[(j // 2) % len(wrs)] if j % 3 == 0 else "none", "site": site,
            "args": WR.ARGS[j % len(WR.ARGS)],
            "env": "override" if mark in ("override", "deny_object") else ENVS[j % 3],
            "async": j % 4 == 0, "ext": EXTS[(j // 3) % 4]}


def wrapped_random_case(rng):
    while True:
        chain, position, mark = rng.choice(WR.rows())
        c = {"chain": chain, "position": position, "mark": mark,
             "obtain": rng.choice(list(OBTAIN)), "wrap": rng.choice(list(WRAP)),
             "site": rng.choice(list(SITES)), "args": rng.choice(WR.ARGS),
             "env": "override" if mark in ("override", "deny_object") else rng.choice(ENVS),
             "async": rng.random() < 0.3, "ext": rng.choice(EXTS)}
        if wrapped_valid(c):
            return c


# --------------------------------------------------- visibility of the marker
# Eighth part: HOW the marker shows on the object the template calls
# (vt/gen/c18_visible.py builds the objects): instance __dict__, class, base
# class, property, descriptor, slot, __getattr__ / __getattribute__, transparent
# forwarding proxies (also with __class__ forwarding, around functions, bound
# methods, callable objects, pass_context functions), a bound method over a
# proxy, the metaclass of a class the template instantiates.  Documented rule
# (is_safe_callable): safe "unless decorated with unsafe" / "func.alters_data =
# True" - attributes of the called object; the verdict is what plain getattr on
# that object gives (wrapped_reference_refuses), in both directions.
def visible_render(case, twin):
    from jinja2.exceptions import SecurityError

    rec = Rec()

    def body():
        rec.calls += 1
        return Ret(1)
    f = VS.build(case["vis"], case["mark"], case["value"], body, twin=twin)
    source, templates = compose(case)
    env = get_env(case["env"], case["async"], templates, case.get("ext", "do"))

    class Holder:
        pass
    o = Holder()
    o.m = f
    data = {"f": f, "o": o, "d": {"f": f, "k": {"g": f}}, "l": [f], "t": (f,),
            "nested": [{"f": [f]}]}
    try:
        out = env.from_string(source).render(**data)
        exc = None
    except SecurityError as e:
        out, exc = None, ("SecurityError", str(e)[:200])
    except Exception as e:
        out, exc = None, (type(e).__name__, str(e)[:200])
    return rec.calls, out, exc, source, templates, f


def visible_valid(case):
    if case["wrap"] == "aloop" and not case["async"]:
        return False
    if case["mark"] == "override" and case["env"] != "override":
        return False
    return True


def run_visible_case(ctx, case, count=True):
    """-> True if reached (the marker-free twin of the same construction runs)."""
    import inspect

    calls, out, exc, source, templates, _ = visible_render(case, twin=True)
    if count:
        ctx.ev()
        ctx.count("visible_twin_renders")
    if calls == 0 or exc is not None:
        if count:
            ctx.count("visible_unreached")
        return False
    mcalls, mout, mexc, _, _, f = visible_render(case, twin=False)
    refused = wrapped_reference_refuses(f, case["env"], ())
    sec = mexc is not None and mexc[0] == "SecurityError"
    name = VS.MARK_ATTR[case["mark"]]
    # (bookkeeping only: is the value plain getattr gives also what a lookup that runs no code of the
    # object finds?)
    static = inspect.getattr_static(f, name, None)
    dynamic_only = static is not getattr(f, name, None)
    if count:
        ctx.ev()
        ctx.count("visible_cases")
        ctx.count("visible_form:" + case["vis"])
        ctx.count("visible_mark:" + case["mark"])
        ctx.count("visible_value:" + case["value"])
        if dynamic_only:
            ctx.count("visible_dynamic_only_cases")
            ctx.count("visible_dynamic_only_refused_expected" if refused
                      else "visible_dynamic_only_allowed_expected")
        if case["vis"] in VS.PROXIES:
            ctx.count("visible_proxy_cases")
        if case["async"]:
            ctx.count("visible_async_cases")
        if case["env"] == "override":
            ctx.count("visible_override_env_cases")
        ctx.dist(["visible"] + [case[k] for k in ("vis", "mark", "value", "obtain", "wrap", "site", "args",
                                                  "env", "async")] + [case.get("ext", "do")])
    full = dict(case, visible=True, source=source, templates=templates)
    mech = f"marker-visible-through={case['vis']}:mark={case['mark']}:value={case['value']}"
    info_s = (f"{source!r} {templates or ''} (env {case['env']}, extensions {case.get('ext', 'do')}, "
              f"async={case['async']}); the called object shows {name}={getattr(f, name, '<absent>')!r} to "
              f"getattr, made visible through {case['vis']}")
    if refused:
        if mcalls:
            ctx.violation("visible-invoked:" + mech,
                          f"a callable the sandbox deems unsafe ran {mcalls}x: {info_s}; "
                          f"outcome {mexc or mout!r}", full)
        elif not sec:
            ctx.violation("visible-no-security-error:" + mech,
                          f"marker-free twin is invoked {calls}x, the marked callable was not, but "
                          f"{info_s} gave {mexc or mout!r} instead of SecurityError", full)
        elif count:
            ctx.count("visible_security_errors")
    else:
        if sec or not mcalls:
            ctx.violation("visible-wrongly-blocked:" + mech,
                          f"the called object shows no true marker and is not rejected by the policy, the "
                          f"marker-free twin is invoked {calls}x, but {info_s} gave invocations={mcalls}, "
                          f"outcome {mexc or mout!r}", full)
        elif count:
            ctx.count("visible_allowed_calls")
    return True


def visible_case_for(j, vis, mark, value, site):
    obs, wrs = list(OBTAIN), [w for w in WRAP if w != "aloop"]
    return {"vis": vis, "mark": mark, "value": value, "obtain": obs[j % len(obs)],
            "wrap": wrs[(j // 2) % len(wrs)] if j % 3 == 0 else "none", "site": site,
            "args": VS.ARGS[j % len(VS.ARGS)],
            "env": "override" if mark == "override" else ENVS[j % 3],
            "async": j % 4 == 0, "ext": EXTS[(j // 3) % 4]}


def visible_random_case(rng):
    while True:
        vis, mark, value = rng.choice(VS.rows())
        c = {"vis": vis, "mark": mark, "value": value,
             "obtain": rng.choice(list(OBTAIN)), "wrap": rng.choice(list(WRAP)),
             "site": rng.choice(list(SITES)), "args": rng.choice(VS.ARGS),
             "env": "override" if mark == "override" else rng.choice(ENVS),
             "async": rng.random() < 0.3, "ext": rng.choice(EXTS)}
        if visible_valid(c):
            return c

# ------------------------------------------- names with a binding history
# Ninth part: the name the template calls was bound before, in the same scope,
# to something harmless (tables in vt/gen/c18_rebind.py).  Same twin oracle as
# the main grammar: the unmarked twin reached through the very same template
# must be invoked; with the mark: zero invocations and SecurityError.
def rebind_compose(case):
    args = case["args"]
    callee = case["name"]

    def fill(text):
        return (text.replace("@@", f"{callee}({args})").replace("^^", callee)
                .replace("ARGS", args))
    return RB.compose(case, OBTAIN[case["obtain"]], SITES[case["site"]],
                      SITE_TEMPLATES.get(case["site"], {}), fill)


def rebind_render(case, marked):
    from jinja2.exceptions import SecurityError

    rec = Rec()
    f, o = make_callable(case["kind"], case["mark"] if marked else None, rec)
    source, templates = rebind_compose(case)
    env = get_env(case["env"], case["async"], templates, case.get("ext", "do"))
    data = {"f": f, "o": o, "d": {"f": f, "k": {"g": f}}, "l": [f], "t": (f,),
            "nested": [{"f": [f]}]}
    if case["rebind"] == "data":
        data[case["name"]] = f
    elif case["rebind"] == "global":
        env.globals[case["name"]] = f
    try:
        out = env.from_string(source).render(**data)
        exc = None
    except SecurityError as e:
        out, exc = None, ("SecurityError", str(e)[:200])
    except Exception as e:
        out, exc = None, (type(e).__name__, str(e)[:200])
    finally:
        if case["rebind"] == "global":
            env.globals.pop(case["name"], None)
    return rec.calls, out, exc, source, templates


def rebind_valid(case):
    if case["kind"] == "async_func" and not case["async"]:
        return False
    if case["mark"] == "override" and case["env"] != "override":
        return False
    return True


def run_rebind_case(ctx, case, count=True):
    """-> True if reached (the unmarked twin is invoked through the re-bound name)."""
    calls, out, exc, source, templates = rebind_render(case, marked=False)
    if count:
        ctx.ev()
        ctx.count("rebind_twin_renders")
    if calls == 0 or (exc is not None and exc[0] == "SecurityError"):
        if count:
            ctx.count("rebind_unreached")
        return False
    mcalls, mout, mexc, _, _ = rebind_render(case, marked=True)
    prior, guard, rebind, order = case["prior"], case["guard"], case["rebind"], case["order"]
    executed = prior != "none" and guard not in RB.NOT_EXECUTED
    if count:
        ctx.ev()
        ctx.count("rebind_cases")
        ctx.count("rebind_prior:" + prior)
        ctx.count("rebind_guard:" + guard)
        ctx.count("rebind_form:" + rebind)
        ctx.count("rebind_scope:" + case["scope"])
        ctx.count("rebind_order:" + order)
        ctx.count("rebind_mark:" + case["mark"])
        if prior != "none":
            ctx.count("rebind_name_bound_before_cases" if order != "prior_last"
                      else "rebind_name_bound_afterwards_cases")
        if prior in RB.MACRO_PRIORS:
            ctx.count("rebind_macro_name_reused_cases")
        if prior != "none" and rebind in RB.SAME_SCOPE_REBINDS and order != "prior_last":
            ctx.count("rebind_same_scope_cases")
            if prior in RB.MACRO_PRIORS and executed:
                ctx.count("rebind_same_scope_after_macro_cases")
        if prior != "none" and not executed:
            ctx.count("rebind_prior_not_executed_cases")
        if executed and order == "prior_used_first":
            ctx.count("rebind_prior_value_used_before_cases")
        if case["site"] != "print":
            ctx.count("rebind_non_print_site_cases")
        if case["async"]:
            ctx.count("rebind_async_cases")
        if case["env"] == "override":
            ctx.count("rebind_override_env_cases")
        ctx.dist(["rebind"] + [case[k] for k in ("name", "prior", "guard", "rebind", "scope", "order", "obtain",
                                                 "site", "args", "kind", "mark", "env", "async")]
                 + [case.get("ext", "do")])
    full = dict(case, rebound=True, source=source, templates=templates)
    mech = (f"prior={prior}:guard={guard}:rebind={rebind}:order={order}:scope={case['scope']}:"
            f"mark={case['mark']}")
    info = (f"{source!r} {templates or ''} (env {case['env']}, extensions {case.get('ext', 'do')}, "
            f"async={case['async']}, callable {case['kind']}/{case['mark']}); the name {case['name']!r} was "
            f"bound before by {prior} ({guard}) and holds the callable through {rebind}")
    if mcalls:
        ctx.violation("rebound-name-invoked:" + mech,
                      f"marked callable was invoked {mcalls}x by {info}; outcome {mexc or mout!r}", full)
    elif mexc is None or mexc[0] != "SecurityError":
        ctx.violation("rebound-name-no-security-error:" + mech,
                      f"control twin is invoked {calls}x but with the mark {info} gave {mexc or mout!r} "
                      f"instead of SecurityError", full)
    elif count:
        ctx.count("rebind_security_errors")
    return True


def rebind_case_for(j, row, site):
    prior, guard, rebind, scope, order = row
    obs = list(OBTAIN)
    mark = MARKS[j % 3]
    kind = KINDS[(j // 3) % len(KINDS)]
    return {"name": RB.NAMES[(j // 5) % len(RB.NAMES)], "prior": prior, "guard": guard, "rebind": rebind,
            "scope": scope, "order": order,
            "obtain": "name" if rebind in ("data", "global") else obs[j % len(obs)], "site": site,
            "args": ARGS[j % len(ARGS)], "kind": kind, "mark": mark,
            "env": "override" if mark == "override" else ENVS[(j // 2) % 3],
            "async": kind == "async_func" or j % 4 == 0, "ext": EXTS[(j // 3) % 4]}


def rebind_random_case(rng):
    while True:
        mark = rng.choice(MARKS)
        prior = rng.choice(list(RB.PRIOR))
        rebind = rng.choice(list(RB.REBIND))
        c = {"name": rng.choice(RB.NAMES), "prior": prior,
             "guard": "plain" if prior == "none" or rng.random() < 0.5 else rng.choice(list(RB.GUARD)),
             "rebind": rebind, "scope": rng.choice(list(RB.SCOPE)),
             "order": "prior_first" if prior == "none" else rng.choice(RB.ORDER),
             "obtain": "name" if rebind in ("data", "global") else rng.choice(list(OBTAIN)),
             "site": rng.choice(list(SITES)), "args": rng.choice(ARGS), "kind": rng.choice(KINDS),
             "mark": mark, "env": "override" if mark == "override" else rng.choice(ENVS),
             "async": rng.random() < 0.3, "ext": rng.choice(EXTS)}
        if rebind_valid(c):
            return c


def run(ctx):
    import warnings

    warnings.simplefilter("ignore")
    quick = ctx.tier == "quick"
    base = base_cases()
    nbase = 0
    sampled = 0
    for i, case in enumerate(base):
        if not ctx.mine(i):
            continue
        if quick and (i // ctx.nshards) % 2 == (ctx.seed % 2) and case["site"] != "print":
            # quick: half of the site x kind x mark core per seed parity
            continue
        reached = run_case(ctx, case)
        nbase += 1
        if reached and sampled < 1 and ctx.shard < 3:
            sampled += 1
            ctx.sample(dict(case, source=compose(case)[0]))
    ctx.count("base_cases", nbase)
    # builtin-method policies (allow-list / deny-list overrides), literal and context receivers
    nbm = 0
    for i, case in enumerate(bm_core_cases()):
        if not ctx.mine(i):
            continue
        if quick and case["site"] != "print" and (i // ctx.nshards) % 2 != ctx.seed % 2:
            continue
        if run_bm_case(ctx, case):
            nbm += 1
            if nbm == 1 and ctx.shard in (5, 6):
                ctx.sample(dict(case, source=bm_compose(case)[0]))
    rng = ctx.rng("bmrand")
    for _ in range(40 if quick else 1500):
        run_bm_case(ctx, bm_random_case(rng))
    ctx.count("bm_core_cases", nbm)
    # histories: the enumerated (kind x env x change x pattern) core, then random ones
    hsampled = 0
    nh = 0
    for i, (kind, envkind, is_async, change, pattern) in enumerate(history_index()):
        if not ctx.mine(i):
            continue
        rng = ctx.rng(f"hist{i}")
        X = change[1] if change[1] != "shared" else "AB"[i % 2]
        Y = "B" if X == "A" else "A"
        spec = build_history(rng, kind, envkind, is_async, pattern_steps(pattern, change, X, Y))
        spec["pattern"] = pattern
        if run_history(ctx, spec):
            nh += 1
            ctx.count("history_pattern:" + pattern)
            if hsampled < 1 and ctx.shard in (3, 4):
                hsampled += 1
                ctx.sample(spec)
    ctx.count("history_enumerated", nh)
    rng = ctx.rng("randhist")
    n_max = 70 if quick else 4000
    i = 0
    while i < n_max and (i < 30 or ctx.elapsed() < 0.6 * ctx.budget_s):
        spec = random_history(rng)
        if run_history(ctx, spec) and hsampled < 2 and ctx.shard in (3, 4):
            hsampled += 1
            ctx.sample(spec)
        i += 1
    ctx.count("history_random", i)
    # C-implemented callables under overridden policies (after the time-boxed histories)
    ccall_control(ctx)
    ncc = 0
    for i, case in enumerate(ccall_core_cases()):
        if not ctx.mine(i):
            continue
        if quick and case["site"] != "print" and (i // ctx.nshards) % 2 != ctx.seed % 2:
            # quick: half of the site x kind core per seed parity
            continue
        if run_ccall_case(ctx, case):
            ncc += 1
            if ncc == 1 and ctx.shard in (11, 12):
                ctx.sample(dict(case, source=cc_compose(case, CC.build(case["kind"])[1])[0]))
    rng = ctx.rng("ccrand")
    for _ in range(40 if quick else 800):
        run_ccall_case(ctx, ccall_random_case(rng))
    ctx.count("ccall_core_cases", ncc)
    # names the engine resolves itself / shadowed builtin names, extensions loaded
    nhelp = 0
    hs = 0
    for i, (use, name, shadow) in enumerate(helper_rows()):
        if not ctx.mine(i):
            continue
        r = i // ctx.nshards + ctx.seed
        # quick: one mark per row (rotating with the seed), generic uses every second row
        marks = [MARKS[r % 3]] if quick else MARKS
        if quick and use in GENERIC_USES and r % 2:
            continue
        for mark in marks:
            case = helper_case_for(i, use, name, shadow, mark, salt=ctx.seed)
            if not helper_valid(case):
                continue
            nhelp += 1
            if run_helper_case(ctx, case) and hs < 1 and ctx.shard in (7, 8):
                hs += 1
                ctx.sample(dict(case, source=helper_compose(case)[0]))
    rng = ctx.rng("helperrand")
    for _ in range(60 if quick else 2500):
        run_helper_case(ctx, helper_random_case(rng))
    ctx.count("helper_core_rows", nhelp)
    # combinations of unsafe_callable / alters_data (true, false, absent) x where they sit
    sites = list(SITES)
    nflag = 0
    fs = 0
    per_row = 6 if quick else len(sites)
    for i, (placement, u, a) in enumerate(flag_rows()):
        if not ctx.mine(i):
            continue
        for k in range(per_row):
            j = i * 7 + k * 11 + ctx.seed
            case = flag_case_for(j, placement, u, a, sites[j % len(sites)])
            if not flag_valid(case):
                continue
            nflag += 1
            if run_flag_case(ctx, case) and fs < 1 and ctx.shard in (9, 10):
                fs += 1
                ctx.sample(dict(case, source=compose(case)[0]))
    rng = ctx.rng("flagrand")
    for _ in range(30 if quick else 1000):
        run_flag_case(ctx, flag_random_case(rng))
    ctx.count("flag_core_cases", nflag)
    # decorated callables: (chain, marker position, mark) rows x rotating sites
    nwr = 0
    ws = 0
    per_row = 3 if quick else 8
    t_wr = ctx.elapsed()
    for i, (chain, position, mark) in enumerate(WR.rows()):
        if not ctx.mine(i):
            continue
        for k in range(per_row):
            j = i * 7 + k * 11 + ctx.seed
            # the first case of a row sits at the print site (always reached)
            case = wrapped_case_for(j, chain, position, mark, "print" if k == 0 else sites[j % len(sites)])
            if not wrapped_valid(case):
                continue
            nwr += 1
            if run_wrapped_case(ctx, case) and ws < 1 and ctx.shard in (13, 14):
                ws += 1
                ctx.sample(dict(case, source=compose(case)[0]))
    rng = ctx.rng("wrappedrand")
    for _ in range(30 if quick else 300):
        run_wrapped_case(ctx, wrapped_random_case(rng))
    ctx.count("wrapped_core_cases", nwr)
    ctx.extra["wrapped_part_seconds_all_shards"] = round(ctx.elapsed() - t_wr, 2)
    # how the marker is visible on the called object: (form, mark, value) rows x rotating sites
    nvs = 0
    vs = 0
    per_row = 3 if quick else 8
    t_vs = ctx.elapsed()
    for i, (vis, mark, value) in enumerate(VS.rows()):
        if not ctx.mine(i):
            continue
        for k in range(per_row):
            j = i * 7 + k * 11 + ctx.seed
            # the first case of a row sits at the print site (always reached)
            case = visible_case_for(j, vis, mark, value, "print" if k == 0 else sites[j % len(sites)])
            if not visible_valid(case):
                continue
            nvs += 1
            if run_visible_case(ctx, case) and vs < 1 and ctx.shard in (14, 15) and vis in VS.DYNAMIC:
                vs += 1
                ctx.sample(dict(case, source=compose(case)[0]))
    rng = ctx.rng("visiblerand")
    for _ in range(25 if quick else 300):
        run_visible_case(ctx, visible_random_case(rng))
    ctx.count("visible_core_cases", nvs)
    ctx.extra["visible_part_seconds_all_shards"] = round(ctx.elapsed() - t_vs, 2)
    # names with a binding history: (prior, guard, rebind, scope, order) rows x rotating sites
    nrb = 0
    rs = 0
    per_row = 1 if quick else 4
    t_rb = ctx.elapsed()
    for i, row in enumerate(RB.rows()):
        if not ctx.mine(i):
            continue
        for k in range(per_row):
            j = i * 7 + k * 11 + ctx.seed
            # quick: every second row of a shard at the print site (always reached)
            at_print = (i // ctx.nshards + ctx.seed) % 2 == 0 if quick else k == 0
            case = rebind_case_for(j, row, "print" if at_print else sites[j % len(sites)])
            if not rebind_valid(case):
                case = dict(case, **{"async": True}) if case["kind"] == "async_func" else case
            if not rebind_valid(case):
                continue
            nrb += 1
            if run_rebind_case(ctx, case) and rs < 1 and ctx.shard in (1, 2) and case["prior"] != "none":
                rs += 1
                ctx.sample(dict(case, source=rebind_compose(case)[0]))
    rng = ctx.rng("rebindrand")
    for _ in range(30 if quick else 600):
        run_rebind_case(ctx, rebind_random_case(rng))
    ctx.count("rebind_core_cases", nrb)
    ctx.extra["rebind_part_seconds_all_shards"] = round(ctx.elapsed() - t_rb, 2)
    rng = ctx.rng("rand")
    n_max = 900 if quick else 40000
    i = 0
    while ctx.more(i, n_max, floor=200):
        case = random_case(rng)
        reached = run_case(ctx, case)
        if reached and sampled < 3 and ctx.shard < 3:
            sampled += 1
            ctx.sample(dict(case, source=compose(case)[0]))
        i += 1
    ctx.count("random_cases", i)


def replay(ctx, case):
    import warnings

    warnings.simplefilter("ignore")
    if case.get("hist"):
        run_history(ctx, case, count=False)
    elif case.get("helper"):
        run_helper_case(ctx, case, count=False)
    elif case.get("flags"):
        run_flag_case(ctx, case, count=False)
    elif case.get("wrapped"):
        run_wrapped_case(ctx, case, count=False)
    elif case.get("visible"):
        run_visible_case(ctx, case, count=False)
    elif case.get("rebound"):
        run_rebind_case(ctx, case, count=False)
    elif case.get("bm"):
        run_bm_case(ctx, case, count=False)
    elif case.get("cc"):
        run_ccall_case(ctx, case, count=False)
    else:
        run_case(ctx, case, count=False)
