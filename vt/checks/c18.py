"""C18 — a sandboxed template never calls a callable the sandbox deems unsafe.

Recording callables of many kinds (function, bound/class method, callable
instance, partial, class, pass_context function, coroutine function...) are
marked unsafe with jinja2.sandbox.unsafe, with alters_data=True, or are
rejected by an overridden is_safe_callable.  Templates are composed from
  obtain(how the template gets hold of the callable)
  x wrapper(alias: set / with / loop variable / macro parameter / namespace ...)
  x site(where the call expression sits: output, filter/test argument, macro
    default, call block, caller, include, import, ...)
  x call arguments.
Every case is rendered twice: with the unmarked *twin* (must be invoked at
least once, otherwise the case is unreached and not counted) and with the marked
callable: zero invocations and SecurityError from render are required.

Second part, *histories*: the verdict for a callable may legitimately change
while one environment lives (a mark set after the first use, a deny-list the
application extends between two renderings, an overridden check that looks at
the receiver of a bound method).  A history is a short sequence of steps on ONE
fresh environment over a family of two sibling callables A and B (two closures
of one def, two instances of one class bound to the same method, two classes
sharing a classmethod, two partials of one function, two callable instances):
  call T / call both in one render / set a mark / remove a mark / render
  templates that use an unrelated family.
Every call step is judged against the marks and the policy in force at that
moment: allowed -> the callable runs and no SecurityError; forbidden -> zero
invocations and SecurityError.
"""
from __future__ import annotations

import functools

PID = "C18"
LEVEL = "exploration"
TECHNIQUE = "recording unsafe callables with an unmarked control twin over a composed reach-path grammar"
RULE = ("case = (obtain form x alias wrapper x call site x argument form x callable kind x mark "
        "x environment kind x sync/async); base coverage enumerates every (site, kind, mark) and "
        "every (obtain, wrapper, mark) once, the rest is seeded sampling of the product; a case is "
        "counted as distinct and non-trivial only when the control twin (same construction, no "
        "mark) is actually invoked by the template")
LEVEL_TEXT = ("held on every reached case: 0 invocations of the marked callable and SecurityError "
              "raised, over the composed grammar of reach paths (not exhaustive over all templates); "
              "on every enumerated/sampled multi-step history on one environment each call was allowed "
              "or refused according to the marks and policy in force at that step")
ASSUMPTIONS = [
    "callables are invoked by call syntax written in the template (or call blocks); engine-internal calls of data objects' protocol methods are out of scope",
    "marks: jinja2.sandbox.unsafe, alters_data=True, and an is_safe_callable override that rejects objects carrying vt_forbidden and defers to super() otherwise",
    "histories: the override additionally rejects objects (or bound receivers) carrying vt_frozen and objects whose vt_name is in the environment's deny-list; marks are set on and removed from the object the template calls (function, instance, partial, class) or the function/class shared by both siblings; the unsafe mark is removed by deleting the attribute(s) jinja2.sandbox.unsafe was observed to add",
    "histories also require the reverse direction: once a mark or deny-list entry is removed the call must be let through again (reported under history-wrongly-blocked keys)",
]
NSHARDS = {"quick": 16, "thorough": 16}
BUDGET_S = {"quick": 14, "thorough": 300}
FLOORS = {
    "quick": {"evaluations": 6000, "distinct": 3000,
              "counters": {"twin_invocations": 3000, "marked_renders": 3000,
                           "security_errors": 3000, "async_cases": 800,
                           "override_env_cases": 1200}},
    "thorough": {"evaluations": 60000, "distinct": 30000,
                 "counters": {"twin_invocations": 30000, "marked_renders": 30000,
                              "security_errors": 30000, "async_cases": 8000,
                              "override_env_cases": 12000}},
}

# ------------------------------------------------------------------ grammar
OBTAIN = {
    "name": "f",
    "attr": "o.m",
    "subscript_attr": "o['m']",
    "attr_filter": "(o|attr('m'))",
    "dict_attr": "d.f",
    "dict_item": "d['f']",
    "dict_nested": "d.k.g",
    "dict_get": "d.get('f')",
    "dict_values": "(d.values()|list)[0]",
    "list_index": "l[0]",
    "list_first": "(l|first)",
    "list_last": "(l|last)",
    "tuple_index": "t[0]",
    "nested": "nested[0].f[0]",
    "map_attr": "([d]|map(attribute='f')|first)",
    "condexpr": "(f if true else none)",
    "or_expr": "(none or f)",
    "default_filter": "(nope|default(f))",
}
# wrapper: text with ## = obtain expression, BODY = site text; CALLEE is the
# name the site uses for the callable.
WRAP = {
    "none": ("BODY", None),
    "set": ("{% set g = ## %}BODY", "g"),
    "set2": ("{% set g0 = ## %}{% set g = g0 %}BODY", "g"),
    "with": ("{% with g = ## %}BODY{% endwith %}", "g"),
    "namespace": ("{% set ns = namespace(g=##) %}BODY", "ns.g"),
    "namespace_set": ("{% set ns = namespace() %}{% set ns.g = ## %}BODY", "ns.g"),
    "loop_var": ("{% for g in [##] %}BODY{% endfor %}", "g"),
    "loop_var_items": ("{% for k, g in {'a': ##}.items() %}BODY{% endfor %}", "g"),
    "macro_param": ("{% macro wm(g) %}BODY{% endmacro %}{{ wm(##) }}", "g"),
    "macro_default": ("{% macro wm(g=##) %}BODY{% endmacro %}{{ wm() }}", "g"),
    "macro_kwargs": ("{% macro wm() %}BODY{% endmacro %}{{ wm(g=##) }}", "kwargs.g"),
    "macro_varargs": ("{% macro wm() %}BODY{% endmacro %}{{ wm(##) }}", "varargs[0]"),
    "caller_param": ("{% macro wm() %}{{ caller(##) }}{% endmacro %}{% call(g) wm() %}BODY{% endcall %}", "g"),
    "list_lit": ("BODY", "[##][0]"),
    "dict_lit": ("BODY", "{'a': ##}.a"),
    "aloop": ("{% for g in agen(##) %}BODY{% endfor %}", "g"),        # async only
}
# site: @@ = call expression (callee + "(" + args + ")"); ^^ = callee, ARGS = args
SITES = {
    "print": "{{ @@ }}",
    "print_filter": "{{ @@|string }}",
    "filter_arg_default": "{{ 1|default(@@) }}",
    "filter_arg_default_bool": "{{ none|default(@@, true) }}",
    "filter_arg_join": "{{ [1, 2]|join(@@) }}",
    "filter_kwarg": "{{ [3, 1]|sort(reverse=@@)|list }}",
    "map_filter_arg": "{{ [1]|map('default', @@)|list }}",
    "select_test_arg": "{{ [1, 2]|select('eq', @@)|list }}",
    "test_arg": "{{ 1 is eq(@@) }}",
    "test_input": "{{ @@ is none }}",
    "binop": "{{ 1 + @@ }}",
    "concat": "{{ @@ ~ 'x' }}",
    "condexpr_test": "{{ 'a' if @@ else 'b' }}",
    "condexpr_branch": "{{ @@ if true else 'b' }}",
    "and": "{{ true and @@ }}",
    "or": "{{ false or @@ }}",
    "not": "{{ not @@ }}",
    "compare": "{{ @@ == 1 }}",
    "in": "{{ 1 in [@@] }}",
    "list_lit": "{{ [@@] }}",
    "dict_lit": "{{ {'a': @@} }}",
    "tuple_lit": "{{ (@@, 2) }}",
    "subscript_of": "{{ @@[0] }}",
    "subscript_arg": "{{ [5, 6, 7][@@] }}",
    "slice": "{{ 'abcd'[@@:] }}",
    "attr_of": "{{ @@.real }}",
    "call_of": "{{ @@() }}",
    "call_arg": "{{ range(@@)|list }}",
    "call_kwarg": "{{ dict(a=@@) }}",
    "if_stmt": "{% if @@ %}y{% endif %}",
    "elif_stmt": "{% if false %}n{% elif @@ %}y{% endif %}",
    "set_stmt": "{% set x = @@ %}{{ x }}",
    "set_block": "{% set x %}{{ @@ }}{% endset %}{{ x }}",
    "with_stmt": "{% with x = @@ %}{{ x }}{% endwith %}",
    "for_iter": "{% for x in @@ %}{{ x }}{% endfor %}",
    "for_body": "{% for x in [1, 2] %}{{ @@ }}{% endfor %}",
    "for_filter": "{% for x in [1, 2] if @@ %}{{ x }}{% endfor %}",
    "for_else": "{% for x in [] %}{% else %}{{ @@ }}{% endfor %}",
    "for_recursive": "{% for x in [1] recursive %}{{ @@ }}{% endfor %}",
    "for_loop_cycle": "{% for x in [1] %}{{ loop.cycle(@@, 2) }}{% endfor %}",
    "macro_body": "{% macro m() %}{{ @@ }}{% endmacro %}{{ m() }}",
    "macro_default": "{% macro m(a=@@) %}{{ a }}{% endmacro %}{{ m() }}",
    "macro_call_arg": "{% macro m(a) %}{{ a }}{% endmacro %}{{ m(@@) }}",
    "macro_call_kwarg": "{% macro m(a=1) %}{{ a }}{% endmacro %}{{ m(a=@@) }}",
    "call_block_body": "{% macro m() %}[{{ caller() }}]{% endmacro %}{% call m() %}{{ @@ }}{% endcall %}",
    "call_block_macro_arg": "{% macro m(a) %}{{ a }}{{ caller() }}{% endmacro %}{% call m(@@) %}b{% endcall %}",
    "caller_with_param": "{% macro m() %}{{ caller(1) }}{% endmacro %}{% call(v) m() %}{{ @@ }}{% endcall %}",
    "call_block_target": "{% call ^^(ARGS) %}body{% endcall %}",
    "call_block_target_params": "{% call(v) ^^(ARGS) %}{{ v }}{% endcall %}",
    "filter_block": "{% filter upper %}{{ @@ }}{% endfilter %}",
    "autoescape_block": "{% autoescape true %}{{ @@ }}{% endautoescape %}",
    "block": "{% block b %}{{ @@ }}{% endblock %}",
    "block_scoped": "{% for x in [1] %}{% block b scoped %}{{ @@ }}{% endblock %}{% endfor %}",
    "include": "{% include 'inc' %}",
    "import_with_context": "{% import 'lib' as lib with context %}{{ lib.m() }}",
    "from_import_param": "{% from 'lib2' import ap %}{{ ap(^^) }}",
    "extends_block": "{% extends 'base' %}{% block b %}{{ @@ }}{% endblock %}",
    "do_ext": "{% do @@ %}",
    "chained_after_safe_call": "{{ ident(^^)(ARGS) }}",
    "arg_of_safe_call": "{{ ident(@@) }}",
}
SITE_TEMPLATES = {
    "include": {"inc": "{{ @@ }}"},
    "import_with_context": {"lib": "{% macro m() %}{{ @@ }}{% endmacro %}"},
    "from_import_param": {"lib2": "{% macro ap(q) %}{{ q(ARGS) }}{% endmacro %}"},
    "extends_block": {"base": "<{% block b %}{% endblock %}>"},
}
ARGS = ["", "1", "1, k=2", "*[1, 2]", "**{'k': 1}", "1, *[2], **{'k': 3}"]
KINDS = ["func", "lambda", "method", "classmethod", "staticmethod", "callable_obj",
         "callable_cls", "partial", "klass", "pass_context", "pass_environment",
         "pass_eval_context", "async_func"]
MARKS = ["unsafe", "alters", "override"]
ENVS = ["sandbox", "immutable", "override"]


# ----------------------------------------------------------- the callables
class Ret(int):
    """Flexible return value so the control twin gets through most sites."""

    def __call__(self, *a, **k):
        return 1

    def __getitem__(self, i):
        return 1

    def __iter__(self):
        return iter([1])


class Rec:
    def __init__(self):
        self.calls = 0


def make_callable(kind, mark, rec):
    """Returns (f, o) with o.m being the callable too.  mark None = twin."""
    from jinja2 import pass_context, pass_environment, pass_eval_context
    from jinja2.sandbox import unsafe

    def apply_mark(obj):
        if mark == "unsafe":
            return unsafe(obj)
        if mark == "alters":
            obj.alters_data = True
        elif mark == "override":
            obj.vt_forbidden = True
        return obj

    def body(*a, **k):
        rec.calls += 1
        return Ret(1)

    if kind == "func":
        def f(*a, **k):
            return body(*a, **k)
        f = apply_mark(f)
    elif kind == "lambda":
        f = apply_mark(lambda *a, **k: body(*a, **k))
    elif kind in ("method", "classmethod", "staticmethod"):
        def m(self_or_cls=None, *a, **k):
            return body(*a, **k)

        def sm(*a, **k):
            return body(*a, **k)
        if kind == "method":
            class O:
                meth = apply_mark(m)
        elif kind == "classmethod":
            class O:
                meth = classmethod(apply_mark(m))
        else:
            class O:
                meth = staticmethod(apply_mark(sm))
        f = O().meth
    elif kind == "callable_obj":
        class CO:
            def __call__(self, *a, **k):
                return body(*a, **k)
        f = apply_mark(CO())
    elif kind == "callable_cls":
        class CC:
            def __call__(self, *a, **k):
                return body(*a, **k)
        apply_mark(CC)
        f = CC()
    elif kind == "partial":
        f = apply_mark(functools.partial(body, 0))
    elif kind == "klass":
        class K(int):
            def __new__(cls, *a, **k):
                body()
                return int.__new__(cls, 1)

            def __call__(self, *a, **k):
                return 1

            def __getitem__(self, i):
                return 1

            def __iter__(self):
                return iter([1])
        f = apply_mark(K)
    elif kind == "pass_context":
        @pass_context
        def f(c, *a, **k):
            return body(*a, **k)
        f = apply_mark(f)
    elif kind == "pass_environment":
        @pass_environment
        def f(e, *a, **k):
            return body(*a, **k)
        f = apply_mark(f)
    elif kind == "pass_eval_context":
        @pass_eval_context
        def f(e, *a, **k):
            return body(*a, **k)
        f = apply_mark(f)
    elif kind == "async_func":
        def f(*a, **k):
            rec.calls += 1      # counted when *called*, the body is awaited later

            async def co():
                return Ret(1)
            return co()
        f = apply_mark(f)
    else:
        raise AssertionError(kind)

    class Holder:
        pass

    o = Holder()
    o.m = f
    return f, o


_envs = {}


def new_env(kind, is_async):
    """A fresh environment of the given kind ('override' = the policy subclass)."""
    from jinja2.sandbox import ImmutableSandboxedEnvironment, SandboxedEnvironment

    if kind == "sandbox":
        cls = SandboxedEnvironment
    elif kind == "immutable":
        cls = ImmutableSandboxedEnvironment
    else:
        class cls(SandboxedEnvironment):
            vt_denied = frozenset()

            def is_safe_callable(self, obj):
                if getattr(obj, "vt_forbidden", False):
                    return False
                if getattr(obj, "vt_frozen", False):
                    return False
                recv = getattr(obj, "__self__", None)
                if recv is not None and getattr(recv, "vt_frozen", False):
                    return False
                if self.vt_denied and getattr(obj, "vt_name", None) in self.vt_denied:
                    return False
                return super().is_safe_callable(obj)
    env = cls(enable_async=is_async, extensions=["jinja2.ext.do"], cache_size=0)
    env.globals["ident"] = lambda x: x

    async def agen(x):
        yield x
    env.globals["agen"] = agen
    return env


def get_env(kind, is_async, templates):
    from jinja2 import DictLoader

    key = (kind, is_async)
    env = _envs.get(key)
    if env is None:
        env = _envs[key] = new_env(kind, is_async)
    env.loader = DictLoader(dict(templates))
    return env


def compose(case):
    callee_expr = OBTAIN[case["obtain"]]
    wtext, alias = WRAP[case["wrap"]]
    if alias is None:
        callee = callee_expr
    else:
        callee = alias.replace("##", callee_expr)
    args = case["args"]

    def fill(text):
        return (text.replace("@@", f"{callee}({args})").replace("^^", callee)
                .replace("ARGS", args))
    body = fill(SITES[case["site"]])
    source = wtext.replace("BODY", body).replace("##", callee_expr)
    templates = {k: fill(v) for k, v in SITE_TEMPLATES.get(case["site"], {}).items()}
    return source, templates


def render_once(case, marked):
    from jinja2.exceptions import SecurityError

    rec = Rec()
    f, o = make_callable(case["kind"], case["mark"] if marked else None, rec)
    source, templates = compose(case)
    env = get_env(case["env"], case["async"], templates)
    data = {"f": f, "o": o, "d": {"f": f, "k": {"g": f}}, "l": [f], "t": (f,),
            "nested": [{"f": [f]}]}
    try:
        out = env.from_string(source).render(**data)
        exc = None
    except SecurityError as e:
        out, exc = None, ("SecurityError", str(e))
    except Exception as e:
        out, exc = None, (type(e).__name__, str(e)[:200])
    return rec.calls, out, exc, source, templates


def run_case(ctx, case, count=True):
    """-> True if reached (non-trivial)."""
    calls, out, exc, source, templates = render_once(case, marked=False)
    if count:
        ctx.ev()
        ctx.count("twin_renders")
    if exc is not None and exc[0] == "SecurityError":
        # the construction itself trips the sandbox without any mark: not a
        # usable case for this property
        if count:
            ctx.count("twin_security_error")
        return False
    if calls == 0:
        if count:
            ctx.count("unreached_cases")
            ctx.count("unreached_site:" + case["site"])
        return False
    if count:
        ctx.count("twin_invocations", calls)
    mcalls, mout, mexc, _, _ = render_once(case, marked=True)
    if count:
        ctx.ev()
        ctx.count("marked_renders")
        ctx.count("site:" + case["site"])
        ctx.count("mark:" + case["mark"])
        if case["async"]:
            ctx.count("async_cases")
        if case["env"] == "override":
            ctx.count("override_env_cases")
        ctx.dist([case[k] for k in ("obtain", "wrap", "site", "args", "kind", "mark", "env", "async")])
    full = dict(case, source=source, templates=templates)
    mech = f"site={case['site']}:wrap={case['wrap']}:kind={case['kind']}:mark={case['mark']}"
    if mcalls:
        ctx.violation("invoked:" + mech,
                      f"marked callable ({case['kind']}/{case['mark']}, env {case['env']}, "
                      f"async={case['async']}) was invoked {mcalls}x by {source!r} {templates}; "
                      f"render outcome: {mexc or mout!r}", full)
    elif mexc is None or mexc[0] != "SecurityError":
        ctx.violation("no-security-error:" + mech,
                      f"control twin is invoked {calls}x but with the mark the render of {source!r} "
                      f"{templates} gave {mexc or mout!r} instead of SecurityError "
                      f"(env {case['env']}, async={case['async']})", full)
    elif count:
        ctx.count("security_errors")
    return True


def valid(case):
    if case["kind"] == "async_func" and not case["async"]:
        return False
    if case["wrap"] == "aloop" and not case["async"]:
        return False
    if case["mark"] == "override" and case["env"] != "override":
        return False
    return True


def base_cases():
    """Deterministic coverage core: every (site, kind, mark) with the plain
    name, every (obtain, wrap, mark) at the print site."""
    out = []
    i = 0
    for site in SITES:
        for kind in KINDS:
            for mark in MARKS:
                i += 1
                out.append({"obtain": "name", "wrap": "none", "site": site,
                            "args": ARGS[i % len(ARGS)], "kind": kind, "mark": mark,
                            "env": "override" if mark == "override" else ENVS[i % 3],
                            "async": kind == "async_func" or i % 3 == 0})
    for ob in OBTAIN:
        for wr in WRAP:
            for mark in MARKS:
                i += 1
                kind = KINDS[i % len(KINDS)]
                a = wr == "aloop" or kind == "async_func" or i % 4 == 0
                out.append({"obtain": ob, "wrap": wr, "site": "print",
                            "args": ARGS[i % len(ARGS)], "kind": kind, "mark": mark,
                            "env": "override" if mark == "override" else ENVS[i % 3],
                            "async": a})
    return [c for c in out if valid(c)]


def random_case(rng):
    while True:
        mark = rng.choice(MARKS)
        c = {"obtain": rng.choice(list(OBTAIN)), "wrap": rng.choice(list(WRAP)),
             "site": rng.choice(list(SITES)), "args": rng.choice(ARGS),
             "kind": rng.choice(KINDS), "mark": mark,
             "env": "override" if mark == "override" else rng.choice(ENVS),
             "async": rng.random() < 0.3}
        if valid(c):
            return c


def run(ctx):
    import warnings

    warnings.simplefilter("ignore")
    quick = ctx.tier == "quick"
    base = base_cases()
    nbase = 0
    sampled = 0
    for i, case in enumerate(base):
        if not ctx.mine(i):
            continue
        if quick and (i // ctx.nshards) % 2 == (ctx.seed % 2) and case["site"] != "print":
            # quick: half of the site x kind x mark core per seed parity
            continue
        reached = run_case(ctx, case)
        nbase += 1
        if reached and sampled < 1 and ctx.shard < 3:
            sampled += 1
            ctx.sample(dict(case, source=compose(case)[0]))
    ctx.count("base_cases", nbase)
    rng = ctx.rng("rand")
    n_max = 900 if quick else 40000
    i = 0
    while ctx.more(i, n_max, floor=200):
        case = random_case(rng)
        reached = run_case(ctx, case)
        if reached and sampled < 3 and ctx.shard < 3:
            sampled += 1
            ctx.sample(dict(case, source=compose(case)[0]))
        i += 1
    ctx.count("random_cases", i)


def replay(ctx, case):
    import warnings

    warnings.simplefilter("ignore")
    run_case(ctx, case, count=False)
