"""C27 — the bytecode cache never yields stale/foreign code and tolerates
interrupted writes: crash-point, truncation, foreign-entry and shared-directory
fault enumeration on FileSystemBytecodeCache, failing-client enumeration on
MemcachedBytecodeCache, near-identical sources (every single-character edit and
structured edits that weak checksums do not notice) through both."""
from __future__ import annotations

import importlib.util
import itertools
import json
import marshal
import os
import shutil
import sys
import tempfile
import types

from vt.mon import c27_child as K

PID = "C27"
LEVEL = "fault_enumeration"
TECHNIQUE = ("crash-point / truncation-offset / fault-script / two-writer-schedule / source-edit enumeration "
             "with a recompile oracle")
RULE = ("(a) crash points: one template load through FileSystemBytecodeCache is instrumented (audit "
        "events open/tempfile.mkstemp/os.rename/os.remove in the cache dir + before/torn/after each "
        "write that Bucket.write_bytecode makes + entering/leaving it); at EVERY event k of that load "
        "the state a process death would leave is captured (copy of the directory as the OS sees it, "
        "with and without flushing what was written so far; torn = first half of the write flushed) "
        "and, for one series in quick / all series in thorough, a forked writer is really killed with "
        "os._exit at event k and its directory compared with the capture; on an empty directory and "
        "on one holding an entry for the previous source, small and >8 KiB entries, DictLoader and "
        "FileSystemLoader; then fresh environments load twice from what was left and clear(). "
        "(b) every truncation offset 0..len-1 of stored entries, every "
        "single-byte change of the header (payload = other valid code), entries written by the real "
        "Bucket code under a spoofed interpreter version (own / garbage / other-code payload), "
        "another template's or another source's entry, a directory / unreadable / empty file in place "
        "of the entry. (c) every "
        "history of length<=L (4 quick, 5 thorough) over {load env1, load env2, modify source, clear} "
        "ending in a load, env1/env2 sharing the directory and equal or differing in one of autoescape/"
        "trim_blocks/lstrip_blocks/enable_async/sandboxed/delimiters. (d) MemcachedBytecodeCache with "
        "a fake client scripted per call (get: ok/raise/None/every truncation/other key's bytes; set: "
        "ok/raise/drop) x ignore_memcache_errors. (e) near-identical sources: for three small "
        "templates (plain data with line breaks and a final newline; block tags / a comment on own "
        "lines; string literals, CRLF and a combining character) EVERY single-character edit -- "
        "substitution and insertion of each of 25 characters (space, tab, \\n, \\r, \\r\\n, the other "
        "Unicode line boundaries \\x0b \\x0c \\x1c-\\x1e \\x85 U+2028 U+2029, Unicode spaces, "
        "zero-width characters, a combining accent, letters incl. case / full-width / precomposed, digit, "
        "punctuation) at every position, and deletion of every character (so also: final newline "
        "added / removed / replaced) -- gives a pair (A, B) and the history load A, source:=B, load B, "
        "source:=A, load A through one FileSystemBytecodeCache directory or one memcached client "
        "(alternating), every load by a fresh environment, under the configurations default / "
        "keep_trailing_newline / trim_blocks+lstrip_blocks / newline_sequence=CRLF+"
        "keep_trailing_newline (quick: rotating per edit, all four for edits of the first or last "
        "character; thorough: all four). (g) near-identical sources, STRUCTURED edits chosen against "
        "weak invalidation checksums without knowing which one is in use (length, sum / xor of the "
        "code units, position-weighted sums, digit sums, hashes of a prefix / of the sorted lines / "
        "of the case-folded text ...): for three templates of 75-100 characters (numbers in "
        "expressions, loop bounds and data; string literals, mixed-case words and mirrored letter "
        "pairs; one construct per line) every transposition of two adjacent characters, "
        "transpositions of characters 2 / 7 / half the text apart, two adjacent transpositions at "
        "once (all mirrored pairs xy..yx, others 2 or 5 apart), +k on one letter or digit and -k on "
        "a later one (k = +-1; +-1..3 thorough), +k/-2k/+k on three equally spaced and +2k/-3k/+k, "
        "+k/-3k/+2k on three unequally spaced letters / digits (the change stays inside digit / "
        "lower / upper case), every digit run of 2-4 digits rewritten to equal-length digit strings "
        "with the same digit sum, whole lines exchanged / rotated / reversed, two tags exchanged, "
        "two letters changing case in opposite or in the same direction, one character moved 2 / 3 "
        "places or to the start / end; plus a 10 KB source with one character replaced at its ends, "
        "middle and around offsets 64..8192. Only edits that change what the source renders (or "
        "whether it compiles) are run, through the same load A / load B / load A history, "
        "configurations and backends as (e). Oracle everywhere: result == load+render of the "
        "CURRENT source compiled without any cache in the LOADING environment; no exception (except "
        "the client's own one when ignore_memcache_errors is off). (h) one file / one source reachable "
        "under SEVERAL TEMPLATE NAMES through one cache directory: loader topologies FileSystemLoader "
        "with nested search paths, ChoiceLoader over overlapping directories, ChoiceLoader of a "
        "PrefixLoader and a FileSystemLoader, PrefixLoader with two mounts over nested directories, a "
        "FunctionLoader answering several names with one file (same filename), a DictLoader holding one "
        "source under two names (no filename) x templates whose meaning depends on the name they were "
        "requested by (plain control, {{ self }}, relative include / extends / import resolved by an "
        "Environment.join_path override; Template.name is observed too) x every history of length<=3 "
        "(thorough: <=4 over two names, <=3 over three names) over {load name_i, modify source, clear} "
        "ending in a load x {fresh environment per load, one environment}; oracle: rendering and "
        "Template.name of the same name loaded through the same loaders without a cache. "
        "distinct = distinct (part, "
        "template, loader, fault position/kind or schedule) cases; for (h) histories loading at least "
        "two names")
LEVEL_TEXT = ("held on every enumerated crash point / offset / history / fault script / two-writer schedule; crash atomicity is "
              "claimed at the granularity of Python-level write calls and audit events (plus one torn "
              "write per call), not for arbitrary kernel-level partial writes")
ASSUMPTIONS = [
    "POSIX rename atomicity; a crash is modelled by os._exit at Python-level I/O events (each write call "
    "additionally torn in half), not by power loss reordering",
    "foreign-interpreter entries are produced by the real Bucket code under a spoofed sys.version_info; "
    "their marshal payload is this interpreter's or garbage",
    "only header bytes are corrupted; arbitrary corruption of the marshal payload is outside the statement",
    "one compile-relevant option differs per environment pair",
    "two writers: interleaving is at the granularity of the same Python-level I/O events (audit events, "
    "write calls incl. one torn write per call); each writer is stopped at most once; two writers and "
    "one key; the writers are threads of one process that never run at the same time (a deterministic "
    "schedule), which is what two processes interleaved by the OS look like to the file system",
    "near-identical sources (e) are one edit apart and at most 45 characters long; the edit alphabet is "
    "the 25 characters listed in RULE (no lone surrogates, no NUL)",
    "structured edits (g) are the listed families on three ~100-character ASCII templates and one "
    "10 KB template; a checksum that is blind to some other relation between two sources (e.g. a "
    "truncated cryptographic hash with a constructed collision) is not found by them",
]
NSHARDS = {"quick": 16, "thorough": 16}
BUDGET_S = {"quick": 90, "thorough": 900}
FLOORS = {
    "quick": {"evaluations": 4000, "distinct": 2000,
              "counters": {"crash_cases": 35, "real_deaths": 4, "crash_write_events": 23,
                           "crash_audit_events": 12, "reader_loads": 80, "trunc_offsets": 750,
                           "header_byte_flips": 22, "foreign_version_entries": 15,
                           "shared_histories": 600, "shared_loads": 1250, "shared_cache_hits": 230,
                           "memcached_loads": 1300, "memcached_client_get": 1900,
                           "memcached_client_set": 1800,
                           "edit_cases": 1500, "edit_loads": 4500,
                           "edit_changes_the_rendering": 1200,
                           "edit_class_sub:unicode-line-boundary": 200,
                           "edit_class_ins:unicode-line-boundary": 200,
                           "edit_class_sub:newline": 75, "edit_class_ins:newline": 75,
                           "edit_class_del:newline": 3, "edit_at-end": 100,
                           "sedit_cases": 1200, "sedit_loads": 3600,
                           "sedit_changes_the_rendering": 1200, "sedit_both_sources_render": 600,
                           "sedit_class_swap-adjacent": 90, "sedit_class_swap-distant": 230,
                           "sedit_class_double-swap": 160, "sedit_class_double-swap:mirrored": 25,
                           "sedit_class_compensate-2": 230,
                           "sedit_class_compensate-3:equally-spaced": 60,
                           "sedit_class_compensate-3:unequally-spaced": 60,
                           "sedit_class_digit-sum-rewrite": 25, "sedit_class_line-reorder": 10,
                           "sedit_class_tag-reorder": 12,
                           "sedit_class_case-swap:opposite-direction": 8,
                           "sedit_class_case-swap:same-direction": 70,
                           "sedit_class_move-char": 220,
                           "sedit_class_long-source-one-character": 12,
                           "duel_cases": 88, "duel_loads": 300, "duel_first_writer_interrupted": 88,
                           "duel_both_writers_interrupted": 32,
                           "duel_second_writer_complete_in_between": 48,
                           "duel_clear_in_between": 8, "duel_writers_hold_different_sources": 64,
                           "duel_interrupted_at_write-event": 55,
                           "duel_interrupted_at_audit-event": 22,
                           "alias_histories": 300, "alias_loads": 580,
                           "alias_loads_after_another_name_of_the_file": 120,
                           "alias_loads_after_another_name_that_renders_differently": 100,
                           "alias_topology_fs-nested-searchpath": 50, "alias_topology_choice-of-fs": 50,
                           "alias_topology_choice-of-prefix-and-fs": 50,
                           "alias_topology_prefix-two-mounts": 50,
                           "alias_topology_function-loader-one-file": 50,
                           "alias_topology_dict-same-source": 50,
                           "alias_kind_self": 60, "alias_kind_include-relative": 60,
                           "alias_kind_extends-relative": 60, "alias_kind_import-relative": 60}},
    "thorough": {"evaluations": 27000, "distinct": 12000,
                 "counters": {"crash_cases": 70, "real_deaths": 70, "crash_write_events": 47,
                              "crash_audit_events": 25, "reader_loads": 290, "trunc_offsets": 3800,
                              "header_byte_flips": 60, "foreign_version_entries": 40,
                              "shared_histories": 4700, "shared_loads": 12000,
                              "shared_cache_hits": 2800, "memcached_loads": 6900,
                              "memcached_client_get": 10000, "memcached_client_set": 10000,
                              "edit_cases": 5500, "edit_loads": 16500,
                              "edit_changes_the_rendering": 4400,
                              "edit_class_sub:unicode-line-boundary": 800,
                              "edit_class_ins:unicode-line-boundary": 800,
                              "edit_class_sub:newline": 300, "edit_class_ins:newline": 300,
                              "edit_class_del:newline": 8, "edit_at-end": 130,
                              "sedit_cases": 12000, "sedit_loads": 36000,
                              "sedit_changes_the_rendering": 12000,
                              "sedit_both_sources_render": 5500,
                              "sedit_class_swap-adjacent": 280, "sedit_class_swap-distant": 2100,
                              "sedit_class_double-swap": 1300,
                              "sedit_class_double-swap:mirrored": 85,
                              "sedit_class_compensate-2": 4000,
                              "sedit_class_compensate-3:equally-spaced": 500,
                              "sedit_class_compensate-3:unequally-spaced": 350,
                              "sedit_class_digit-sum-rewrite": 190, "sedit_class_line-reorder": 33,
                              "sedit_class_tag-reorder": 38,
                              "sedit_class_case-swap:opposite-direction": 80,
                              "sedit_class_case-swap:same-direction": 440,
                              "sedit_class_move-char": 1900,
                              "sedit_class_long-source-one-character": 36,
                              "duel_cases": 1800, "duel_loads": 6000,
                              "duel_first_writer_interrupted": 1800,
                              "duel_both_writers_interrupted": 1600,
                              "duel_second_writer_complete_in_between": 140,
                              "duel_clear_in_between": 24,
                              "duel_writers_hold_different_sources": 1600,
                              "duel_interrupted_at_write-event": 1100,
                              "duel_interrupted_at_audit-event": 450,
                              "alias_histories": 2100, "alias_loads": 4900,
                              "alias_loads_after_another_name_of_the_file": 1200,
                              "alias_loads_after_another_name_that_renders_differently": 1000,
                              "alias_topology_fs-nested-searchpath": 230,
                              "alias_topology_choice-of-fs": 420,
                              "alias_topology_choice-of-prefix-and-fs": 420,
                              "alias_topology_prefix-two-mounts": 420,
                              "alias_topology_function-loader-one-file": 230,
                              "alias_topology_dict-same-source": 420,
                              "alias_kind_self": 430, "alias_kind_include-relative": 430,
                              "alias_kind_extends-relative": 430, "alias_kind_import-relative": 430}},
}

NAME = "t.html"
COMBINED = ["{{ x }}|  {% if true %}\n  yes\n  {% endif %}\n|{{ f() }}|<< x >>",
            "{{ x }}#  {% if true %}\n  NO!\n  {% endif %}\n#{{ f() }}#<< x >>#v1"]
SMALL = ["hello {{ x }} {% for i in range(3) %}{{ i }}{% endfor %}",
         "HELLO {{ x }} {% for i in range(4) %}{{ i }},{% endfor %}"]
MEDIUM = ["{% macro m(a) %}[{{ a|upper }}]{% endmacro %}{{ m(x) }}{% set y = 3 %}"
          "{% for i in range(y) %}{{ loop.index }}:{{ i * 2 }}{% if not loop.last %}, {% endif %}"
          "{% endfor %}{{ {'k': x}|tojson }}",
          "{% macro m(a) %}<{{ a|lower }}>{% endmacro %}{{ m(x) }}{% set y = 2 %}"
          "{% for i in range(y) %}{{ loop.index0 }}={{ i + 5 }};{% endfor %}"]
BIG = ["".join(f"{{% if x %}}seg{i} {{{{ x }}}}{{% endif %}}\n" for i in range(60)),
       "".join(f"{{% if x %}}SEG{i} {{{{ x }}}}{{% endif %}}\n" for i in range(61))]
TEMPLATES = {"small": SMALL, "medium": MEDIUM, "big": BIG, "combined": COMBINED}


# ------------------------------------------------------------------ oracle
_expected = {}


def expected(tname, ver, optname="same", loader="dict", src_dir=None):
    """Recompile oracle: load+render the given source with no cache at all."""
    k = (tname, ver, optname)
    if k not in _expected:
        from jinja2 import DictLoader

        env = K.make_env(DictLoader({NAME: TEMPLATES[tname][ver]}), None, K.ENV_OPTIONS[optname])
        _expected[k] = K.load_render(env, NAME)
    return _expected[k]


def same(a, b):
    """Compare observations; for exceptions only stage and type are compared
    (messages may contain object addresses)."""
    if a[0] != b[0]:
        return False
    if a[0] == "ok":
        return a[1] == b[1]
    return a[1:3] == b[1:3]


# ------------------------------------------------------ entry dissection
def entry_regions(data):
    """(magic_end, code_start) — only used to NAME the mechanism of a
    violation, never to decide one."""
    import jinja2.bccache as B

    magic = getattr(B, "bc_magic", None)
    magic_end = len(magic) if isinstance(magic, bytes) and data.startswith(magic) else None
    code_start = None
    for o in range(len(data)):
        if data[o] & 0x7F == ord("c"):
            try:
                if isinstance(marshal.loads(data[o:]), types.CodeType):
                    code_start = o
                    break
            except Exception:
                continue
    return magic_end, code_start


def region_of(off, regions):
    magic_end, code_start = regions
    if code_start is not None and off >= code_start:
        return "code"
    if magic_end is not None and off < magic_end:
        return "magic"
    if magic_end is not None and code_start is not None:
        return "checksum"
    return "header"


def scratch_dir(prefix):
    """tempfile.mkdtemp, on tmpfs when there is one (the disk under /tmp is slow and shared)."""
    shm = "/dev/shm"
    base = shm if os.path.isdir(shm) and os.access(shm, os.W_OK | os.X_OK) else None
    return tempfile.mkdtemp(prefix=prefix, dir=base)


class Store:
    """A cache directory + source directory pair owned by the harness."""

    def __init__(self):
        self.root = scratch_dir("vt_c27_")
        self.n = 0

    def fresh(self):
        self.n += 1
        d = os.path.join(self.root, f"d{self.n:06d}")
        os.mkdir(d)
        c = os.path.join(d, "cache")
        s = os.path.join(d, "src")
        os.mkdir(c)
        os.mkdir(s)
        return c, s

    def drop(self, c):
        shutil.rmtree(os.path.dirname(c), ignore_errors=True)

    def close(self):
        shutil.rmtree(self.root, ignore_errors=True)


def wipe(d):
    for fn in os.listdir(d):
        p = os.path.join(d, fn)
        if os.path.isdir(p) and not os.path.islink(p):
            shutil.rmtree(p, ignore_errors=True)
        else:
            try:
                os.chmod(p, 0o600)
            except OSError:
                pass
            os.remove(p)


def fs_load(cache_dir, loader, optname="same"):
    from jinja2 import FileSystemBytecodeCache

    env = K.make_env(loader, FileSystemBytecodeCache(cache_dir), K.ENV_OPTIONS[optname])
    return K.load_render(env, NAME)


def mk_loader(kind, source, src_dir):
    return K.make_loader(kind, NAME, source, src_dir)


# --------------------------------------------------- (a) crash points
def forked(fn, arg):
    """Run fn(arg) in a forked child (own address space, dies on its own
    terms); returns (exit code, bytes the child wrote to its result pipe)."""
    r, w = os.pipe()
    sys.stdout.flush()
    sys.stderr.flush()
    pid = os.fork()
    if pid == 0:
        code = 3
        try:
            os.close(r)
            res = fn(arg)
            os.write(w, json.dumps(res).encode())
            code = 0
        except BaseException:  # noqa: BLE001
            import traceback

            try:
                os.write(w, ("CHILD-FAILED " + traceback.format_exc()[-1500:]).encode())
            except Exception:
                pass
        finally:
            os._exit(code)
    os.close(w)
    chunks = []
    while True:
        b = os.read(r, 65536)
        if not b:
            break
        chunks.append(b)
    os.close(r)
    _, status = os.waitpid(pid, 0)
    rc = os.waitstatus_to_exitcode(status)
    return rc, b"".join(chunks)


def writer_args(cache_dir, src_dir, lk, source, flush, **kw):
    log = os.path.join(os.path.dirname(cache_dir), "writer.log")
    if os.path.exists(log):
        os.remove(log)
    a = {"mode": "writer", "cache_dir": cache_dir, "src_dir": src_dir, "loader": lk,
         "name": NAME, "source": source, "flush": flush, "log": log, "crash_at": -1}
    a.update(kw)
    return a


def read_log(a):
    try:
        with open(a["log"]) as f:
            return json.load(f)
    except Exception:
        return None


def disk_state(cache_dir):
    """What a crash left behind: sorted [(kind, size)] (temp names are random)."""
    st = []
    for fn in os.listdir(cache_dir):
        p = os.path.join(cache_dir, fn)
        st.append(["tmp" if fn.endswith(".tmp") else "entry", os.path.getsize(p)])
    return sorted(st)


def state_class(st, final_sizes):
    out = []
    for kind, sz in st:
        out.append(f"{kind}-" + ("empty" if sz == 0 else
                                 ("complete" if sz in final_sizes else "partial-or-old")))
    return "+".join(out) or "nothing"


def setup_series(ctx, store, tname, lk, prior):
    cache_dir, src_dir = store.fresh()
    if prior:
        r = fs_load(cache_dir, mk_loader(lk, TEMPLATES[tname][0], src_dir))
        if not same(r, expected(tname, 0)):
            ctx.violation("crash:setup-load-wrong", f"{r}",
                          {"part": "crash", "tname": tname, "loader": lk, "prior": prior})
    return cache_dir, src_dir


def check_reader(ctx, cache_dir, src_dir, case, ev, how):
    """Load twice (fresh environments) through a directory a dead writer left."""
    tname, lk, k, flush = case["tname"], case["loader"], case["k"], case["flush"]
    tag = f"crash:{ev}:{'flushed' if flush else 'unflushed'}"
    full = dict(case, part="crash", event=ev, how=how)
    ctx.ev()
    try:
        res = K.reader({"mode": "reader", "cache_dir": cache_dir, "src_dir": src_dir,
                        "loader": lk, "name": NAME, "source": TEMPLATES[tname][1]})
    except BaseException as e:  # noqa: BLE001
        ctx.violation(tag + ":reader-died", f"{type(e).__name__}: {e}", full)
        return
    exp = expected(tname, 1)
    for which in ("r1", "r2"):
        ctx.count("reader_loads")
        r = res[which]
        if not same(r, exp):
            kind = f"reader-raises:{r[2]}" if r[0] == "exc" else "wrong-output"
            ctx.violation(f"{tag}:{kind}",
                          f"after the writer died at event #{k} ({ev}, {how}) load {which} with a "
                          f"fresh environment gave {r}, a fresh compile gives {exp}", full)
            break
    if res.get("clear"):
        ctx.violation(tag + ":clear-raises", res["clear"], full)


def crash_series(ctx, store, tname, lk, prior, flush, want, real_deaths, only_real=False):
    """One writer run in this process with directory snapshots at the events
    in `want(k)`; each snapshot is what a death at that event leaves.  For
    `real_deaths(k)` a forked writer really os._exit()s there as well and
    the two directory states are compared."""
    base = {"tname": tname, "loader": lk, "prior": prior, "flush": flush}
    cache_dir, src_dir = setup_series(ctx, store, tname, lk, prior)
    snap_dir = os.path.join(os.path.dirname(cache_dir), "snaps")
    os.mkdir(snap_dir)
    try:
        a = writer_args(cache_dir, src_dir, lk, TEMPLATES[tname][1], flush,
                        snap_dir=snap_dir, snap_ks=[k for k in range(1, 400) if want(k)])
        K.writer(a)
        rec = read_log(a)
        if rec is None or not rec["completed"]:
            ctx.inconc(f"instrumented writer run failed for {base}")
            return
        if not same(rec["out"], expected(tname, 1)):
            ctx.violation("crash:instrumented-run-wrong-output", f"{rec['out']}",
                          dict(base, part="crash", k=-1))
        events = rec["events"]
        final_sizes = {sz for kind, sz in disk_state(cache_dir) if kind == "entry"}
        if ctx.shard == 0 and not flush and not only_real:
            ctx.sample({"part": "crash", **base, "events_of_the_load": events})
            ctx.extra[f"crash_points_{tname}_{lk}_{int(prior)}"] = len(events)
        if not only_real:
            ctx.count("crash_series")
        for k in rec["snapped"]:
            ev = events[k - 1]
            sdir = os.path.join(snap_dir, f"k{k}")
            st = disk_state(sdir)
            case = dict(base, k=k)
            if not only_real:
                ctx.count("crash_cases")
                ctx.count("crash_write_events" if not ev.startswith("audit:")
                          else "crash_audit_events")
                ctx.count("disk_state:" + state_class(st, final_sizes))
                ctx.dist(("crash", tname, lk, prior, ev, events[:k].count(ev), flush))
                check_reader(ctx, sdir, src_dir, case, ev, "snapshot")
            if real_deaths(k):
                if ctx.out_of_time():
                    ctx.count("real_deaths_skipped_time")
                    continue
                c2, s2 = setup_series(ctx, store, tname, lk, prior)
                try:
                    a2 = writer_args(c2, s2, lk, TEMPLATES[tname][1], flush, crash_at=k)
                    tf = ctx.elapsed()
                    rc, out = forked(K.writer, a2)
                    ctx.extra["shard_seconds_in_fork"] = round(
                        ctx.extra.get("shard_seconds_in_fork", 0) + ctx.elapsed() - tf, 2)
                    rec2 = read_log(a2)
                    if rc != 77 or rec2 is None or rec2["completed"]:
                        ctx.count("real_death_not_reached")
                        continue
                    ctx.count("real_deaths")
                    if rec2["events"] != events[:k]:
                        ctx.count("real_death_event_trace_differs")
                    if disk_state(c2) == st:
                        ctx.count("real_death_state_equals_snapshot")
                    else:
                        ctx.count("real_death_state_differs_from_snapshot")
                    check_reader(ctx, c2, s2, case, ev, "os._exit")
                finally:
                    store.drop(c2)
    finally:
        store.drop(cache_dir)


def crash_plan(quick):
    combos = [("small", "dict", False), ("small", "dict", True), ("small", "fs", True),
              ("big", "dict", False), ("big", "dict", True)]
    if not quick:
        combos += [("small", "fs", False), ("big", "fs", True), ("medium", "dict", True),
                   ("combined", "fs", True), ("medium", "fs", False)]
    return combos


def part_crash(ctx, store, quick, real=False):
    """real=False: every crash point as a directory snapshot.  real=True: the
    writer is really killed (forked child, os._exit) at the same points and
    the directory it leaves is compared with the snapshot and loaded from.
    Process creation is very expensive on the shared machine, so quick does
    that for the 16 points of one series (one per shard), thorough for all."""
    si = 0
    for tname, lk, prior in crash_plan(quick):
        for flush in (False, True):
            si += 1
            if real and quick and si != 4:
                continue
            if ctx.out_of_time():
                if real:
                    ctx.count("real_deaths_skipped_time")
                else:
                    ctx.inconc("time box hit inside the crash-point enumeration")
                return
            crash_series(ctx, store, tname, lk, prior, flush,
                         want=lambda k, _s=si: ctx.mine(_s * 400 + k),
                         real_deaths=lambda k: real, only_real=real)


def crash_case(ctx, store, case):
    """Replay of one crash point (snapshot and real death)."""
    k = case["k"]
    crash_series(ctx, store, case["tname"], case["loader"], case["prior"], case["flush"],
                 want=lambda kk: kk == k, real_deaths=lambda kk: True)


# --------------------------------------------- (b) damaged / foreign entries
def stored_entry(cache_dir, loader):
    """Load once through an empty directory; return (path, bytes) of the entry."""
    wipe(cache_dir)
    r = fs_load(cache_dir, loader)
    files = os.listdir(cache_dir)
    if len(files) != 1:
        return r, None, None
    p = os.path.join(cache_dir, files[0])
    with open(p, "rb") as f:
        return r, p, f.read()


def put(path, data):
    if os.path.isdir(path):
        shutil.rmtree(path)
    with open(path, "wb") as f:
        f.write(data)


def check_damaged(ctx, cache_dir, loader, exp, path, key, what, case):
    """Two loads (fresh environments) through a directory holding a damaged entry."""
    for i in (1, 2):
        r = fs_load(cache_dir, loader)
        ctx.ev()
        if not same(r, exp):
            kind = f"raises" if r[0] == "exc" else "wrong-output"
            ctx.violation(f"{key}:{kind}", f"{what}: load #{i} gave {r}, fresh compile gives {exp}",
                          case)
            return False
    return True


def foreign_buckets(code, checksum):
    """Entries as written by the real Bucket code of an interpreter that
    reports another version: a private copy of jinja2.bccache is executed
    with sys.version_info spoofed (never registered in sys.modules)."""
    import collections

    import jinja2.bccache as B

    VI = collections.namedtuple("version_info", "major minor micro releaselevel serial")
    out = []
    real = sys.version_info
    for major, minor in ((3, real[1] - 1), (3, real[1] + 1), (3, 8), (3, 10), (3, 14), (4, 0),
                         (2, 7)):
        try:
            spec = importlib.util.spec_from_file_location("jinja2._c27_foreign_bccache", B.__file__)
            mod = importlib.util.module_from_spec(spec)
            sys.version_info = VI(major, minor, 0, "final", 0)
            try:
                spec.loader.exec_module(mod)
            finally:
                sys.version_info = real
            b = mod.Bucket(None, "k", checksum)
            b.code = code
            out.append((f"{major}.{minor}", b.bytecode_to_string()))
        except Exception:
            sys.version_info = real
            continue
    return out


def part_damaged(ctx, store, quick):
    import jinja2.bccache as B

    plan = [("small", "dict", 1), ("small", "fs", 1)]
    if quick:
        plan += [("big", "dict", 97)]
    else:
        plan += [("combined", "dict", 1), ("medium", "dict", 1), ("medium", "fs", 1),
                 ("combined", "fs", 1), ("big", "dict", 7), ("big", "fs", 13)]
    cache_dir, src_dir = store.fresh()
    idx = 0
    for tname, lk, stride in plan:
        src = TEMPLATES[tname][0]
        loader = mk_loader(lk, src, src_dir)
        exp = expected(tname, 0)
        r, path, data = stored_entry(cache_dir, loader)
        if path is None or not same(r, exp):
            ctx.inconc(f"could not obtain a stored entry for {tname}/{lk}: {r}")
            continue
        regions = entry_regions(data)
        if ctx.shard == 0:
            ctx.extra[f"entry_len_{tname}_{lk}"] = len(data)
        header_end = regions[1] if regions[1] is not None else min(len(data), 80)
        # -- every truncation offset (stride > 1 only inside the payload of the big entry)
        offs = [o for o in range(len(data)) if o < header_end + 40 or o % stride == 0
                or o > len(data) - 40]
        for off in offs:
            idx += 1
            if not ctx.mine(idx):
                continue
            if ctx.out_of_time():
                ctx.inconc("time box hit inside the truncation enumeration")
                return
            put(path, data[:off])
            reg = region_of(off, regions)
            ctx.count("trunc_offsets")
            ctx.count("trunc_region_" + reg)
            ctx.dist(("trunc", tname, lk, off))
            check_damaged(ctx, cache_dir, loader, exp, path, f"truncated-entry:{reg}-region",
                          f"entry of {len(data)} bytes truncated to {off} bytes ({reg} region)",
                          {"part": "trunc", "tname": tname, "loader": lk, "off": off})
        # -- every single-byte change of the header before the checksum ("another magic");
        #    the payload is valid marshal data of DIFFERENT code (what another interpreter's
        #    or cache version's entry is), so trusting the entry shows in the output
        magic_end = regions[0] if regions[0] is not None else 2
        code_start = regions[1]
        other_payload = None
        if code_start is not None:
            from jinja2 import Environment

            ocode = Environment().compile("FOREIGN CODE {{ x }}", NAME, None)
            other_payload = marshal.dumps(ocode)
        for pos in range(magic_end):
            for delta in (1, 0x80):
                idx += 1
                if not ctx.mine(idx):
                    continue
                d2 = bytearray(data)
                d2[pos] = (d2[pos] + delta) % 256
                if other_payload is not None:
                    d2 = d2[:code_start] + other_payload
                put(path, bytes(d2))
                ctx.count("header_byte_flips")
                ctx.dist(("flip", tname, lk, pos, delta))
                check_damaged(ctx, cache_dir, loader, exp, path, "foreign-header",
                              f"header byte {pos} changed by {delta}, payload = other code",
                              {"part": "flip", "tname": tname, "loader": lk, "pos": pos,
                               "delta": delta})
        # -- entries of another interpreter version (real writer code, spoofed version)
        code_start = regions[1]
        if code_start is not None:
            code = marshal.loads(data[code_start:])
            bc = B.BytecodeCache()
            checksum = bc.get_source_checksum(src)
            for ver, blob in foreign_buckets(code, checksum):
                for payload in ("own", "garbage", "other-code"):
                    idx += 1
                    if not ctx.mine(idx):
                        continue
                    if blob == data:
                        ctx.count("foreign_version_same_bytes")
                        continue
                    head = blob[:len(blob) - len(data) + code_start]
                    b2 = blob if payload == "own" else head + (
                        b"\x00\xffnot marshal data of this interpreter\x00" * 3
                        if payload == "garbage" else other_payload)
                    put(path, b2)
                    ctx.count("foreign_version_entries")
                    ctx.dist(("foreign", tname, lk, ver, payload))
                    check_damaged(ctx, cache_dir, loader, exp, path, "foreign-interpreter-entry",
                                  f"entry written by interpreter {ver} ({payload} payload)",
                                  {"part": "foreign", "tname": tname, "loader": lk, "ver": ver,
                                   "payload": payload})
        # -- other placements
        for kind in ("other-template", "other-source", "directory", "unreadable", "empty"):
            idx += 1
            if not ctx.mine(idx):
                continue
            ctx.count("misc_entries")
            ctx.dist(("misc", tname, lk, kind))
            case = {"part": "misc", "tname": tname, "loader": lk, "kind": kind}
            if kind in ("other-template", "other-source"):
                other = "medium" if tname != "medium" else "small"
                osrc = TEMPLATES[other][0] if kind == "other-template" else TEMPLATES[tname][1]
                c2, s2 = store.fresh()
                _, p2, d2 = stored_entry(c2, mk_loader(lk, osrc, s2))
                store.drop(c2)
                if d2 is None:
                    continue
                put(path, d2)
            elif kind == "directory":
                if os.path.exists(path):
                    os.remove(path)
                os.mkdir(path)
            elif kind == "unreadable":
                put(path, data)
                os.chmod(path, 0)
            else:
                put(path, b"")
            check_damaged(ctx, cache_dir, loader, exp, path, f"entry-replaced-by:{kind}",
                          f"entry replaced by {kind}", case)
            wipe(cache_dir)
    store.drop(cache_dir)


# ------------------------------------ (c) shared directory, two environments
SH_OPS = ("l1", "l2", "m", "c")


def shared_history(ctx, store, case):
    from jinja2 import DictLoader, FileSystemBytecodeCache, FileSystemLoader

    tname, lk, opt, hist = case["tname"], case["loader"], case["opt"], case["hist"]
    cache_dir, src_dir = store.fresh()
    try:
        ver = 0
        srcs = TEMPLATES[tname]
        if lk == "dict":
            mapping = {NAME: srcs[0]}
            mk = lambda: DictLoader(mapping)  # noqa: E731
        else:
            sp = os.path.join(src_dir, NAME)
            with open(sp, "w", encoding="utf-8") as f:
                f.write(srcs[0])
            mk = lambda: FileSystemLoader(src_dir)  # noqa: E731
        opts = ["same", opt]
        caches = [FileSystemBytecodeCache(cache_dir), FileSystemBytecodeCache(cache_dir)]
        envs = [K.make_env(mk(), caches[i], K.ENV_OPTIONS[opts[i]]) for i in (0, 1)]
        probes = [0]
        last_hit = [False]
        for i in (0, 1):  # harness-side probe: did the cache hand out code?
            orig = caches[i].get_bucket

            def get_bucket(*a, _o=orig, **kw):
                b = _o(*a, **kw)
                last_hit[0] = getattr(b, "code", None) is not None
                if last_hit[0]:
                    probes[0] += 1
                return b

            caches[i].get_bucket = get_bucket
        for step, op in enumerate(hist):
            if op == "m":
                ver ^= 1
                if lk == "dict":
                    mapping[NAME] = srcs[ver]
                else:
                    with open(sp, "w", encoding="utf-8") as f:
                        f.write(srcs[ver])
                continue
            if op == "c":
                try:
                    caches[0].clear()
                except Exception as e:
                    ctx.violation(f"shared-cache:clear-raises:{type(e).__name__}", str(e), case)
                continue
            i = 0 if op == "l1" else 1
            last_hit[0] = False
            r = K.load_render(envs[i], NAME)
            ctx.ev()
            ctx.count("shared_loads")
            exp = expected(tname, ver, opts[i])
            if not same(r, exp):
                other_env = expected(tname, ver, opts[1 - i])
                old_src = [expected(tname, 1 - ver, o) for o in opts]
                if any(same(r, o) for o in old_src):
                    key = "shared-cache:stale-source"
                elif opt != "same" and (same(r, other_env) or last_hit[0]):
                    # the cache handed out code although only the differently configured
                    # environment can have stored it for this source
                    key = f"shared-cache:other-config-code:{opt}"
                elif r[0] == "exc":
                    key = f"shared-cache:raises:{opt}"
                else:
                    key = f"shared-cache:wrong-output:{opt}"
                ctx.violation(key,
                              f"history {hist} step {step}: environment #{i + 1} ({opts[i]}) sharing "
                              f"the cache directory with one configured as ({opts[1 - i]}) got "
                              f"{r}; compiling the current source in the loading environment gives "
                              f"{exp}", case)
                return
        ctx.count("shared_cache_hits", probes[0])
    finally:
        store.drop(cache_dir)


def part_shared(ctx, store, quick):
    L = 4 if quick else 5
    hists = []
    for n in range(1, L + 1):
        for pre in itertools.product(SH_OPS, repeat=n - 1):
            for last in ("l1", "l2"):
                hists.append(list(pre) + [last])
    combos = [("combined", "dict"), ("combined", "fs")] if quick else \
        [("combined", "dict"), ("combined", "fs"), ("medium", "dict"), ("small", "fs")]
    idx = 0
    for tname, lk in combos:
        for opt in K.ENV_OPTIONS:
            for hist in hists:
                idx += 1
                if not ctx.mine(idx):
                    continue
                if ctx.out_of_time():
                    ctx.inconc("time box hit inside the shared-directory histories")
                    return
                case = {"part": "shared", "tname": tname, "loader": lk, "opt": opt, "hist": hist}
                ctx.count("shared_histories")
                if len(hist) >= 2:
                    ctx.dist(("shared", tname, lk, opt, hist))
                shared_history(ctx, store, case)
    if ctx.shard == 0:
        ctx.sample({"part": "shared", "tname": "combined", "loader": "dict", "opt": "autoescape",
                    "hist": ["l1", "m", "l2", "l1"]})


# ------------------------------------------------------------- (d) memcached
class ClientError(Exception):
    pass


class FakeClient:
    """Scripted memcache client.  script: list of (get_mode, set_mode) per
    load; modes: get ok|raise|none|trunc:<n>|other ; set ok|raise|drop."""

    def __init__(self, ctx):
        self.store = {}
        self.get_mode = "ok"
        self.set_mode = "ok"
        self.raised = []
        self.ctx = ctx
        self.other = None

    def get(self, key):
        self.ctx.count("memcached_client_get")
        m = self.get_mode
        if m == "raise":
            e = ClientError("get failed")
            self.raised.append(e)
            raise e
        v = self.store.get(key)
        if m == "none" or v is None:
            return None
        if m.startswith("trunc:"):
            return v[: int(m[6:])]
        if m == "other":
            return self.other
        return v

    def set(self, key, value, timeout=None):
        self.ctx.count("memcached_client_set")
        m = self.set_mode
        if m == "raise":
            e = ClientError("set failed")
            self.raised.append(e)
            raise e
        if m == "drop":
            return
        self.store[key] = bytes(value)


def mem_script(ctx, case):
    from jinja2 import DictLoader, MemcachedBytecodeCache

    tname, ignore, script = case["tname"], case["ignore"], case["script"]
    cl = FakeClient(ctx)
    srcs = TEMPLATES[tname]
    mapping = {NAME: srcs[0]}
    ver = 0
    # another key's bytes: a genuine entry for a different template
    c2 = FakeClient(ctx)
    e2 = K.make_env(DictLoader({NAME: TEMPLATES["medium" if tname != "medium" else "small"][0]}),
                    MemcachedBytecodeCache(c2))
    K.load_render(e2, NAME)
    cl.other = next(iter(c2.store.values()), b"")
    kw = {"ignore_memcache_errors": ignore}
    if case.get("timeout") is not None:
        kw["timeout"] = case["timeout"]
    regions = None
    for step, (gm, sm, mod) in enumerate(script):
        if mod:
            ver ^= 1
            mapping[NAME] = srcs[ver]
        cl.get_mode, cl.set_mode = gm, sm
        env = K.make_env(DictLoader(mapping), MemcachedBytecodeCache(cl, **kw))
        nraised = len(cl.raised)
        try:
            t = env.get_template(NAME)
            exc = None
        except BaseException as e:  # noqa: BLE001
            exc = e
        ctx.ev()
        ctx.count("memcached_loads")
        exp = expected(tname, ver)
        if exc is not None:
            if not ignore and len(cl.raised) > nraised and exc is cl.raised[-1]:
                ctx.count("memcached_client_error_propagated")
                continue            # documented: errors are only swallowed when ignoring
            reg = ""
            if gm.startswith("trunc:"):
                if regions is None and cl.store:
                    regions = entry_regions(next(iter(cl.store.values())))
                reg = region_of(int(gm[6:]), regions) if regions else "header"
                key = f"truncated-entry:{reg}-region:raises"
            else:
                key = f"memcached:get={gm}:set={sm}:ignore={'on' if ignore else 'off'}:raises:" \
                      f"{type(exc).__name__}"
            ctx.violation(key, f"script {script} step {step}: get_template raised "
                               f"{type(exc).__name__}: {exc}", case)
            return
        try:
            r = ["ok", t.render(**K.render_ctx())]
        except BaseException as e:  # noqa: BLE001
            r = ["exc", "render", type(e).__name__, str(e)[:200]]
        if not same(r, exp):
            gmk = "trunc" if gm.startswith("trunc:") else gm
            ctx.violation(f"memcached:get={gmk}:set={sm}:wrong-output",
                          f"script {script} step {step}: got {r}, fresh compile gives {exp}", case)
            return


def part_memcached(ctx, quick):
    from jinja2 import DictLoader, MemcachedBytecodeCache

    idx = 0
    tnames = ["small", "combined"] if quick else ["small", "combined", "medium"]
    gets = ["ok", "raise", "none", "other", "trunc:0", "trunc:20", "trunc:40", "trunc:100"]
    sets = ["ok", "raise", "drop"]
    for tname in tnames:
        # entry length for the exhaustive truncation sweep
        c0 = FakeClient(ctx)
        K.load_render(K.make_env(DictLoader({NAME: TEMPLATES[tname][0]}), MemcachedBytecodeCache(c0)),
                      NAME)
        n = len(next(iter(c0.store.values()), b""))
        if n == 0:
            ctx.inconc("memcached cache stored nothing")
            continue
        for ignore in (True, False):
            # two-load scripts: populate under set_mode, then load under get_mode (+/- modify)
            for sm0 in sets:
                for gm in gets:
                    for sm1 in sets:
                        for mod in (False, True):
                            for timeout in ((None, 30) if (gm, sm1) == ("ok", "ok") else (None,)):
                                idx += 1
                                if not ctx.mine(idx):
                                    continue
                                script = [["ok", sm0, False], [gm, sm1, mod], ["ok", "ok", False]]
                                ctx.dist(("mem", tname, ignore, script, timeout))
                                mem_script(ctx, {"part": "mem", "tname": tname, "ignore": ignore,
                                                 "script": script, "timeout": timeout})
            # every truncation offset of the stored value
            if quick and tname != "small":
                continue
            for off in range(n):
                idx += 1
                if not ctx.mine(idx):
                    continue
                if quick and not ignore and off > 120 and off % 4:
                    continue    # quick: with ignore off only the header densely
                if ctx.out_of_time():
                    ctx.inconc("time box hit inside the memcached enumeration")
                    return
                script = [["ok", "ok", False], [f"trunc:{off}", "ok", False]]
                ctx.count("memcached_trunc_offsets")
                ctx.dist(("memtrunc", tname, ignore, off))
                mem_script(ctx, {"part": "mem", "tname": tname, "ignore": ignore, "script": script})


# ------------------------------------------- (f) two writers at the same time
DUEL_RELATIONS = {"other-source": (1, 0), "other-source-reversed": (0, 1), "same-source": (1, 1)}


def event_names(events):
    """Event k -> 'write.pre#2' (occurrence number within the load)."""
    seen = {}
    out = []
    for ev in events:
        seen[ev] = seen.get(ev, 0) + 1
        out.append(f"{ev}#{seen[ev]}")
    return out


def phase_of(names, k):
    """Where in its load a writer was stopped: before it began to write the
    entry, while writing it, or after the last write (before / at the rename)."""
    if "write_bytecode.enter#1" not in names[:k]:
        return "before-writing"
    if "write_bytecode.exit#1" in names[:k]:
        return "after-writing"
    return "while-writing"


def duel_case(ctx, store, case):
    """Writer A stops at its event pause_a, the second actor (writer B for the
    same key, or clear()) runs to its event pause_b / to completion, A
    finishes, B finishes.  Afterwards every source either writer held is
    loaded twice by fresh environments through a copy of the directory."""
    tname, lk, rel = case["tname"], case["loader"], case["relation"]
    va, vb = DUEL_RELATIONS[rel]
    srcs = TEMPLATES[tname]
    cache_dir, src_dir = store.fresh()
    try:
        if case["prior"]:
            fs_load(cache_dir, mk_loader(lk, srcs[1 - va], src_dir))
        res = K.duel({"cache_dir": cache_dir, "src_dir": src_dir, "loader": lk, "name": NAME,
                      "source_a": srcs[va], "source_b": srcs[vb], "pause_a": case["pause_a"],
                      "pause_b": case["pause_b"], "flush": case["flush"],
                      "second": case["second"]})
        if res["timed_out"]:
            ctx.inconc(f"two-writer schedule did not finish: {case}")
            return None
        ctx.ev()
        ctx.count("duel_cases")
        na = event_names(res["events_a"])
        nb = event_names(res["events_b"])
        a_at = na[case["pause_a"] - 1] if res["a_paused_at"] else None
        b_at = nb[case["pause_b"] - 1] if res["b_paused_at"] else None
        if a_at is None:
            ctx.count("duel_first_writer_not_interrupted")
        else:
            ctx.count("duel_first_writer_interrupted")
            ctx.count("duel_interrupted_at_" + ("audit-event" if a_at.startswith("audit:")
                                                else "write-event"))
            if case["second"] == "clear":
                ctx.count("duel_clear_in_between")
            elif b_at is None:
                ctx.count("duel_second_writer_complete_in_between")
            else:
                ctx.count("duel_both_writers_interrupted")
            if va != vb and case["second"] == "writer":
                ctx.count("duel_writers_hold_different_sources")
        sched = (f"second={case['second']}:{rel}:first-stopped="
                 f"{phase_of(na, case['pause_a']) if a_at else 'never'}:second-stopped="
                 f"{phase_of(nb, case['pause_b']) if b_at else 'never'}:"
                 f"{'flushed' if case['flush'] else 'unflushed'}")
        for who, out, ver in (("first", res["a"], va), ("second", res["b"], vb)):
            if who == "second" and case["second"] == "clear":
                if out[0] != "ok":
                    ctx.violation(f"two-writers:{sched}:clear-raises:{out[2]}",
                                  f"clear() while a writer was stopped at {a_at}: {out}", case)
                continue
            if not same(out, expected(tname, ver)):
                kind = f"writer-raises:{out[2]}" if out[0] == "exc" else "writer-wrong-output"
                ctx.violation(f"two-writers:{sched}:{kind}",
                              f"the {who} writer (source version {ver}) got {out}; compiling its "
                              f"source gives {expected(tname, ver)}", case)
                return res
        # what is on disk now must serve every source correctly (or miss)
        for ver in sorted({va, vb}):
            copy = cache_dir + f".after{ver}"
            shutil.copytree(cache_dir, copy)
            try:
                loader = mk_loader(lk, srcs[ver], src_dir)
                exp = expected(tname, ver)
                for i in (1, 2):
                    r = fs_load(copy, loader)
                    ctx.ev()
                    ctx.count("duel_loads")
                    if not same(r, exp):
                        other = expected(tname, 1 - ver)
                        kind = ("other-sources-code" if same(r, other) else
                                f"reader-raises:{r[2]}" if r[0] == "exc" else "wrong-output")
                        ctx.violation(
                            f"two-writers:{sched}:{kind}",
                            f"{tname}/{lk}: writer A (source v{va}) stopped at its event "
                            f"#{case['pause_a']} ({a_at}), {case['second']} B (source v{vb}) "
                            f"{'stopped at ' + b_at if b_at else 'ran to completion'}, then A "
                            f"finished{', then B' if b_at else ''}; afterwards load #{i} of source "
                            f"v{ver} by a fresh environment gave {r}, compiling it gives {exp}",
                            case)
                        return res
            finally:
                shutil.rmtree(copy, ignore_errors=True)
        return res
    finally:
        store.drop(cache_dir)


def duel_plan(quick):
    """[(tname, loader, prior, relation, flush, second, full)]; full = every
    stop point of the second writer as well (else it runs to completion)."""
    plan = []
    combos = [("small", "dict", False), ("big", "fs", True)] if quick else \
        [("small", "dict", False), ("big", "fs", True), ("small", "fs", True), ("big", "dict", False),
         ("medium", "dict", True), ("combined", "fs", False)]
    for ci, (tname, lk, prior) in enumerate(combos):
        for rel in DUEL_RELATIONS:
            for flush in (True, False):
                full = (rel != "same-source" or ci == 0) if not quick else \
                    (rel == "other-source" and flush and ci == 0)
                plan.append((tname, lk, prior, rel, flush, "writer", full))
        plan.append((tname, lk, prior, "same-source", True, "clear", False))
    return plan


def duel_events(store, tname, lk, prior):
    """Number of I/O events of one undisturbed load (probe: a first writer that
    is never stopped, clear() as the second actor)."""
    cache_dir, src_dir = store.fresh()
    try:
        if prior:
            fs_load(cache_dir, mk_loader(lk, TEMPLATES[tname][0], src_dir))
        res = K.duel({"cache_dir": cache_dir, "src_dir": src_dir, "loader": lk, "name": NAME,
                      "source_a": TEMPLATES[tname][1], "source_b": None, "pause_a": -1,
                      "pause_b": 0, "flush": False, "second": "clear"})
        return len(res["events_a"])
    finally:
        store.drop(cache_dir)


def part_duel(ctx, store, quick):
    idx = 0
    nevs = {}
    for tname, lk, prior, rel, flush, second, full in duel_plan(quick):
        base = {"part": "duel", "tname": tname, "loader": lk, "prior": prior, "relation": rel,
                "flush": flush, "second": second}
        if (tname, lk, prior) not in nevs:
            nevs[tname, lk, prior] = duel_events(store, tname, lk, prior)
            if ctx.shard == 0:
                ctx.extra[f"duel_events_{tname}_{lk}_{int(prior)}"] = nevs[tname, lk, prior]
        nev = nevs[tname, lk, prior]
        if nev < 5:
            ctx.inconc(f"a load through the file-system cache shows only {nev} I/O events")
            continue
        for k in range(1, nev + 1):
            for j in ([0] + list(range(1, nev + 1)) if full else [0]):
                if quick and j and (k + j + ctx.seed) % 2:
                    continue        # quick: half of the (k, j) matrix, the other half with the next seed
                idx += 1
                if not ctx.mine(idx):
                    continue
                if ctx.out_of_time():
                    ctx.inconc("time box hit inside the two-writer schedules")
                    return
                if duel_case(ctx, store, dict(base, pause_a=k, pause_b=j)) is None:
                    return
                ctx.dist(("duel", tname, lk, prior, rel, flush, second, k, j))
    if ctx.shard == 0:
        ctx.sample({"part": "duel", "tname": "small", "loader": "dict", "prior": False,
                    "relation": "other-source", "flush": True, "second": "writer",
                    "pause_a": 11, "pause_b": 0})


# ----------------------------------- (e) near-identical sources (minimal edits)
EDIT_BASES = {
    "data": "Hello {{ x }}\nnext line\n",
    "blocks": "{% if x %}\n yes\n{% endif %}\n{# c #}\nend",
    "literal": "{{ 'a b' ~ x }}\r\n{% set y = 'q r' %}{{ y }}|e\u0301",
}
# replacement / inserted characters, by class
EDIT_CHARS = [
    ("space", " "), ("space", "\t"),
    ("newline", "\n"), ("newline", "\r"), ("newline", "\r\n"),
    # what str.splitlines / Unicode call a line boundary but the template lexer does not
    ("unicode-line-boundary", "\x0b"), ("unicode-line-boundary", "\x0c"),
    ("unicode-line-boundary", "\x1c"), ("unicode-line-boundary", "\x1d"),
    ("unicode-line-boundary", "\x1e"), ("unicode-line-boundary", "\x85"),
    ("unicode-line-boundary", "\u2028"), ("unicode-line-boundary", "\u2029"),
    ("unicode-space", "\xa0"), ("unicode-space", "\u3000"), ("unicode-space", "\u2003"),
    ("zero-width", "\ufeff"), ("zero-width", "\u200b"),
    ("combining", "\u0301"), ("letter", "a"), ("letter", "A"), ("letter", "\xe9"),
    ("letter", "\uff41"), ("digit", "7"), ("punctuation", "-"),
]
_CHAR_CLASS = {c: k for k, c in EDIT_CHARS}
EDIT_CONFIGS = {
    "default": {},
    "keep_trailing_newline": {"keep_trailing_newline": True},
    "trim_lstrip": {"trim_blocks": True, "lstrip_blocks": True},
    "crlf_keep": {"newline_sequence": "\r\n", "keep_trailing_newline": True},
}
EDIT_BACKENDS = ("fs", "memcached")


def char_class(ch):
    if ch in _CHAR_CLASS:
        return _CHAR_CLASS[ch]
    if ch.isspace():
        return "space"
    if ch.isalpha():
        return "letter"
    if ch.isdigit():
        return "digit"
    return "punctuation"


def apply_edit(base, kind, pos, ch):
    if kind == "sub":
        return base[:pos] + ch + base[pos + 1:]
    if kind == "ins":
        return base[:pos] + ch + base[pos:]
    return base[:pos] + base[pos + 1:]        # del


def edit_variants(base):
    """Every single-character substitution / insertion (characters of
    EDIT_CHARS) / deletion at every position of ``base``."""
    for pos in range(len(base) + 1):
        for _, ch in EDIT_CHARS:
            if pos < len(base):
                yield "sub", pos, ch
            yield "ins", pos, ch
        if pos < len(base):
            yield "del", pos, ""


def edit_where(base, kind, pos):
    if kind == "ins" and pos == len(base) or kind != "ins" and pos == len(base) - 1:
        return "at-end"
    if pos == 0:
        return "at-start"
    return "inside"


def edit_history(ctx, store, a, b, case, cls, where, descr, prefix="edit"):
    """load(A) -> source becomes B -> load(B) -> source back to A -> load(A)
    through ONE bytecode cache, every load by a fresh environment of the same
    configuration.  Returns False when A and B render the same and
    ``prefix`` is not 'edit' (such a pair cannot show a stale entry)."""
    from jinja2 import DictLoader, FileSystemBytecodeCache, MemcachedBytecodeCache

    opts = EDIT_CONFIGS[case["config"]]
    exp = {}
    for src in (a, b):
        ek = (src, case["config"])
        if ek not in _edit_expected:
            if len(_edit_expected) > 4000:
                _edit_expected.clear()
            _edit_expected[ek] = K.load_render(K.make_env(DictLoader({NAME: src}), None, opts), NAME)
        exp[src] = _edit_expected[ek]
    if prefix != "edit" and same(exp[a], exp[b]):
        ctx.count(prefix + "_rendering_unchanged_not_run")
        return False
    ctx.count(prefix + "_cases")
    ctx.count(f"{prefix}_class_{cls}")
    if where:
        ctx.count(f"{prefix}_{where}")
    if not same(exp[a], exp[b]):
        ctx.count(prefix + "_changes_the_rendering")
        if exp[a][0] == "ok" and exp[b][0] == "ok":
            ctx.count(prefix + "_both_sources_render")
    cache_dir = None
    if case["backend"] == "fs":
        cache_dir, _ = store.fresh()
        mk = lambda: FileSystemBytecodeCache(cache_dir)  # noqa: E731
    else:
        cl = FakeClient(ctx)
        mk = lambda: MemcachedBytecodeCache(cl)  # noqa: E731
    try:
        mapping = {}
        for step, src in enumerate((a, b, a)):
            mapping[NAME] = src
            r = K.load_render(K.make_env(DictLoader(mapping), mk(), opts), NAME)
            ctx.ev()
            ctx.count(prefix + "_loads")
            if same(r, exp[src]):
                continue
            prev = (b, a, b)[step]
            if same(r, exp[prev]):
                key = f"near-identical-source:stale-code:{cls}" + (f":{where}" if where else "")
            elif r[0] == "exc":
                key = f"near-identical-source:raises:{r[2]}:{cls}"
            else:
                key = f"near-identical-source:wrong-output:{cls}"
            if case["config"] != "default":
                key += ":" + case["config"]
            ctx.violation(key,
                          f"source {a!r} edited to {b!r} ({descr}) and back, one "
                          f"{case['backend']} bytecode cache, configuration {opts}: load #{step + 1} "
                          f"of {src!r} gave {r}; compiling that source gives {exp[src]}", case)
            return True
    finally:
        if cache_dir is not None:
            store.drop(cache_dir)
    return True


_edit_expected = {}


def edit_case(ctx, store, case):
    """A and B one character apart."""
    a = EDIT_BASES[case["base"]]
    kind, pos, ch = case["kind"], case["pos"], case["ch"]
    b = apply_edit(a, kind, pos, ch)
    if a == b:
        return
    # class of the character that comes in (sub / ins) or goes away (del)
    cls = f"{kind}:{char_class(ch if kind != 'del' else a[pos])}"
    edit_history(ctx, store, a, b, case, cls, edit_where(a, kind, pos), f"{kind} at {pos}")


def part_edits(ctx, store, quick):
    """quick: every edit inside the source once, configuration and backend
    rotating from edit to edit, edits of the first / last character under every
    configuration; thorough: every edit under every configuration."""
    confs = list(EDIT_CONFIGS)
    idx = 0
    for bname, base in EDIT_BASES.items():
        for kind, pos, ch in edit_variants(base):
            for ci, conf in enumerate(confs):
                idx += 1
                if quick and edit_where(base, kind, pos) == "inside" and \
                        ci != (idx // len(confs)) % len(confs):
                    continue
                if not ctx.mine(idx // len(confs)):
                    continue
                if ctx.out_of_time():
                    ctx.inconc("time box hit inside the minimal-edit enumeration")
                    return
                case = {"part": "edit", "base": bname, "kind": kind, "pos": pos, "ch": ch,
                        "config": conf, "backend": EDIT_BACKENDS[(idx // 7) % 2]}
                ctx.dist(("edit", bname, kind, pos, ch, conf))
                edit_case(ctx, store, case)
    if ctx.shard == 0:
        ctx.sample({"part": "edit", "base": "data", "kind": "sub", "pos": 13, "ch": "\x0c",
                    "config": "default", "backend": "fs"})


# ------------------------- (g) near-identical sources (structured edits)
SEDIT_BASES = {
    "numbers": "Total: {{ 121 }} of {{ 3405 }}\n{% for i in range(13) %}{{ i }},{% endfor %}\n"
               "ID-2031 {{ 7 * 16 }}\n",
    "words": "{% set t = 'cab fade' %}{{ t }} Abc dEf ab-ba\n{{ x }} and {{ 'Zed'|lower }}\nlast line",
    "lines": "First {{ x }}\n{% if x %}seCond{% endif %}\n{{ 'third' }}\n{# note #}\nfourth\n",
}
LONG_BASE = "".join(f"row {i:04d} lorem ipsum dolor sit amet" + (" {{ x }}" if i % 16 == 0 else "")
                    + "\n" for i in range(290))


def sedit_case(ctx, store, case):
    """A and B differ by one structured edit (same length, mostly the same
    multiset of characters / sum of code units / set of lines)."""
    if case["base"] == "long":
        a = LONG_BASE
        descr = f"one character replaced at offset {case['params'][0]} of {len(a)}"
    else:
        a = SEDIT_BASES[case["base"]]
        descr = f"{case['klass']} {case['params']}"
    b = case["b"]
    return edit_history(ctx, store, a, b, case, case["klass"], None, descr, prefix="sedit")


def sedit_variants(quick):
    from vt.gen import c27_sedits as S

    for bname, base in SEDIT_BASES.items():
        for klass, params, new in S.variants(base, quick):
            yield bname, klass, params, new
    for pos in S.long_source_positions(len(LONG_BASE)):
        ch = "#" if LONG_BASE[pos] != "#" else "+"
        yield "long", "long-source-one-character", [pos], LONG_BASE[:pos] + ch + LONG_BASE[pos + 1:]


def part_sedits(ctx, store, quick):
    """quick: every structured edit once, configuration and backend rotating
    from edit to edit; thorough: every edit under every configuration."""
    confs = list(EDIT_CONFIGS)
    idx = 0
    for bname, klass, params, new in sedit_variants(quick):
        idx += 1
        if not ctx.mine(idx):
            continue
        for ci, conf in enumerate(confs):
            if quick and ci != (idx // 3) % len(confs):
                continue
            if ctx.out_of_time():
                ctx.inconc("time box hit inside the structured-edit enumeration")
                return
            case = {"part": "sedit", "base": bname, "klass": klass, "params": params, "b": new,
                    "config": conf, "backend": EDIT_BACKENDS[(idx // 5 + ci) % 2]}
            if sedit_case(ctx, store, case):
                ctx.dist(("sedit", bname, klass, params, conf))
    if ctx.shard == 0:
        b = SEDIT_BASES["numbers"]
        ctx.sample({"part": "sedit", "base": "numbers", "klass": "swap-adjacent", "params": [10],
                    "b": b[:10] + b[11] + b[10] + b[12:], "config": "default", "backend": "fs"})


# ------------- (h) one file / one source reachable under several template names
# A template's compiled code depends on the NAME it was requested by (Template.name, ``self``,
# and -- through the documented override point Environment.join_path -- what a relative
# include / extends / import refers to).  Loader topologies that reach one file under
# several names, all loads going through one cache.
ALIAS_KINDS = {
    "plain": ("v{V} plain {{ x }}", None, None),
    "self": ("v{V} [{{ self }}]", None, None),
    "include-relative": ("v{V} [{% include './part.html' %}]", "SUB-PART {{ x }}", "ROOT-PART {{ x }}"),
    "extends-relative": ("{% extends './part.html' %}{% block b %}v{V}{% endblock %}",
                         "<SUB {% block b %}{% endblock %}>", "<ROOT {% block b %}{% endblock %}>"),
    "import-relative": ("{% from './part.html' import tag %}v{V} {{ tag(x) }}",
                        "{% macro tag(a) %}SUB({{ a }}){% endmacro %}",
                        "{% macro tag(a) %}ROOT({{ a }}){% endmacro %}"),
}
ALIAS_TOPOLOGIES = {  # topology -> names of the SAME main template
    "fs-nested-searchpath": ["sub/index.html", "index.html", "site/sub/index.html"],
    "choice-of-fs": ["sub/index.html", "index.html"],
    "choice-of-prefix-and-fs": ["p/index.html", "sub/index.html"],
    "prefix-two-mounts": ["a/sub/index.html", "b/index.html"],
    "function-loader-one-file": ["sub/index.html", "index.html", "alt/index.html"],
    "dict-same-source": ["sub/index.html", "index.html"],
}
_alias_env_classes = {}


def alias_env(loader, bcc):
    """Environment resolving './x' relative to the referring template (join_path is the
    documented override point for this)."""
    import posixpath

    from jinja2 import Environment

    cls = _alias_env_classes.get("env")
    if cls is None:
        class RelativeEnvironment(Environment):
            def join_path(self, template, parent):
                if template.startswith("./"):
                    return posixpath.normpath(posixpath.join(posixpath.dirname(parent), template))
                return template

        cls = _alias_env_classes["env"] = RelativeEnvironment
    return cls(loader=loader, bytecode_cache=bcc, cache_size=0)


def alias_write(src_dir, kind, ver):
    main, sub_part, root_part = ALIAS_KINDS[kind]
    root = os.path.join(src_dir, "site")
    os.makedirs(os.path.join(root, "sub"), exist_ok=True)
    files = {"sub/index.html": main.replace("{V}", str(ver))}
    if sub_part is not None:
        files["sub/part.html"] = sub_part
        files["part.html"] = root_part
    for rel, text in files.items():
        with open(os.path.join(root, rel), "w", encoding="utf-8") as f:
            f.write(text)
    return files


def alias_loader(topo, src_dir, files):
    from jinja2 import ChoiceLoader, DictLoader, FileSystemLoader, FunctionLoader, PrefixLoader

    root = os.path.join(src_dir, "site")
    sub = os.path.join(root, "sub")
    if topo == "fs-nested-searchpath":
        return FileSystemLoader([root, sub, src_dir])
    if topo == "choice-of-fs":
        return ChoiceLoader([FileSystemLoader(root), FileSystemLoader(sub)])
    if topo == "choice-of-prefix-and-fs":
        return ChoiceLoader([PrefixLoader({"p": FileSystemLoader(sub)}), FileSystemLoader(root)])
    if topo == "prefix-two-mounts":
        # (PrefixLoader hands the name without the prefix to the mounted loader, so relative
        # references resolve without it: the fallback loader serves those)
        return ChoiceLoader([PrefixLoader({"a": FileSystemLoader(root), "b": FileSystemLoader(sub)}),
                             FileSystemLoader(root)])
    if topo == "function-loader-one-file":
        def load(name):
            parts = name.split("/")
            if ".." in parts:
                return None
            for p in (os.path.join(root, *parts), os.path.join(sub, parts[-1])):
                if os.path.isfile(p):
                    with open(p, encoding="utf-8") as f:
                        return f.read(), p, lambda: False
            return None

        return FunctionLoader(load)
    mapping = dict(files)  # the same SOURCE under several names, no file name at all
    mapping["index.html"] = files["sub/index.html"]
    return DictLoader(mapping)


def alias_observe(env, name):
    try:
        t = env.get_template(name)
    except BaseException as e:  # noqa: BLE001
        return ["exc", "load", type(e).__name__, str(e)[:200]]
    try:
        return ["ok", [t.render(**K.render_ctx()), t.name]]
    except BaseException as e:  # noqa: BLE001
        return ["exc", "render", type(e).__name__, str(e)[:200]]


_alias_ref = {}


def alias_history(ctx, store, case):
    from jinja2 import FileSystemBytecodeCache

    topo, kind, envmode, hist = case["topo"], case["kind"], case["envmode"], case["hist"]
    names = ALIAS_TOPOLOGIES[topo]
    cache_dir, src_dir = store.fresh()
    try:
        ver = 0
        files = alias_write(src_dir, kind, ver)

        def ref(name):  # recompile oracle: same loaders, same environment class, no cache
            k = (topo, kind, name, ver)
            if k not in _alias_ref:
                _alias_ref[k] = alias_observe(alias_env(alias_loader(topo, src_dir, files), None), name)
            return _alias_ref[k]

        one = alias_env(alias_loader(topo, src_dir, files), FileSystemBytecodeCache(cache_dir)) \
            if envmode == "one" else None
        held = set()  # names a cache entry for the current source may exist for
        for step, op in enumerate(hist):
            if op == "m":
                ver ^= 1
                files = alias_write(src_dir, kind, ver)
                if one is not None and topo == "dict-same-source":
                    one.loader.mapping.update(alias_loader(topo, src_dir, files).mapping)
                held = set()
                continue
            if op == "c":
                try:
                    FileSystemBytecodeCache(cache_dir).clear()
                except Exception as e:
                    ctx.violation(f"alias:clear-raises:{type(e).__name__}", str(e), case)
                held = set()
                continue
            name = names[int(op[1:])]
            env = one if one is not None else alias_env(
                alias_loader(topo, src_dir, files), FileSystemBytecodeCache(cache_dir))
            r = alias_observe(env, name)
            ctx.ev()
            ctx.count("alias_loads")
            exp = ref(name)
            others = [n for n in names if n != name]
            if held - {name}:
                ctx.count("alias_loads_after_another_name_of_the_file")
                if any(not same(ref(n), exp) for n in held - {name}):
                    ctx.count("alias_loads_after_another_name_that_renders_differently")
            held.add(name)
            if not same(r, exp):
                if r[0] == "ok" and exp[0] == "ok" and r[1][0] == exp[1][0]:
                    key = f"alias:{topo}:template-name-of-another-name"
                elif any(same(r, ref(n)) for n in others):
                    key = f"alias:{topo}:code-of-another-name:{kind}"
                elif r[0] == "exc":
                    key = f"alias:{topo}:raises:{kind}"
                else:
                    key = f"alias:{topo}:wrong-output:{kind}"
                ctx.violation(key,
                              f"history {hist} step {step}: loading {name!r} (names of the same "
                              f"template here: {names}, source version {ver}, {envmode} environment"
                              f"{'s' if envmode == 'fresh' else ''}) through the cache gave "
                              f"[rendering, Template.name] {r}; compiling the current source under "
                              f"that name without a cache gives {exp}", case)
                return
    finally:
        store.drop(cache_dir)


def alias_plan(quick):
    out = []
    for topo, names in ALIAS_TOPOLOGIES.items():
        for nn, L in ((2, 3),) if quick else ((2, 4), (3, 3)):
            if nn > len(names) or (nn == 2 and not quick and len(names) > 2):
                continue
            ops = [f"l{i}" for i in range(nn)] + ["m", "c"]
            for n in range(1, L + 1):
                for pre in itertools.product(ops, repeat=n - 1):
                    for last in ops[:nn]:
                        out.append((topo, list(pre) + [last]))
    return out


def part_alias(ctx, store, quick):
    idx = 0
    for topo, hist in alias_plan(quick):
        for kind in ALIAS_KINDS:
            for ei, envmode in enumerate(("fresh", "one")):
                idx += 1
                if quick and ei != (idx // 2) % 2:
                    continue
                if not ctx.mine(idx):
                    continue
                if ctx.out_of_time():
                    ctx.inconc("time box hit inside the several-names-one-file histories")
                    return
                case = {"part": "alias", "topo": topo, "kind": kind, "envmode": envmode, "hist": hist}
                ctx.count("alias_histories")
                ctx.count("alias_topology_" + topo)
                ctx.count("alias_kind_" + kind)
                if len({o for o in hist if o.startswith("l")}) >= 2:
                    ctx.dist(("alias", topo, kind, envmode, hist))
                alias_history(ctx, store, case)
    if ctx.shard == 0:
        ctx.sample({"part": "alias", "topo": "fs-nested-searchpath", "kind": "include-relative",
                    "envmode": "fresh", "hist": ["l0", "l1"]})


# ----------------------------------------------------------------- driver
def warm():
    """Import and exercise everything once in the harness process so that
    forked children do not pay import / lexer construction cost."""
    import jinja2.sandbox  # noqa: F401

    for tname in TEMPLATES:
        for ver in (0, 1):
            for opt in K.ENV_OPTIONS:
                expected(tname, ver, opt)


def run(ctx):
    quick = ctx.tier == "quick"
    store = Store()
    try:
        warm()
        for name, fn in (("crash", lambda: part_crash(ctx, store, quick)),
                         ("damaged", lambda: part_damaged(ctx, store, quick)),
                         ("shared", lambda: part_shared(ctx, store, quick)),
                         ("memcached", lambda: part_memcached(ctx, quick)),
                         ("edits", lambda: part_edits(ctx, store, quick)),
                         ("sedits", lambda: part_sedits(ctx, store, quick)),
                         ("alias", lambda: part_alias(ctx, store, quick)),
                         ("duel", lambda: part_duel(ctx, store, quick)),
                         ("real_deaths", lambda: part_crash(ctx, store, quick, real=True))):
            t0 = ctx.elapsed()
            fn()
            ctx.extra[f"shard_seconds_{name}"] = round(ctx.elapsed() - t0, 2)
    finally:
        store.close()


def replay(ctx, case):
    store = Store()
    try:
        warm()
        part = case.get("part")
        if part == "crash":
            crash_case(ctx, store, case)
        elif part == "shared":
            shared_history(ctx, store, case)
        elif part == "mem":
            mem_script(ctx, case)
        elif part == "edit":
            edit_case(ctx, store, case)
        elif part == "sedit":
            sedit_case(ctx, store, case)
        elif part == "duel":
            duel_case(ctx, store, case)
        elif part == "alias":
            alias_history(ctx, store, case)
        else:
            replay_damaged(ctx, store, case)
    finally:
        store.close()


def replay_damaged(ctx, store, case):
    import jinja2.bccache as B

    cache_dir, src_dir = store.fresh()
    tname, lk = case["tname"], case["loader"]
    src = TEMPLATES[tname][0]
    loader = mk_loader(lk, src, src_dir)
    exp = expected(tname, 0)
    r, path, data = stored_entry(cache_dir, loader)
    regions = entry_regions(data)
    part = case["part"]
    if part == "trunc":
        put(path, data[:case["off"]])
        key = f"truncated-entry:{region_of(case['off'], regions)}-region"
    elif part == "flip":
        from jinja2 import Environment

        d2 = bytearray(data)
        d2[case["pos"]] = (d2[case["pos"]] + case["delta"]) % 256
        if regions[1] is not None:
            d2 = d2[:regions[1]] + marshal.dumps(
                Environment().compile("FOREIGN CODE {{ x }}", NAME, None))
        put(path, bytes(d2))
        key = "foreign-header"
    elif part == "foreign":
        code = marshal.loads(data[regions[1]:])
        checksum = B.BytecodeCache().get_source_checksum(src)
        blob = dict(foreign_buckets(code, checksum))[case["ver"]]
        if case["payload"] != "own":
            from jinja2 import Environment

            blob = blob[:len(blob) - len(data) + regions[1]] + (
                b"\x00\xffnot marshal data\x00" * 3 if case["payload"] == "garbage" else
                marshal.dumps(Environment().compile("FOREIGN CODE {{ x }}", NAME, None)))
        put(path, blob)
        key = "foreign-interpreter-entry"
    else:
        kind = case["kind"]
        key = f"entry-replaced-by:{kind}"
        if kind in ("other-template", "other-source"):
            other = "medium" if tname != "medium" else "small"
            osrc = TEMPLATES[other][0] if kind == "other-template" else TEMPLATES[tname][1]
            c2, s2 = store.fresh()
            _, p2, d2 = stored_entry(c2, mk_loader(lk, osrc, s2))
            put(path, d2)
        elif kind == "directory":
            os.remove(path)
            os.mkdir(path)
        elif kind == "unreadable":
            os.chmod(path, 0)
        else:
            put(path, b"")
    check_damaged(ctx, cache_dir, loader, exp, path, key, json.dumps(case), case)
