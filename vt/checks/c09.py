"""C09 — async mode renders exactly what sync mode renders."""
from __future__ import annotations

import asyncio

from vt import util
from vt.gen import corpus, exprgen

PID = "C09"
LEVEL = "exploration"
TECHNIQUE = "differential monitor: sync environment vs async environment of the same class on the same program, through render / render_async / generate / generate_async, with plain and asyncified data"
RULE = ("generated programs (expressions, statement programs, inheritance chains, include/import sets) "
        "rendered by Environment, SandboxedEnvironment, ImmutableSandboxedEnvironment and "
        "NativeEnvironment with enable_async False and True; async side through render(), "
        "asyncio render_async, ''.join(generate()), collected generate_async; then with data "
        "asyncified where the documentation promises support (callables -> coroutine functions, "
        "iterables used at for-sites -> async generators); outputs must be equal or raise the same "
        "class; include/import sets additionally through a history (render, then "
        "get_template(name, globals=...) and render again, twice) whose outcome sequence must be the "
        "same in the sync and the async environment; single-pass streams: one data name bound to a "
        "single-pass iterator (sync generator in the sync environment; in the async environment the same "
        "generator, a list iterator, a true async generator or a class-based single-pass async iterator "
        "producing the same items) and consumed 2-5 times in one template by for loops (plain, with "
        "loop attributes, with a test, with break) and by every filter that has an async variant, so that "
        "each consumer sees what the earlier (partial or full) consumers left over. "
        "distinct = program shapes x environment class")
LEVEL_TEXT = "held on the generated programs only"
ASSUMPTIONS = [
    "iterables are asyncified only where used exclusively as `for` iterables",
    "native results compared by value and type",
]
NSHARDS = {"quick": 16, "thorough": 16}
BUDGET_S = {"quick": 22, "thorough": 500}
FLOORS = {
    "quick": {"evaluations": 4000, "distinct": 500,
              "counters": {"entry_compares": 4000, "asyncified_compares": 500,
                           "cls_Native": 100, "cls_Sandboxed": 100, "cls_Immutable": 100,
                           "async_filter_programs": 100, "local_autoescape_programs": 100,
                           "quirky_object_compares": 100, "template_globals_history_steps": 300,
                           "undefined_type_StrictUndefined": 40,
                           "single_pass_compares": 800, "single_pass_reuse_after_partial": 500,
                           "single_pass_async_generator_compares": 400}},
    "thorough": {"evaluations": 80000, "distinct": 8000,
                 "counters": {"entry_compares": 80000, "asyncified_compares": 10000,
                              "cls_Native": 2000, "cls_Sandboxed": 2000, "cls_Immutable": 2000,
                              "async_filter_programs": 2000, "local_autoescape_programs": 2000,
                              "quirky_object_compares": 100, "template_globals_history_steps": 6000,
                              "undefined_type_StrictUndefined": 800,
                              "single_pass_compares": 16000, "single_pass_reuse_after_partial": 10000,
                              "single_pass_async_generator_compares": 8000}},
}


def env_classes():
    import jinja2
    from jinja2.nativetypes import NativeEnvironment
    from jinja2.sandbox import ImmutableSandboxedEnvironment, SandboxedEnvironment

    return {"Environment": jinja2.Environment, "Sandboxed": SandboxedEnvironment,
            "Immutable": ImmutableSandboxedEnvironment, "Native": NativeEnvironment}


class AsyncObj(exprgen.Obj):
    async def meth(self, x=0):
        await asyncio.sleep(0)
        return x + 1000


class AIter:
    """Re-iterable async iterable (a list can be looped over many times)."""

    def __init__(self, xs):
        self.xs = xs

    def __aiter__(self):
        async def g():
            for x in self.xs:
                await asyncio.sleep(0)
                yield x
        return g()


def agen_of(xs):
    return AIter(xs)


def asyncify(case, data):
    """Replace values by async equivalents (fresh objects per call)."""
    out = dict(data)
    k = case["kind"]
    n = 0
    if k == "expr":
        o = data["o1"]
        out["o1"] = AsyncObj({kk: v for kk, v in o.__dict__.items() if kk != "_items"}, o._items)
        n += 1
    elif k == "stmt":
        for name in ("L1", "L2"):
            out[name] = agen_of(list(data[name]))
            n += 1
    elif k == "inherit":
        out["items"] = agen_of(list(data["items"]))
        n += 1
    elif k == "loop":
        out["seq"] = agen_of(list(data["seq"]))
        n += 1
    elif k == "afilter":
        # every use of these names is the input of a filter with an async variant
        for name in ("recs", "nums", "words"):
            out[name] = agen_of(list(data[name]))
            n += 1
    return out, n


def outcome(o):
    return ("ok", o.value) if o.ok else ("exc", type(o.exc).__name__)


def same(a, b, native):
    if a.ok and b.ok:
        if native:
            return util.struct_eq(a.value, b.value) or (a.value == b.value and type(a.value) is type(b.value))
        return a.value == b.value
    if not a.ok and not b.ok:
        return type(a.exc) is type(b.exc)
    return False


def check_case(ctx, case, clsname, undefined=None):
    cls = env_classes()[clsname]
    native = clsname == "Native"
    kw = {}
    if undefined is not None:
        import jinja2

        kw["undefined"] = getattr(jinja2, undefined)
        ctx.count("undefined_type_" + undefined)
    senv = corpus.make_env(case, cls=cls, **kw)
    aenv = corpus.make_env(case, cls=cls, enable_async=True, **kw)
    name = case["main"]
    base = util.capture(lambda: senv.get_template(name).render(corpus.realize_data(case, senv)))
    ctx.count("cls_" + clsname)

    def data(asyncified=False):
        d = corpus.realize_data(case, aenv)
        if asyncified:
            d, _ = asyncify(case, d)
        return d

    def entries(asyncified):
        t = lambda: aenv.get_template(name)
        out = {
            "render": util.capture(lambda: t().render(data(asyncified))),
            "render_async": util.capture(lambda: util.run_async(t().render_async(data(asyncified)))),
        }
        if not native:
            out["generate"] = util.capture(lambda: "".join(t().generate(data(asyncified))))

            async def collect():
                return "".join([x async for x in t().generate_async(data(asyncified))])
            out["generate_async"] = util.capture(lambda: util.run_async(collect()))
        return out

    viol = lambda key, what: ctx.violation(key, what + f" | sources={corpus.sources(case)} data={case['data']}",
                                           {"case": case, "cls": clsname})
    for en, o in entries(False).items():
        ctx.ev()
        ctx.count("entry_compares")
        if not same(base, o, native):
            viol(f"parity:{clsname}:{en}", f"sync {base!r} vs async-env {en} {o!r}")
            return
    _, n = asyncify(case, corpus.realize_data(case, aenv))
    if n:
        for en, o in entries(True).items():
            ctx.ev()
            ctx.count("asyncified_compares")
            if not same(base, o, native):
                viol(f"parity-asyncified:{clsname}:{en}:{case['kind']}",
                     f"sync {base!r} vs async-env {en} with async data {o!r}")
                return
    ctx.dist([clsname, corpus.shape(case)])


def check_globals_history(ctx, case, clsname):
    """The same history in a sync and an async environment: the include/import set is rendered
    (imported modules get cached), then the main template is fetched again WITH template
    globals (get_template(name, globals=...)) and rendered with data that no longer shadows
    them; imports without context must see the importer's globals the same way in both."""
    cls = env_classes()[clsname]
    seqs = {}
    for mode in ("sync", "async"):
        env = corpus.make_env(case, cls=cls, enable_async=(mode == "async"))
        name = case["main"]
        seq = []

        def rend(t, d):
            if mode == "async" and len(seq) % 2:
                return util.capture(lambda: util.run_async(t.render_async(d)))
            return util.capture(lambda: t.render(d))

        d = corpus.realize_data(case, env)
        seq.append(outcome(rend(env.get_template(name), d)))
        for step, tg in enumerate(({"p": "TP1", "q": "TQ1"}, {"p": "TP2", "lv": "TL2"})):
            d = {k: v for k, v in corpus.realize_data(case, env).items() if k not in tg}
            seq.append(outcome(rend(env.get_template(name, globals=dict(tg)), d)))
            # every other template of the set, too (they import each other)
            for other in sorted(case["asts"]):
                if other != name and other.startswith("m"):
                    seq.append(outcome(rend(env.get_template(other, globals=dict(tg)), d)))
        seqs[mode] = seq
        ctx.ev(len(seq))
    ctx.count("template_globals_history_steps", len(seqs["sync"]))
    if seqs["sync"] != seqs["async"]:
        i = next(i for i, (a, b) in enumerate(zip(seqs["sync"], seqs["async"], strict=False)) if a != b)
        ctx.violation(f"parity-history:template-globals:{clsname}",
                      f"step {i} of render / get_template(name, globals=...) history: sync {seqs['sync'][i]!r} vs "
                      f"async {seqs['async'][i]!r} | sources={corpus.sources(case)} data={case['data']}",
                      {"case": case, "cls": clsname, "history": True})


class DotDict(dict):
    """The common recipe: unknown attributes answer None instead of raising."""
    __getattr__ = dict.get


class Chatty:
    """Answers every attribute (also protocol probes) with another Chatty / a value."""

    def __init__(self, depth=0):
        self._d = depth

    def __getattr__(self, name):
        if name.startswith("__") and name.endswith("__") and name not in ("__html__",):
            if name in ("__await__", "__aiter__", "__anext__"):
                return None if self._d % 2 else 0   # present but meaningless
            raise AttributeError(name)
        return Chatty(self._d + 1) if self._d < 2 else f"leaf-{name}"

    def __str__(self):
        return f"chatty{self._d}"

    def method(self, x=1):
        return DotDict(r=x, inner=DotDict(z=x + 1))


QUIRKY_TEMPLATES = [
    "{{ dd.inner.a }}|{{ dd['inner']['a'] }}|{{ dd.nope }}|{{ dd.inner }}",
    "{% for k in dd.inner %}{{ k }}={{ dd.inner[k] }};{% endfor %}{{ dd.inner|length }}",
    "{{ ch.x.y }}|{{ ch.x }}|{{ ch.method(3).r }}|{{ ch.method().inner.z }}",
    "{% set v = dd.inner %}{{ v.a + 1 }}{% if dd.flag %}T{% else %}F{% endif %}{{ dd.inner is mapping }}",
    "{% macro m(o) %}{{ o.a }}{% endmacro %}{{ m(dd.inner) }}{{ [dd.inner, dd]|length }}{{ dd.inner|string }}",
    "{{ ch.x.y.z }}|{{ ch|string }}|{% with c = ch.x %}{{ c.q }}{% endwith %}",
]


def check_quirky(ctx):
    """Data objects whose __getattr__ answers unknown names: async mode must treat them as
    plain values exactly like sync mode does."""
    for clsname, cls in env_classes().items():
        if clsname == "Native":
            continue
        for src in QUIRKY_TEMPLATES:
            mk = lambda: {"dd": DotDict(inner=DotDict(a=1, b=2), flag=0), "ch": Chatty()}
            senv, aenv = cls(), cls(enable_async=True)
            a = util.capture(lambda: senv.from_string(src).render(mk()))
            for en, f in (("render", lambda: aenv.from_string(src).render(mk())),
                          ("render_async", lambda: util.run_async(aenv.from_string(src).render_async(mk())))):
                b = util.capture(f)
                ctx.ev()
                ctx.count("quirky_object_compares")
                if not same(a, b, False):
                    ctx.violation(f"parity-quirky-getattr:{clsname}:{en}",
                                  f"sync {a!r} vs async {b!r} for {src!r} with data objects whose __getattr__ answers "
                                  f"unknown names", {"quirky": src, "cls": clsname})

# ---- single-pass streams consumed several times in one template --------------------------------

class AOnce:
    """Class-based single-pass async iterator (its __aiter__ returns itself)."""

    def __init__(self, xs):
        self._it = iter(xs)

    def __aiter__(self):
        return self

    async def __anext__(self):
        await asyncio.sleep(0)
        try:
            return next(self._it)
        except StopIteration:
            raise StopAsyncIteration from None


def _sync_gen(xs):
    yield from xs


async def _async_gen(xs):
    for x in xs:
        await asyncio.sleep(0)
        yield x


SP_STREAMS = {"gen": _sync_gen, "iter": iter, "agen": _async_gen, "aonce": AOnce}

# (name, source, partial): consumers of the stream `g`; partial = may stop before the stream is exhausted.
# Only for loops and filters that have an async variant (the documentation promises async iterables there).
SP_COMMON = [
    ("first", "{{ g|first }}", True),
    ("list", "{{ g|list }}", False),
    ("join", "{{ g|join('%(sep)s') }}", False),
    ("for", "{%% for x in g %%}<{{ x }}>{%% else %%}E{%% endfor %%}", False),
    ("for-loopattrs", "{%% for x in g %%}{{ loop.index }}={{ x }}{%% if not loop.last %%},{%% endif %%}{%% endfor %%}", False),
    ("for-break", "{%% for x in g %%}{{ x }}{%% if loop.index >= %(k)d %%}{%% break %%}{%% endif %%}{%% endfor %%}", True),
    ("for-continue", "{%% for x in g %%}{%% if loop.index is odd %%}{%% continue %%}{%% endif %%}{{ x }}{%% endfor %%}", False),
    ("slice", "{{ g|slice(%(k)d)|list }}", False),
    ("unique", "{{ g|unique|list }}", False),
    ("unique-first", "{{ g|unique|first }}", True),
    ("map-string-list", "{{ g|map('string')|list }}", False),
    ("map-string-first", "{{ g|map('string')|first }}", True),
    ("set-first", "{%% set h = g|first %%}{{ h }}", True),
    ("if-first", "{%% if g|first is defined %%}Y{%% else %%}N{%% endif %%}", True),
]
SP_FORMS = {
    "nums": SP_COMMON + [
        ("sum", "{{ g|sum }}", False),
        ("select-list", "{{ g|select('odd')|list }}", False),
        ("reject-list", "{{ g|reject('gt', %(k)d)|list }}", False),
        ("select-first", "{{ g|select('even')|first }}", True),
        ("reject-first", "{{ g|reject('lt', %(k)d)|first }}", True),
        ("for-test", "{%% for x in g if x is odd %%}{{ x }};{%% endfor %%}", False),
    ],
    "words": SP_COMMON + [
        ("map-upper-join", "{{ g|map('upper')|join('%(sep)s') }}", False),
        ("select-first", "{{ g|select('upper')|first }}", True),
        ("reject-list", "{{ g|reject('eq', 'a')|list }}", False),
        ("for-test", "{%% for x in g if x is lower %%}{{ x }};{%% endfor %%}", False),
    ],
    "recs": SP_COMMON + [
        ("mapattr-list", "{{ g|map(attribute='id')|list }}", False),
        ("mapattr-first", "{{ g|map(attribute='id')|first }}", True),
        ("sumattr", "{{ g|sum(attribute='id') }}", False),
        ("selectattr-list", "{{ g|selectattr('a')|map(attribute='id')|list }}", False),
        ("selectattr-first", "{{ (g|selectattr('a')|first).id }}", True),
        ("rejectattr-first", "{{ (g|rejectattr('a', 'eq', 1)|first).id }}", True),
        ("groupby", "{%% for k, items in g|groupby('a') %%}{{ k }}:{{ items|length }};{%% endfor %%}", False),
        ("joinattr", "{{ g|join('%(sep)s', attribute='id') }}", False),
        ("first-attr", "{{ (g|first).id }}", True),
    ],
}


def gen_single_pass(rng):
    pick = lambda xs: xs[rng.randrange(len(xs))]
    kind = pick(["nums", "words", "recs"])
    n = rng.randint(0, 7)
    if kind == "nums":
        items = [rng.randint(0, 6) for _ in range(n)]
    elif kind == "words":
        items = [pick(["a", "A", "b", "B", "c"]) for _ in range(n)]
    else:
        items = [{"id": i, "a": pick([0, 1, 2])} for i in range(n)]
    uses = []
    parts = []
    for j in range(rng.randint(2, 5)):
        name, src, partial = pick(SP_FORMS[kind])
        uses.append(name)
        parts.append(src % {"k": rng.randint(1, 3), "sep": pick([",", "", "-"])})
    # a partial consumer that is followed by another consumer of the same stream
    table = {nm: p for nm, _, p in SP_FORMS[kind]}
    reuse = any(table[u] for u in uses[:-1])
    # the true async generator always, plus one of the other single-pass stream kinds
    streams = ["agen", pick(["aonce", "gen", "iter"])]
    return {"single_pass": True, "streams": streams, "stream_items": kind, "items": items, "uses": uses, "parts": parts,
            "src": "".join(f"[u{j}:{p}]" for j, p in enumerate(parts)),
            "reuse_after_partial": reuse}


def check_single_pass(ctx, case, clsname):
    """Sync environment + sync generator is the reference; the async environment of the same class gets
    a single-pass stream of the same items (sync or async) and must render the same through every entry."""
    cls = env_classes()[clsname]
    native = clsname == "Native"
    src, items = case["src"], case["items"]
    senv = cls(extensions=corpus.EXTENSIONS)
    aenv = cls(extensions=corpus.EXTENSIONS, enable_async=True)
    base = util.capture(lambda: senv.from_string(src).render(g=_sync_gen(list(items))))
    ctx.count("cls_" + clsname)
    def entries(source, sname):
        t = lambda: aenv.from_string(source)
        mk = lambda: {"g": SP_STREAMS[sname](list(items))}
        ents = {"render": lambda: t().render(mk()),
                "render_async": lambda: util.run_async(t().render_async(mk()))}
        if not native:
            ents["generate"] = lambda: "".join(t().generate(mk()))

            async def collect():
                return "".join([x async for x in t().generate_async(mk())])
            ents["generate_async"] = lambda: util.run_async(collect())
        return ents

    bad = False
    for sname in case.get("streams") or sorted(SP_STREAMS):
        for en, f in entries(src, sname).items():
            o = util.capture(f)
            ctx.ev()
            ctx.count("single_pass_compares")
            if sname == "agen":
                ctx.count("single_pass_async_generator_compares")
            if case["reuse_after_partial"]:
                ctx.count("single_pass_reuse_after_partial")
            if same(base, o, native):
                continue
            bad = True
            # localize the mechanism: which consumer leaves the stream in a different state (or renders
            # differently) in async mode?  probe = that consumer alone, then the leftovers as a list.
            found = 0
            seen = []
            for use, part in zip(case["uses"], case["parts"], strict=True):
                if part in seen:
                    continue
                seen.append(part)
                probe = part + "|{{ g|list }}"
                pb = util.capture(lambda: senv.from_string(probe).render(g=_sync_gen(list(items))))
                po = util.capture(entries(probe, sname)[en])
                ctx.ev()
                ctx.count("single_pass_localization_probes")
                if not same(pb, po, False):
                    found += 1
                    ctx.violation(f"parity-single-pass:leftover-after:{use}:{sname}",
                                  f"{clsname} {en}: consumer then `g|list` on the same single-pass stream: sync env + "
                                  f"generator {pb!r} vs async env with {sname} stream {po!r} | probe={probe!r} "
                                  f"items={items!r} (found in src={src!r}: {base!r} vs {o!r})",
                                  {"single_pass": case, "cls": clsname})
            if not found:
                ctx.violation(f"parity-single-pass:sequence:{sname}:{'+'.join(case['uses'])}",
                              f"{clsname} {en}: sync env + generator {base!r} vs async env with single-pass {sname} "
                              f"stream {o!r} | src={src!r} items={items!r} uses={case['uses']}",
                              {"single_pass": case, "cls": clsname})
            break   # one entry per stream kind is enough once it diverges
    if bad:
        return
    ctx.dist([clsname, "single_pass", case["stream_items"], case["uses"], len(items)])


def corpus_unwrap(body):
    """Undo a previous localize() wrap (used to re-wrap expression programs with a constant flag)."""
    out = []
    for st in body:
        if st[0] == "autoescape":
            out.extend(st[2])
        else:
            out.append(st)
    return out


def run(ctx):
    rng = ctx.rng("c09")
    rng_sp = ctx.rng("c09-single-pass")
    n = 1200 if ctx.tier == "quick" else 30000
    names = list(env_classes())
    if ctx.shard % 4 == 0:
        check_quirky(ctx)
    i = 0
    while ctx.more(i, n, floor=60):
        case = corpus.gen_case(rng, kinds=("expr", "stmt", "inherit", "incimp", "loop", "afilter", "afilter"))
        clsname = names[i % len(names)]
        if case["kind"] == "afilter":
            ctx.count("async_filter_programs")
        if case["kind"] in ("stmt", "expr", "loop", "inherit") and i % 3 == 1:
            # escaping switched on locally (environment autoescape stays off), data with markup
            from vt.checks import c16

            case = c16.heat(case, rng)
            flag = ["name", "aeflag"] if i % 2 else ["const", True]
            case["asts"] = {n: c16.localize(b, flag, case["kind"] == "inherit") for n, b in case["asts"].items()}
            if "$expr" not in case["data"]:
                case["data"]["aeflag"] = True
            else:
                case["asts"] = {n: [["set", "aeflag", ["const", True]]] + b if n == case["main"] else b
                                for n, b in case["asts"].items()} if False else case["asts"]
                flag = ["const", True]
                case["asts"] = {n: c16.localize(corpus_unwrap(b), flag) for n, b in case["asts"].items()}
            ctx.count("local_autoescape_programs")
        if clsname == "Native" and case["kind"] in ("incimp",):
            clsname = "Environment"   # native module/str concat of includes is C34 territory
        check_case(ctx, case, clsname)
        if i % 4 == 1 and clsname != "Native":
            # other undefined types (not DebugUndefined: it prints class names of the data objects):
            # what raises in sync mode raises in async mode
            check_case(ctx, case, clsname, undefined=["StrictUndefined", "ChainableUndefined"][(i // 4) % 2])
        if case["kind"] == "incimp":
            check_globals_history(ctx, case, clsname)
        if i % 3 == 2:
            sp = gen_single_pass(rng_sp)
            check_single_pass(ctx, sp, names[(i // 3) % len(names)])
            if i < 6:
                ctx.sample({"single_pass": sp["src"], "items": sp["items"]})
        if i < 2:
            ctx.sample({"sources": corpus.sources(case), "cls": clsname})
        i += 1


def replay(ctx, case):
    if "quirky" in case:
        return check_quirky(ctx)
    if "single_pass" in case:
        return check_single_pass(ctx, case["single_pass"], case["cls"])
    if case.get("history"):
        return check_globals_history(ctx, case["case"], case["cls"])
    check_case(ctx, case["case"], case["cls"])
