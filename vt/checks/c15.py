"""C15 — autoescaping never lets unescaped data or string literals into the output.

Generated multi-file templates (vt.gen.c15_gen / c15_ir) are rendered with the
real jinja2 under static, selector-based and runtime-decided autoescaping; the
output is scanned for raw metacharacters (vt.model.c15_oracle); every leak is
delta-debugged to a minimal template whose remaining constructs form the
mechanism key."""
from __future__ import annotations

import random as _random
import re

from vt.gen import c15_gen as G
from vt.gen import c15_ir as IR
from vt.model import c15_oracle as O

PID = "C15"
LEVEL = "exploration"
TECHNIQUE = ("nonce-tagged taint tracking through generated templates (incl. i18n extension) + delta-debugged leak "
             "classification + filter-result probe for filtered set blocks")
RULE = ("typed random template IR: data strings and string literals whose every HTML metacharacter is "
        "surrounded by a unique 5-digit nonce, pushed through every built-in filter (data-controlled "
        "arguments; xmlattr also with data-controlled and nonce'd literal attribute NAMES that pass the documented "
        "key validation - metacharacters < \" ' & - as dict-display keys, data dicts, dict(**d) / dict(d) / "
        "dict(d|items) / dict(d.items()) calls, optionally through {% set %}; urlize also over long URLs (http/https/www, "
        "metacharacters in path, query or fragment, metacharacter-free remainder) with a trim_url_limit placed relative "
        "to the URL's own metacharacters - just after the first one, at / shortly past the end of each metacharacter "
        "group, inside the remainder, very short, beyond the URL's length, random - positional or by keyword, so the "
        "shortened visible label keeps whole data metacharacters), + ~ % *, str/Markup methods, tests, macros (positional/default/kw/varargs/kwargs), "
        "call blocks and caller arguments, set blocks, FILTERED set blocks ({% set x | f(args) %}), filter blocks, loops (recursive, loop.cycle), "
        "include, import (macro and variable), blocks, self.block(), extends/super, joiner, namespace; "
        "autoescape static True, select_autoescape by DictLoader template name, or {% autoescape true|flag %} "
        "regions (whole-file or per-statement layout) in an autoescape=False environment; environment "
        "variants sandboxed/async/finalize/unoptimized. About a third of the cases load the i18n extension: "
        "{% trans %} blocks (explicit name=expr and implicitly referenced variables, context string, count + "
        "{% pluralize [name] %}, trimmed/notrimmed and the ext.i18n.trimmed policy, whitespace/percent-sign bodies, "
        "a macro call as first variable) and gettext/_/ngettext/pgettext/npgettext calls (also inside macro, loop "
        "and caller posts) carry data in their VARIABLES, with new-style callables (keyword variables) or old-style "
        "ones (|format(...) or % {...} written by the template), installed as null translations, as a translations "
        "object (gettext or ugettext spelling) or as bare callables whose texts keep / repeat the placeholders and "
        "may bring markup of their own; message, context and translation texts are template text and carry no data. "
        "Template text is metacharacter-free; |safe and autoescape-off regions are never generated. distinct = "
        "distinct rendered template-source sets (+ i18n configuration) whose output shows at least one nonce'd "
        "metacharacter arriving in escaped form")
LEVEL_TEXT = ("held on the K generated templates only (bounded depth <= 3, 1-3 units per template; i18n constructs "
              "in about a third of them)")
ASSUMPTIONS = [
    "values carrying markup legitimately produced by urlize/xmlattr/tojson are only passed to structure-"
    "preserving consumers (output, ~, +, indent, replace, join element, captures): cutting, re-casing or "
    "re-quoting documented markup is the template author's doing and is not generated",
    "a raw < > ' \" counts as a leak only when it sits between two copies of one datum's nonce (every "
    "metacharacter of every datum/literal is generated that way), which proves it is the datum's own character; "
    "other raw metacharacters - documented urlize anchors and xmlattr name=\"...\" pairs (removed by a strict "
    "recogniser first: a pair is removed only when its name is one of the fixed keys or the HTML-escaped form of "
    "a key string the case feeds to xmlattr, i.e. the name itself is free of raw metacharacters), tojson string quotes, repr quotes of pprint/list output inside filter blocks - are "
    "counted (raw_metachars_not_data) but are not data or literal characters",
    "in runtime mode every {{ }} is lexically inside an {% autoescape %} region of its own template file "
    "(imported macro bodies carry their own region); data never contains Markup objects",
    "all templates of one case share the same autoescape status (no .txt/.html mixing)",
    "i18n: the msgid / context string of every trans block and gettext-family call is a metacharacter-free literal "
    "and the harness-side translations return texts built from it (translation strings count as template text by "
    "the property statement, so their own markup - '<i>..</i>' in the 'markup' variant - is legitimately raw; it is "
    "never nonce-bracketed); data enters only through the variables, which the docs say are escaped when "
    "autoescaping is on (new-style) or by the ordinary output escaping of the formatted plain string (old-style)",
    "a leak through a filtered set block is attributed to the recorded finding set-block-filter:result-marked-safe "
    "only when a harness-side wrapper around the named filter sees that mechanism (non-markup return value carrying "
    "the datum raw, all markup inputs clean); otherwise the key is the full construct path",
]
NSHARDS = {"quick": 16, "thorough": 16}
BUDGET_S = {"quick": 14, "thorough": 540}
N_CASES = {"quick": 700, "thorough": 20000}
FLOORS = {
    "quick": {"evaluations": 1500, "distinct": 450,
              "counters": {"rendered_ok": 600, "nonces_arrived_escaped": 3000, "mode.static": 150,
                           "mode.selector": 60, "mode.runtime": 200, "control_leaks_detected": 16,
                           "filter.indent": 40, "filter.join": 60, "filter.replace": 30, "filter.urlize": 15,
                           "filter.xmlattr": 15, "urlize.trim_url_limit": 5, "urlize_labels_trimmed": 5,
                           "urlize_trimmed_labels_with_escaped_meta": 3, "xmlattr_names_arrived_escaped": 8, "filter.tojson": 15, "filter.truncate": 10, "filter.wordwrap": 10,
                           "filter.format": 10, "filter.striptags": 8, "construct.cap.macro": 20,
                           "construct.cap.setblock": 20, "construct.callblock": 40, "construct.include": 15,
                           "construct.cap.import_macro": 10, "construct.xblock": 15,
                           "construct.cap.fsetblock": 18, "construct.trans": 120, "construct.gt": 45,
                           "i18n.newstyle": 55, "i18n.oldstyle": 45, "i18n.install.null": 30,
                           "i18n.install.object": 30, "i18n.install.uobject": 12, "i18n.install.callables": 15,
                           "i18n.markup": 25, "i18n.dup": 25, "i18n.trim_policy": 15,
                           "trans.context": 45, "trans.context_singular_with_var": 22, "trans.pluralize": 40,
                           "trans.trimmed": 25, "trans.implicit_var": 45, "trans.explicit_var": 80,
                           "gt.gettext": 8, "gt._": 5, "gt.ngettext": 4, "gt.pgettext": 8, "gt.npgettext": 4,
                           "i18n_vars_arrived_escaped": 240,
                           "i18n_vars_arrived_escaped.trans.newstyle": 60,
                           "i18n_vars_arrived_escaped.trans.oldstyle": 50,
                           "i18n_vars_arrived_escaped.trans:context.newstyle": 35,
                           "i18n_vars_arrived_escaped.trans:context.oldstyle": 30,
                           "i18n_vars_arrived_escaped.call.newstyle": 30,
                           "i18n_vars_arrived_escaped.call.oldstyle": 12}},
    "thorough": {"evaluations": 40000, "distinct": 25000,
                 "counters": {"rendered_ok": 30000, "nonces_arrived_escaped": 150000, "mode.static": 7000,
                              "mode.selector": 3500, "mode.runtime": 10000, "control_leaks_detected": 16,
                              "filter.indent": 800, "filter.join": 1200, "filter.replace": 600, "filter.urlize": 300,
                              "filter.xmlattr": 300, "urlize.trim_url_limit": 100, "urlize_labels_trimmed": 100,
                              "urlize_trimmed_labels_with_escaped_meta": 60, "xmlattr_names_arrived_escaped": 1000, "filter.tojson": 300, "filter.truncate": 200,
                              "filter.wordwrap": 200, "filter.format": 200, "filter.striptags": 150,
                              "construct.cap.macro": 400, "construct.cap.setblock": 400,
                              "construct.callblock": 800, "construct.include": 300,
                              "construct.cap.import_macro": 200, "construct.xblock": 300,
                              "construct.cap.fsetblock": 360, "construct.trans": 2400, "construct.gt": 900,
                              "i18n.newstyle": 1100, "i18n.oldstyle": 900, "i18n.install.null": 600,
                              "i18n.install.object": 600, "i18n.install.uobject": 240, "i18n.install.callables": 300,
                              "i18n.markup": 500, "i18n.dup": 500, "i18n.trim_policy": 300,
                              "trans.context": 900, "trans.context_singular_with_var": 440, "trans.pluralize": 800,
                              "trans.trimmed": 500, "trans.implicit_var": 900, "trans.explicit_var": 1600,
                              "gt.gettext": 160, "gt._": 100, "gt.ngettext": 80, "gt.pgettext": 160, "gt.npgettext": 80,
                              "i18n_vars_arrived_escaped": 4800,
                              "i18n_vars_arrived_escaped.trans.newstyle": 1200,
                              "i18n_vars_arrived_escaped.trans.oldstyle": 1000,
                              "i18n_vars_arrived_escaped.trans:context.newstyle": 700,
                              "i18n_vars_arrived_escaped.trans:context.oldstyle": 600,
                              "i18n_vars_arrived_escaped.call.newstyle": 600,
                              "i18n_vars_arrived_escaped.call.oldstyle": 240}},
}
MAX_REDUCE_EVALS = 400


# ---------------------------------------------------------------- execute
def _finalize(x):
    return "" if x is None else x


class Translations:
    """Harness-side translations object (docs/extensions.rst: anything with gettext /
    ngettext [/ pgettext / npgettext], or ugettext / ungettext).  The translated text
    keeps every %(name)s placeholder of the message ('dup': repeats them, as a translation
    may), and with 'markup' brings markup of its own - translation strings count as
    template text, so that markup is legitimately raw and never sits between two copies of
    a data nonce."""

    def __init__(self, markup=False, dup=False):
        self.markup, self.dup = markup, dup

    def _t(self, s):
        t = "tr " + s
        if self.dup:
            t += " ~ " + s
        return "<i>" + t + "</i>" if self.markup else t

    def gettext(self, s):
        return self._t(s)

    def ngettext(self, s, p, n):
        return self._t(s if n == 1 else p)

    def pgettext(self, c, s):
        return self._t(s)

    def npgettext(self, c, s, p, n):
        return self._t(s if n == 1 else p)


class UTranslations(Translations):
    """The same with the ugettext / ungettext spelling that install_gettext_translations prefers."""

    def ugettext(self, s):
        return self._t(s)

    def ungettext(self, s, p, n):
        return self._t(s if n == 1 else p)

    def gettext(self, s):  # pragma: no cover - must not be preferred
        raise AssertionError("ugettext is documented to be preferred")

    ngettext = gettext


def install_i18n(env, i):
    ns = bool(i.get("newstyle"))
    if i.get("trim_policy"):
        env.policies["ext.i18n.trimmed"] = True
    how = i.get("install", "null")
    if how == "null":
        env.install_null_translations(newstyle=ns)
        return
    tr = (UTranslations if how == "uobject" else Translations)(bool(i.get("markup")), bool(i.get("dup")))
    if how in ("object", "uobject"):
        env.install_gettext_translations(tr, newstyle=ns)
    else:
        env.install_gettext_callables(tr.gettext, tr.ngettext, newstyle=ns, pgettext=tr.pgettext,
                                      npgettext=tr.npgettext)


def build_env(case, files):
    from jinja2 import DictLoader, Environment, select_autoescape
    from jinja2.sandbox import SandboxedEnvironment

    e = case.get("env", {})
    if case.get("control"):
        ae = False
    elif case["mode"] == "static":
        ae = True
    elif case["mode"] == "selector":
        ae = select_autoescape(enabled_extensions=("html", "htm", "xml"), default_for_string=True)
    else:
        ae = False
    kw = dict(autoescape=ae, loader=DictLoader(files), enable_async=bool(e.get("async")),
              optimized=bool(e.get("optimized", True)), cache_size=0)
    if e.get("finalize"):
        kw["finalize"] = _finalize
    cls = SandboxedEnvironment if e.get("sandbox") else Environment
    i18n = case.get("i18n")
    if i18n:
        kw["extensions"] = ["jinja2.ext.i18n"]
    env = cls(**kw)
    if i18n:
        install_i18n(env, i18n)
    return env


def execute(case):
    """-> (out|None, exception|None, files)"""
    files, main, rctx = IR.Renderer(case).render()
    try:
        env = build_env(case, files)
        _random.seed(case.get("rseed", 0))
        out = env.get_template(main).render(**rctx)
        return out, None, files
    except Exception as e:  # template errors of generated programs are not the property
        return None, e, files


def all_nonces(case):
    found = set()
    for v in case["data"].values():
        for s in _strings(v):
            found.update(re.findall(r"9[0-8]{4}", s))
    for u in case["units"]:
        for _, n, so in IR.walk(u, "S"):
            if so != "S" and n[0] == "lit":
                found.update(re.findall(r"9[0-8]{4}", n[1]))
    return found


def _strings(v):
    if isinstance(v, str):
        return [v]
    if isinstance(v, list):
        return [s for x in v for s in _strings(x)]
    if isinstance(v, dict):
        return [s for x in v.values() for s in _strings(x)] + [k for k in v if isinstance(k, str)]
    return []


STATS = {"other": 0}


def evaluate(case):
    """-> (leaks|None when the template raised, out, files)"""
    out, exc, files = execute(case)
    if exc is not None:
        return None, exc, files
    cleaned = O.clean(out, IR.uses(case, "urlize"), IR.uses(case, "xmlattr"), G.XML_KEYS,
                      [k for _, k in IR.xmlattr_key_strings(case)])
    lk, other = O.leaks(cleaned, all_nonces(case))
    if lk:
        lk, dropped = confirm_leaks(case, lk)
        other += dropped
    STATS["other"] = other
    return lk, out, files


def _neutralise(x, nonces):
    """Copy of a case fragment in which every string carrying one of the nonces has its
    metacharacters replaced by a letter."""
    if isinstance(x, str):
        return re.sub(r"[<>'\"&]", "z", x) if any(n in x or n[::-1] in x for n in nonces) else x
    if isinstance(x, list):
        return [_neutralise(v, nonces) for v in x]
    if isinstance(x, tuple):
        return tuple(_neutralise(v, nonces) for v in x)
    if isinstance(x, dict):
        return {_neutralise(k, nonces): _neutralise(v, nonces) for k, v in x.items()}
    return x


def confirm_leaks(case, lk):
    """Counterfactual confirmation.  A raw metacharacter between two copies of a nonce is the
    datum's own only if it disappears when the datum's metacharacters are replaced by letters;
    e.g. |replace("ab", datum) on the safe text  ab"ab  puts two copies of the datum around a
    quote that never was data.  -> (confirmed leaks, number dropped)"""
    nonces = {n for _, n in lk}
    ncase = dict(case, data=_neutralise(case["data"], nonces), units=_neutralise(case["units"], nonces))
    nout, nexc, _ = execute(ncase)
    if nexc is not None:
        return lk, 0
    ncleaned = O.clean(nout, IR.uses(ncase, "urlize"), IR.uses(ncase, "xmlattr"), G.XML_KEYS,
                       [k for _, k in IR.xmlattr_key_strings(ncase)])
    nlk, _ = O.leaks(ncleaned, nonces)
    remain = {}
    for item in nlk:
        remain[item] = remain.get(item, 0) + 1
    kept = []
    for item in lk:
        if remain.get(item, 0) > 0:
            remain[item] -= 1
        else:
            kept.append(item)
    return kept, len(lk) - len(kept)


def pick_target(cleaned_leaks):
    """Prefer a nonce that has a metacharacter between two of its copies."""
    cnt = {}
    for ch, n in cleaned_leaks:
        cnt[n] = cnt.get(n, 0) + 1
    named = [n for n in cnt if n is not None]
    if not named:
        return None
    return sorted(named, key=lambda n: (-cnt[n], n))[0]


def leaks_target(case, target):
    lk, _, _ = evaluate(case)
    if not lk:
        return False
    if target is None:
        return True
    return any(n == target for _, n in lk)


# ----------------------------------------------------------------- reduce
NEUTRAL = ["klit", "k\nk k"]
NEUTRAL_M = ["f", "escape", ["klit", "k\nk k"], []]
SPLICE = {"if": 1, "for1": 1, "with": 1, "block": 1, "include": 1, "fblock": 3, "callblock": 1, "xblock": 1}


def contains_nonce(node, sort, data, nonce):
    if nonce is None:
        return False
    for _, n, so in IR.walk(node, sort):
        if so == "S":
            continue
        for s in IR.leaf_strings(n, data):
            if nonce in s:
                return True
    return False


def subst_hole(e, repl):
    if e[0] == "hole":
        return repl
    out = e
    for step, ch, so in IR.children(e):
        if so == "E":
            new = subst_hole(ch, repl)
            if new is not ch:
                out = IR.set_at(out, step, new)
    return out


def cands_units(case, target):
    data = case["data"]
    units = case["units"]
    if len(units) > 1:
        for i, u in enumerate(units):
            if target is None or contains_nonce(u, "S", data, target):
                yield dict(case, units=[u])
                break
        if target is None:
            for i in range(len(units)):
                yield dict(case, units=units[:i] + units[i + 1:])


def cands_case(case, target):
    env = case.get("env", {})
    for k, dflt in (("async", False), ("sandbox", False), ("finalize", False), ("optimized", True)):
        if env.get(k, dflt) != dflt:
            yield dict(case, env=dict(env, **{k: dflt}))
    if case.get("extends"):
        yield dict(case, extends=False)
    i18n = case.get("i18n")
    if i18n:
        yield dict(case, i18n=None)
        for k, dflt in (("install", "null"), ("markup", False), ("dup", False), ("trim_policy", False)):
            if i18n.get(k, dflt) != dflt:
                yield dict(case, i18n=dict(i18n, **{k: dflt}))
    if case["mode"] == "selector":
        yield dict(case, mode="static")
    if case["mode"] == "runtime":
        yield dict(case, mode="static")
        if case.get("flag") == "volatile":
            yield dict(case, flag="literal")
        if case.get("layout") == "file":
            yield dict(case, layout="stmt")


def cands_tree(case, target):
    """Yield simpler cases, most aggressive first, in a deterministic order."""
    data = case["data"]
    units = case["units"]
    for ui, u in enumerate(units):
        for path, node, so in IR.walk(u, "S"):
            if so == "S":
                lst = node
                for j, st in enumerate(lst):
                    if target is not None and contains_nonce(st, "s", data, target) and \
                            not (st[0] == "out" and st[1][0] in ("d", "lit")):
                        for leaf in _target_leaf(st, data, target):
                            yield _with_unit(case, ui, IR.set_at(u, path, lst[:j] + [["out", leaf]] + lst[j + 1:]))
                        for _, mp, mso in IR.walk(st, "s"):
                            if mso != "S" and mp[0] == "f" and mp[1] == "map" and mp[3] and mp[3][0][0] is None \
                                    and mp[3][0][1][0] == "klit" and contains_nonce(mp, "E", data, target):
                                for subj in (NEUTRAL_M, NEUTRAL):
                                    new = ["out", ["f", mp[3][0][1][1], subj, mp[3][1:]]]
                                    if new != st:
                                        yield _with_unit(case, ui, IR.set_at(u, path, lst[:j] + [new] + lst[j + 1:]))
                        ts = _target_string(case, target)
                        if ts is not None and st != ["out", ["d", "dz"]]:
                            yield dict(_with_unit(case, ui, IR.set_at(u, path, lst[:j] + [["out", ["d", "dz"]]] + lst[j + 1:])),
                                       data=dict(data, dz=ts))
                for j, st in enumerate(lst):
                    if len(lst) > 1 and not contains_nonce(st, "s", data, target):
                        yield _with_unit(case, ui, IR.set_at(u, path, lst[:j] + lst[j + 1:]))
                for j, st in enumerate(lst):
                    # a statement that carries the target datum too, but is not the one leaking it
                    if len(lst) > 1 and contains_nonce(st, "s", data, target):
                        yield _with_unit(case, ui, IR.set_at(u, path, lst[:j] + lst[j + 1:]))
                for j, st in enumerate(lst):
                    for repl in stmt_replacements(st):
                        yield _with_unit(case, ui, IR.set_at(u, path, lst[:j] + repl + lst[j + 1:]))
                    if st[0] == "trans":
                        for simpler in trans_simplifications(st, data, target):
                            yield _with_unit(case, ui, IR.set_at(u, path, lst[:j] + [simpler] + lst[j + 1:]))
                continue
            if so == "s":
                continue
            # expression node
            has = contains_nonce(node, "E", data, target)
            if node[0] == "cap" and node[1] == "macro_arg":
                yield _with_unit(case, ui, IR.set_at(u, path, subst_hole(node[3], node[2])))
            if has and node != ["d", "dz"] and node[0] != "lit":
                ts = _target_string(case, target)
                if ts is not None:
                    yield dict(_with_unit(case, ui, IR.set_at(u, path, ["d", "dz"])), data=dict(data, dz=ts))
            if has:
                # hoist any descendant expression that still carries the target
                for dpath, dn, dso in IR.walk(node, "E"):
                    if dpath and dso == "E" and dn[0] not in ("hole", "test") and contains_nonce(dn, "E", data, target):
                        yield _with_unit(case, ui, IR.set_at(u, path, dn))
            else:
                for step, ch, cso in IR.children(node):
                    if cso == "E" and ch[0] != "hole" and not (node[0] in ("cond",) and step == (1,)):
                        yield _with_unit(case, ui, IR.set_at(u, path, ch))
            if not has and node[0] not in ("klit", "num", "bool", "none", "hole", "var") and node not in (NEUTRAL, NEUTRAL_M):
                yield _with_unit(case, ui, IR.set_at(u, path, NEUTRAL))
                yield _with_unit(case, ui, IR.set_at(u, path, NEUTRAL_M))
            mp = node
            if node[0] == "f" and node[1] in ("join", "list", "first", "last") and node[2][0] == "f" and node[2][1] == "map":
                mp = node[2]
            if mp[0] == "f" and mp[1] == "map" and mp[3] and mp[3][0][0] is None and mp[3][0][1][0] == "klit":
                for subj in (NEUTRAL_M, NEUTRAL, ["idx", mp[2], 0], ["idx", mp[2], -1]):
                    yield _with_unit(case, ui, IR.set_at(u, path, ["f", mp[3][0][1][1], subj, mp[3][1:]]))
            if node[0] == "f" and node[3]:
                args = node[3]
                last = args[-1]
                if not contains_nonce(last[1], "E", data, target):
                    yield _with_unit(case, ui, IR.set_at(u, path, [node[0], node[1], node[2], args[:-1]]))
            if node[0] == "cap" and node[1] == "fsetblock":
                yield _with_unit(case, ui, IR.set_at(u, path, ["cap", "setblock", node[4]]))
                yield _with_unit(case, ui, IR.set_at(u, path, ["f", node[2], ["cap", "setblock", node[4]], node[3]]))
                yield _with_unit(case, ui, IR.set_at(u, path, ["f", node[2], NEUTRAL_M, node[3]]))
                if node[3] and not contains_nonce(node[3][-1][1], "E", data, target):
                    yield _with_unit(case, ui, IR.set_at(u, path, node[:3] + [node[3][:-1], node[4]]))
            if node[0] == "gt":
                for simpler in gt_simplifications(node, data, target):
                    yield _with_unit(case, ui, IR.set_at(u, path, simpler))
            if node[0] == "lit" and target is not None and target in node[1]:
                nm = "dz"
                yield dict(_with_unit(case, ui, IR.set_at(u, path, ["d", nm])), data=dict(data, **{nm: node[1]}))


def gt_simplifications(node, data, target):
    _, func, opts, args, num = node
    for j, (_, a) in enumerate(args):
        if not contains_nonce(a, "E", data, target):
            yield ["gt", func, opts, args[:j] + args[j + 1:], num]
    if func in ("ngettext", "npgettext") and not (num is not None and contains_nonce(num, "E", data, target)):
        yield ["gt", {"ngettext": "gettext", "npgettext": "pgettext"}[func], opts, args, None]
    if func in ("pgettext", "npgettext"):
        yield ["gt", {"pgettext": "gettext", "npgettext": "ngettext"}[func], dict(opts, ctx=None), args, num]
    if func == "_":
        yield ["gt", "gettext", opts, args, num]
    if opts.get("old") == "mod":
        yield ["gt", func, dict(opts, old="format"), args, num]
    if num is not None and num[0] != "num":
        yield ["gt", func, opts, args, ["num", 2]]


def trans_simplifications(st, data, target):
    _, opts, args, count = st
    for _, a in args:
        if contains_nonce(a, "E", data, target):
            yield ["out", a]              # the variable's expression without the trans block
    for j, (_, a) in enumerate(args):
        if not contains_nonce(a, "E", data, target):
            yield ["trans", opts, args[:j] + args[j + 1:], count]
    if count is not None and not contains_nonce(count, "E", data, target):
        yield ["trans", opts, args, None]
        if count[0] != "num":
            yield ["trans", opts, args, ["num", 2]]
    for k, dflt in (("ctx", None), ("trim", None), ("ws", False), ("pl_explicit", False), ("cname", "num")):
        if opts.get(k, dflt) != dflt:
            yield ["trans", dict(opts, **{k: dflt}), args, count]
    for j, (nm, a) in enumerate(args):
        if nm is None:
            yield ["trans", opts, args[:j] + [["a0", a]] + args[j + 1:], count]
    # the same variables through the equivalent function call
    named = [[nm or f"a{j}", a] for j, (nm, a) in enumerate(args)]
    func = ("np" if opts.get("ctx") is not None else "n") + "gettext" if count is not None else \
        ("pgettext" if opts.get("ctx") is not None else "gettext")
    yield ["out", ["gt", func, {"ctx": opts.get("ctx"), "old": "format"}, named, count]]


def _target_string(case, target):
    for v in case["data"].values():
        for x in _strings(v):
            if target in x:
                return x
    return None


def _target_leaf(st, data, target):
    """Bare literal leaf carrying the target nonce, if any."""
    for _, n, so in IR.walk(st, "s"):
        if so != "S" and n[0] == "lit" and target in n[1]:
            return [n]
    return []


def stmt_replacements(st):
    t = st[0]
    if t in SPLICE:
        yield list(st[SPLICE[t]])
    if t == "out" and st[1][0] == "cap" and st[1][1] == "selfblock":
        yield [["block", st[1][2]]]
    if t == "out" and st[1][0] == "cap" and IR.SCHEMA[IR.tag_of(st[1])][0] == "S":
        yield list(st[1][2])
    if t == "out" and st[1][0] == "cap" and st[1][1] == "fsetblock":
        yield list(st[1][4])
    if t == "fblock":
        yield [["out", ["f", st[1], NEUTRAL_M, st[2]]]]
        yield [["out", ["f", st[1], ["cap", "setblock", st[3]], st[2]]]]
    if t == "callblock":
        yield [["out", subst_hole(st[2], ["cap", "macro", st[1]])]]
    if t == "callarg":
        yield [["out", subst_hole(st[2], st[1])]]
    if t == "foreach":
        for k in (0, 1, -1):
            yield [["out", subst_hole(st[2], ["idx", st[1], k])]]
        yield [["out", subst_hole(st[2], NEUTRAL_M)]]
        yield [["out", subst_hole(st[2], NEUTRAL)]]
        if st[3] or st[4] is not None:
            yield [["foreach", st[1], st[2], False, None, None]]
    if t == "forkv":
        yield [["out", subst_hole(st[3], ["idx", st[1], "k"])]]
        yield [["out", subst_hole(st[4], ["idx", st[1], "v"])]]
        yield [["out", subst_hole(st[4], ["idx", st[1], "k"])]]     # the VALUE stored under "k"
    if t == "xblock" and st[2] is not None:
        yield [["xblock", st[1], None]]
        if st[2][0] == "own":
            yield list(st[2][1])
        if st[2][0] == "super":
            yield [["out", subst_hole(st[2][1], ["cap", "setblock", st[1]])]]


def _with_unit(case, ui, unit):
    us = list(case["units"])
    us[ui] = unit
    return dict(case, units=us)


def reduce_case(case, target, budget=MAX_REDUCE_EVALS):
    evals = 0

    def fix(genf):
        nonlocal case, evals
        changed = False
        again = True
        while again and evals < budget:
            again = False
            for cand in genf(case, target):
                evals += 1
                if leaks_target(cand, target):
                    case = cand
                    again = changed = True
                    break
                if evals >= budget:
                    break
        return changed

    fix(cands_units)
    while evals < budget:
        c2 = fix(cands_tree)
        c3 = fix(cands_case)
        if not c3:
            break
    return case, evals, evals < budget


# -------------------------------------------------------------------- key
def find_leaf(case, target):
    for ui, u in enumerate(case["units"]):
        for path, n, so in IR.walk(u, "S"):
            if so == "S":
                continue
            if any(target in s for s in IR.leaf_strings(n, case["data"])):
                return ui, path
    return None, None


# constructs that bind a value to a name and hand it to a 'post' expression over ['hole']:
# tag -> (source field index, [post field paths])
BINDERS = {"foreach": (1, [(2,)]), "forkv": (1, [(3,), (4,)]), "callarg": (1, [(2,)]),
           "callblock": (1, [(2,)]), "cap.macro_arg": (2, [(3,)]), "xblock": (1, [(2, 1)])}


def hole_path(e, path=()):
    if e[0] == "hole":
        return path
    for step, ch, so in IR.children(e):
        if so == "E":
            r = hole_path(ch, path + step)
            if r is not None:
                return r
    return None


def post_descriptors(node, step):
    """The value entering `node` through its source field goes on through the node's post
    expression(s): descriptors of the constructs between the post's root and its hole."""
    t = IR.tag_of(node)
    if t not in BINDERS or step[0] != BINDERS[t][0]:
        return []
    if t == "xblock" and not (node[2] is not None and node[2][0] == "super"):
        return []
    out = []
    for pp in BINDERS[t][1]:
        try:
            post = IR.get_at(node, pp)
        except (IndexError, TypeError):
            continue
        if not isinstance(post, list) or not post or post[0] in ("own", "hole"):
            continue
        hp = hole_path(post)
        if not hp:
            continue
        cur, i = post, 0
        while i < len(hp):
            for st, ch, so in IR.children(cur):
                if tuple(hp[i:i + len(st)]) == st:
                    d = describe_step(cur, st)
                    if d:
                        out.append(d)
                    cur = ch
                    i += len(st)
                    break
            else:
                break
    return out


def describe_step(node, step):
    """Descriptor of going from node into the child reached by `step`."""
    t = IR.tag_of(node)
    i = step[0]
    if t == "out" or t == "text":
        return None
    if t in ("if", "for1", "with"):
        return {"if": "if", "for1": "for", "with": "with"}[t]
    if t == "fblock":
        if i == 2:
            return f"filter-block:{node[1]}/arg:{_argname(node[1], node[2], step[1])}"
        return f"filter-block:{node[1]}"
    if t == "trans":
        opts = node[1]
        name = "trans-block" + (":context" if opts.get("ctx") is not None else "") + \
            (":pluralize" if node[3] is not None else "") + (":" + opts["trim"] if opts.get("trim") else "")
        if i == 3:
            return name + "/count"
        return name + ("/implicit-variable" if node[2][step[1]][0] is None else "/variable")
    if t == "gt":
        return f"call:{node[1]}" + ("/count" if i == 4 else "/variable") + \
            (":%-formatted" if node[2].get("old") == "mod" else "")
    if t == "callblock":
        return "call-block/caller()" if i == 1 else "call-block/macro-body"
    if t == "callarg":
        return "caller-argument" if i == 1 else "call-block-body"
    if t == "foreach":
        return {1: "for/iterable", 2: "for/body", 4: "loop.cycle", 5: "loop.cycle"}[i] + ("(recursive)" if node[3] else "")
    if t == "forkv":
        return "for-kv:" + node[2]
    if t in ("include", "block"):
        return t
    if t == "xblock":
        if i == 1:
            return "block" + ("/super()" if node[2] is not None and node[2][0] == "super" else "")
        return "child-block"
    if t == "f":
        name = node[1]
        if name == "map" and node[3] and node[3][0][0] is None and node[3][0][1][0] == "klit":
            name = f"map({node[3][0][1][1]})"
        if i == 2:
            return f"filter:{name}"
        return f"filter:{name}/arg:{_argname(node[1], node[3], step[1])}"
    if t == "bin":
        return f"op:{node[1]}/" + ("left" if i == 2 else "right")
    if t == "m":
        return f"method:{node[1]}/" + ("self" if i == 2 else f"arg{step[1]}")
    if t == "dict" and step[-1] == 0:
        return "dict-key"
    if t in ("list", "tuple", "dict"):
        return t
    if t == "dictof":
        return "dict-call:" + node[1]
    if t == "cond":
        return "conditional-expression"
    if t == "test":
        return f"test:{node[1]}"
    if t == "idx":
        return "subscript"
    if t == "slice":
        return "slice"
    if t.startswith("cap."):
        k = node[1]
        if k == "macro_arg":
            return f"macro-argument:{node[4]}" if i == 2 else "macro-body"
        if k == "fsetblock":
            if i == 3:
                return f"set-block-filter:{node[2]}/arg:{_argname(node[2], node[3], step[1])}"
            return f"set-block-filter:{node[2]}"
        return {"setblock": "set-block", "setexpr": "set", "macro": "macro", "import_macro": "imported-macro",
                "import_var": "imported-variable", "selfblock": "self.block()", "joiner": "joiner",
                "nsattr": "namespace-attribute", "nsobj": "namespace-object"}[k]
    return t


def _argname(fname, args, j):
    kw = args[j][0]
    if kw is not None:
        return kw
    names = G.FILTER_PARAMS.get(fname)
    if names and j < len(names) and all(a[0] is None for a in args[:j]):
        return names[j]
    return str(j)


def mechanism_key(case, target):
    parts = []
    if case["mode"] == "runtime":
        parts.append("autoescape-block:" + case.get("flag", "literal") +
                     ("(around-block)" if case.get("layout") == "file" else ""))
    elif case["mode"] == "selector":
        parts.append("select_autoescape")
    for k, dflt in (("async", False), ("sandbox", False), ("finalize", False), ("optimized", True)):
        if case.get("env", {}).get(k, dflt) != dflt:
            parts.append("env:" + ("unoptimized" if k == "optimized" else k))
    if case.get("extends"):
        parts.append("extends")
    i18n = case.get("i18n")
    if i18n:
        parts.append("i18n:" + ("newstyle" if i18n.get("newstyle") else "oldstyle"))
        if i18n.get("install", "null") != "null":
            parts.append("translations:" + i18n["install"])
        for k in ("markup", "dup", "trim_policy"):
            if i18n.get(k):
                parts.append("translations:" + k if k != "trim_policy" else "policy:ext.i18n.trimmed")
    if target is None:
        return "/".join(parts + ["unattributed"])
    ui, path = find_leaf(case, target)
    if path is None:
        return "/".join(parts + ["leaf-not-found"])
    node = case["units"][ui]
    # walk down the path, emitting a descriptor at each real node
    i = 0
    path = list(path)
    while i < len(path):
        if isinstance(node, list) and node and isinstance(node[0], str) and (node[0] in IR.SCHEMA or node[0] == "cap"):
            # find which child step matches the next path elements
            for step, ch, so in IR.children(node):
                if tuple(path[i:i + len(step)]) == step:
                    d = describe_step(node, step)
                    if d:
                        parts.append(d)
                    parts.extend(post_descriptors(node, step))
                    node = ch
                    i += len(step)
                    break
            else:
                raise AssertionError((node, path[i:]))
        else:
            node = node[path[i]]   # index into a statement list
            i += 1
    if node[0] == "lit":
        parts.append("literal")
    if node[0] == "D" and any(isinstance(k, str) and target in k for k in case["data"].get(node[1], {})):
        parts.append("data-dict-key")
    return collapse_key(case, parts, target)


BLOCKISH = ("block", "block/super()", "self.block()")


def collapse_key(case, parts, target=None):
    """Families with one root cause get one key, so that a sibling filter /
    argument / block flavour is not reported as a new mechanism:
    * the minimal template still needs a block nested in an {% autoescape %}
      block (static or runtime flag, in place, via self.b() or super());
    * the leaking datum still passes through a {% filter %} block (body or
      arguments): visit_FilterBlock writes the filter result unescaped;
    * the leaking datum still passes through a filtered set block AND the probe
      below observes the mechanism itself: the filter returned a value that is
      not markup, carrying the datum raw, and the set block declared it safe.
      Any other leak through a filtered set block (body not escaped before the
      filter sees it, a markup-returning filter carrying raw data, ...) keeps
      its full construct path as key and is reported as a new violation."""
    if case["mode"] == "runtime" and case.get("layout") == "file" and any(p in BLOCKISH for p in parts):
        return "autoescape-block/block-not-escaped"
    if any(p.startswith("filter-block:") for p in parts):
        return "filter-block:result-not-escaped"
    if any(p.startswith("set-block-filter:") for p in parts) and target is not None \
            and probe_set_block_filter(case, target):
        return "set-block-filter:result-marked-safe"
    return "/".join(parts) or "output"


def probe_set_block_filter(case, target):
    """Harness-side wrappers around the filters that the case's filtered set blocks name
    (env.filters entries, public API).  True iff some call returned a value WITHOUT
    __html__ (not markup: under autoescape it has to be escaped when it is output) that
    carries a raw metacharacter of the target datum, while the filtered value itself (the
    captured block body: first argument that is not an Environment / EvalContext / Context)
    did not carry one and no markup argument carried one - i.e. the data was still escaped,
    or a plain ARGUMENT, on the way in, and the only thing that made it 'safe' is the set
    block's marking of the filter's plain result."""
    import functools
    import inspect

    from jinja2 import Environment
    from jinja2.nodes import EvalContext
    from jinja2.runtime import Context

    names = sorted({n[2] for u in case["units"] for _, n, so in IR.walk(u, "S")
                    if so != "S" and n[0] == "cap" and n[1] == "fsetblock"})
    if not names:
        return False
    files, main, rctx = IR.Renderer(case).render()
    obs = []

    def raw(x):
        try:
            return bool(O.leaks(str(x), {target})[0])
        except Exception:
            return False

    def record(a, k, rv):
        pos = [x for x in a if not isinstance(x, (Environment, EvalContext, Context))]
        if not pos or not isinstance(pos[0], str):
            return                      # not a captured block body (e.g. a list through |join)
        dirty_in = raw(pos[0]) or any(hasattr(x, "__html__") and raw(x) for x in pos[1:] + list(k.values()))
        obs.append((dirty_in, hasattr(rv, "__html__"), raw(rv)))

    def wrap(orig):
        @functools.wraps(orig)
        def w(*a, **k):
            rv = orig(*a, **k)
            if inspect.isawaitable(rv):     # async variant in an async environment
                async def fin():
                    r = await rv
                    record(a, k, r)
                    return r
                return fin()
            record(a, k, rv)
            return rv
        return w

    try:
        env = build_env(case, files)
        for nm in names:
            if nm in env.filters:
                env.filters[nm] = wrap(env.filters[nm])
        _random.seed(case.get("rseed", 0))
        env.get_template(main).render(**rctx)
    except Exception:
        return False
    if not obs or any(o[0] for o in obs):
        return False
    return any((not is_markup) and is_raw for _, is_markup, is_raw in obs)


def neutralise(case, target):
    """Strip the metacharacters from every string carrying the nonce."""
    tr = str.maketrans("0123456789", "abcdefghij")

    def fix(s):
        return re.sub(r"[<>'\"]", "", s).translate(tr) if target in s else s

    def fixv(v):
        if isinstance(v, str):
            return fix(v)
        if isinstance(v, list):
            return [fixv(x) for x in v]
        if isinstance(v, dict):
            return {(fix(k) if isinstance(k, str) else k): fixv(x) for k, x in v.items()}
        return v

    def fixn(n):
        if isinstance(n, list):
            if n and n[0] == "lit":
                return ["lit", fix(n[1])]
            return [fixn(x) for x in n]
        return n

    return dict(case, data=fixv(case["data"]), units=fixn(case["units"]))


# ---------------------------------------------------------------- analyse
def analyse(ctx, case, report=True):
    """Render one case, classify every leak.  Returns number of leaks found."""
    lk, out, files = evaluate(case)
    ctx.ev()
    if lk is None:
        ctx.count("render_exceptions")
        ctx.count("exc." + type(out).__name__)
        return 0
    ctx.count("rendered_ok")
    ctx.count("raw_metachars_not_data", STATS["other"])
    ctx.count("mode." + case["mode"])
    if case["mode"] == "runtime":
        ctx.count(f"runtime.{case.get('flag')}.{case.get('layout')}")
    arrived = len(set(re.findall(r"(9[0-8]{4})&(?:lt|gt|#34|#39);", out)))
    ctx.count("nonces_arrived_escaped", arrived)
    for form, k in IR.xmlattr_key_strings(case):
        if form == "fixed":
            continue
        ctx.count("xmlattr_key." + form)
        if O.key_passes_validation(k) and (O.escaped_form(k) + '="') in out:
            ctx.count("xmlattr_names_arrived_escaped")
    if IR.uses(case, "urlize"):
        # visible link labels that urlize shortened (documented: trim_url_limit shortens the
        # displayed URL; the shortened text ends in '...') and that still carry a whole
        # nonce-bracketed metacharacter of the datum, in escaped form
        for m in _A_LABEL.finditer(out):
            if m.group(1).endswith("..."):
                ctx.count("urlize_labels_trimmed")
                if _ESC_GROUP.search(m.group(1)):
                    ctx.count("urlize_trimmed_labels_with_escaped_meta")
    i18n = case.get("i18n")
    if i18n:
        style = "newstyle" if i18n.get("newstyle") else "oldstyle"
        ctx.count("i18n." + style)
        ctx.count("i18n.install." + i18n.get("install", "null"))
        for k in ("markup", "dup", "trim_policy"):
            if i18n.get(k):
                ctx.count("i18n." + k)
        for kind, nonces in i18n_variable_nonces(case):
            got = sum(1 for n in nonces if re.search(n + r"&(?:lt|gt|#34|#39);", out))
            if got:
                ctx.count(f"i18n_vars_arrived_escaped.{kind}.{style}", got)
                if kind.startswith("call:"):
                    ctx.count(f"i18n_vars_arrived_escaped.call.{style}", got)
                ctx.count("i18n_vars_arrived_escaped", got)
    if arrived:
        ctx.dist(sorted(files.items()) + ([["i18n", sorted(i18n.items())]] if i18n else []))
    nfound = 0
    cur = case
    for _round in range(4):
        if not lk:
            break
        target = pick_target(lk)
        mincase, evals, converged = reduce_case(cur, target)
        ctx.count("reduction_evals", evals)
        ctx.ev(evals)
        if not converged:
            ctx.count("reductions_not_converged")
        key = mechanism_key(mincase, target)
        mfiles, mmain, _ = IR.Renderer(mincase).render()
        mout, _, _ = execute(mincase)
        nfound += 1
        ctx.count("leaks_classified")
        if report:
            what = (f"raw {sorted({c for c, n in lk if n == target})} from nonce {target} reached the output; "
                    f"minimal template {mfiles} data={ {k: v for k, v in mincase['data'].items() if target and target in str(v)} } "
                    f"-> {mout!r}")
            ctx.violation(key, what, {"case": case, "minimal": mincase, "target": target})
        if target is None:
            break
        cur = neutralise(cur, target)
        lk, _, _ = evaluate(cur)
        ctx.ev()
    return nfound


_A_LABEL = re.compile(r'<a href="[^"<>]*"[^<>]*>([^<>]*)</a>')
_ESC_GROUP = re.compile(r"(9[0-8]{4})&(?:lt|gt|#34|#39);\1")


def i18n_variable_nonces(case):
    """-> [(kind, nonces of the data/literal leaves under the variables of one trans block /
    gettext-family call)], kind = 'trans' | 'trans:context' | 'call:<func>'"""
    out = []
    for u in case["units"]:
        for _, n, so in IR.walk(u, "S"):
            if so == "S" or n[0] not in ("trans", "gt"):
                continue
            found = set()
            for _, a in (n[2] if n[0] == "trans" else n[3]):
                for _, m, mso in IR.walk(a, "E"):
                    if mso != "S":
                        for s_ in IR.leaf_strings(m, case["data"]):
                            found.update(re.findall(r"9[0-8]{4}", s_))
            kind = ("trans:context" if n[1].get("ctx") is not None else "trans") if n[0] == "trans" else "call:" + n[1]
            out.append((kind, sorted(found)))
    return out


def count_constructs(ctx, case, seen):
    for u in case["units"]:
        for _, n, so in IR.walk(u, "S"):
            if so == "S":
                continue
            t = IR.tag_of(n)
            if t == "f":
                seen.add(n[1])
                ctx.count("filter." + n[1])
                if n[1] == "urlize" and any(a[0] == "trim_url_limit" or (a[0] is None and j == 0)
                                            for j, a in enumerate(n[3])):
                    ctx.count("urlize.trim_url_limit")
                if n[1] == "map" and n[3] and n[3][0][0] is None and n[3][0][1][0] == "klit":
                    seen.add(n[3][0][1][1])
                    ctx.count("filter." + n[3][0][1][1])
            elif t == "fblock":
                seen.add(n[1])
                ctx.count("filter." + n[1])
                ctx.count("construct.fblock")
            elif t == "cap.fsetblock":
                seen.add(n[2])
                ctx.count("filter." + n[2])
                ctx.count("construct.cap.fsetblock")
            elif t == "trans":
                o = n[1]
                ctx.count("construct.trans")
                for nm, flag in (("context", o.get("ctx") is not None), ("pluralize", n[3] is not None),
                                 ("trimmed", o.get("trim") == "trimmed"), ("notrimmed", o.get("trim") == "notrimmed"),
                                 ("implicit_var", any(a[0] is None for a in n[2])),
                                 ("explicit_var", any(a[0] is not None for a in n[2])),
                                 ("no_var", not n[2])):
                    if flag:
                        ctx.count("trans." + nm)
                if o.get("ctx") is not None and n[3] is None and n[2]:
                    ctx.count("trans.context_singular_with_var")
            elif t == "gt":
                ctx.count("construct.gt")
                ctx.count("gt." + n[1])
            elif t == "dictof":
                ctx.count("construct.dictof." + n[1])
            elif t not in ("d", "lit", "klit", "num", "bool", "none", "hole", "var", "out", "text", "L", "D", "LD"):
                ctx.count("construct." + (t if t != "m" else "method"))


FIXED = [
    # the shapes named in DESIGN.md, always run by shard 0
    {"mode": "static", "units": [[["out", ["f", "indent", ["f", "e", ["d", "d1"], []], [[None, ["d", "d2"]]]]]]],
     "data": {"d1": "a\nb", "d2": "91111<91111>91111"}},
    {"mode": "runtime", "flag": "volatile", "layout": "stmt", "units": [[["out", ["lit", "92222<92222"]]]], "data": {}},
    {"mode": "runtime", "flag": "literal", "layout": "file", "units": [[["block", [["out", ["d", "d1"]]]]]],
     "data": {"d1": "93333<93333"}},
    {"mode": "selector", "extends": True,
     "units": [[["xblock", [["out", ["d", "d1"]]], ["super", ["bin", "~", ["hole"], ["lit", "94444'94444"]]]]]],
     "data": {"d1": "95555\"95555"}},
    # every gettext-family function, new-style and old-style, as block and as call
    # every gettext-family function and every trans flavour, new-style and old-style (one datum each)
    {"mode": "static", "i18n": {"newstyle": True, "install": "callables"},
     "data": {f"d{k}": f"961{k}1{m}961{k}1" for k, m in enumerate("<>'\"<>")},
     "units": [[["trans", {"ctx": "ctx", "trim": None, "cname": "num", "ws": False}, [["a", ["d", "d0"]], [None, ["d", "d1"]]], None],
                ["trans", {"ctx": "ctx", "trim": "trimmed", "cname": "n", "ws": True}, [["a", ["d", "d2"]]], ["num", 2]],
                ["trans", {"ctx": None, "trim": None, "cname": "num", "ws": False}, [["a", ["d", "d3"]]], ["num", 1]],
                ["trans", {"ctx": None, "trim": None, "cname": "num", "ws": False}, [[None, ["d", "d4"]]], None]]]},
    {"mode": "runtime", "flag": "volatile", "layout": "stmt", "i18n": {"newstyle": True, "install": "null"},
     "data": {f"d{k}": f"962{k}2>962{k}2" for k in range(5)},
     "units": [[["out", ["gt", f, {"ctx": "ctx", "old": "format"}, [["a", ["d", f"d{k}"]]], ["num", 2]]]
                for k, f in enumerate(IR.GT_FUNCS)]]},
    {"mode": "selector", "i18n": {"newstyle": False, "install": "object", "markup": True, "dup": True},
     "data": {f"d{k}": f"96{k // 9}{k % 9}3\"96{k // 9}{k % 9}3" for k in range(14)},
     "units": [[["out", ["gt", f, {"ctx": "ctx", "old": o}, [["a", ["d", f"d{2 * k + j}"]]], ["num", 2]]]
                for k, f in enumerate(IR.GT_FUNCS) for j, o in enumerate(("format", "mod"))] +
               [["trans", {"ctx": c, "trim": None, "cname": "num", "ws": False}, [["a", ["d", f"d{10 + 2 * i + j}"]]], n]
                for i, c in enumerate((None, "ctx")) for j, n in enumerate((None, ["num", 2]))]]},
    # filtered set blocks (the striptags one is the recorded finding set-block-filter:result-marked-safe)
    {"mode": "static", "data": {"d1": "96555<96555"},
     "units": [[["out", ["cap", "fsetblock", "striptags", [], [["out", ["d", "d1"]]]]]]]},
    {"mode": "static", "data": {"d1": "96666<96666", "d2": "96777>96777"},
     "units": [[["out", ["cap", "fsetblock", "replace", [[None, ["klit", "ab"]], [None, ["d", "d2"]]],
                         [["text", "ab "], ["out", ["d", "d1"]]]]]]]},
]


def run(ctx):
    seen_filters = set()
    # negative control: the scanner must see raw data when autoescape is off
    crng = ctx.rng("control")
    nctl = 0
    for i in range(40):
        case = G.gen_case(crng, mode="static")
        case["control"] = True
        case["env"] = {}
        lk, out, _ = evaluate(case)
        if lk:
            ctx.count("control_leaks_detected")
            nctl += 1
        if nctl >= 6:
            break
    if ctx.shard == 0:
        for c in FIXED:
            analyse(ctx, c)
    rng = ctx.rng("cases")
    n_max = N_CASES[ctx.tier]
    i = 0
    while ctx.more(i, n_max, 60):
        case = G.gen_case(rng)
        count_constructs(ctx, case, seen_filters)
        analyse(ctx, case)
        if i < 2 and ctx.shard == 1:
            files, main, _ = IR.Renderer(case).render()
            ctx.sample({"mode": case["mode"], "flag": case.get("flag"), "layout": case.get("layout"),
                        "env": case["env"], "files": files, "data": case["data"]})
        i += 1
    ctx.extra["filters_distinct_per_shard_sum"] = len(seen_filters)


def replay(ctx, case):
    analyse(ctx, case["case"] if "case" in case and "units" not in case else case)
