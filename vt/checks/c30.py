"""C30 — compilation is deterministic across repetitions and hash seeds."""
from __future__ import annotations

import hashlib
import json
import os
import subprocess
import sys
import tempfile

from vt import core
from vt.gen import corpus

PID = "C30"
LEVEL = "exploration"
TECHNIQUE = "differential monitor across interpreter processes: SHA-256 of env.compile(src, raw=True) under several PYTHONHASHSEED values and repeated in-process"
RULE = ("generated templates (corpus programs + name-rich templates with tuple assignment, branch "
        "stores, many filters/tests, from-imports with context, includes inside scopes with many "
        "locals, macros using varargs/kwargs/caller, built-in filters applied to constants; half of them with identifiers that differ only in "
        "case) compiled in child processes with PYTHONHASHSEED "
        "in {0,1,2,3,random} (+4 more in thorough) and twice in-process, in sync/async/sandboxed "
        "environments; all digests per template must be equal. distinct = distinct template sources "
        "with >= 3 distinct stored names or >= 3 filters/tests")
LEVEL_TEXT = "held on the generated templates and the listed hash seeds only"
ASSUMPTIONS = ["the template sources themselves are produced once by the parent and shipped to the children"]
NSHARDS = {"quick": 8, "thorough": 16}
BUDGET_S = {"quick": 20, "thorough": 400}
FLOORS = {
    "quick": {"evaluations": 3000, "distinct": 200, "counters": {"digest_sets_compared": 600, "hash_seeds": 5}},
    "thorough": {"evaluations": 60000, "distinct": 5000, "counters": {"digest_sets_compared": 8000, "hash_seeds": 9}},
}

NAMES = ["alpha", "beta", "gamma", "delta", "eps", "zeta", "eta", "theta", "iota", "kappa", "lam", "mu",
         "nu", "xi", "omi", "pi", "rho", "sigma", "tau", "ups", "phi", "chi", "psi", "omega", "aa", "bb",
         "cc", "dd", "ee", "ff", "gg", "hh", "ii", "jj", "kk", "ll", "mm", "nn", "oo", "pp"]
FILTERS = ["upper", "lower", "trim", "title", "capitalize", "length", "string", "first", "last", "list",
           "sort", "unique", "reverse", "join", "abs", "int", "float", "default", "e", "safe"]
TESTS = ["odd", "even", "defined", "undefined", "none", "string", "number", "mapping", "sequence",
         "iterable", "callable", "lower", "upper", "boolean", "integer", "float"]


def det_template(rng):
    ns = rng.sample(NAMES, 12)
    if rng.random() < 0.5:
        # names that differ only in case (distinct identifiers; equal under case-folding keys)
        ns[1], ns[2] = ns[0].capitalize(), ns[0].upper()
        ns[5], ns[6] = ns[4].upper(), ns[4].capitalize()
    parts = []
    parts.append("{%% set %s, %s, %s = 1, 2, 3 %%}" % tuple(ns[:3]))
    parts.append("{%% if %s %%}{%% set %s = 1 %%}{%% set %s = 2 %%}{%% set %s = 5 %%}{%% elif %s %%}"
                 "{%% set %s = 3 %%}{%% else %%}{%% set %s = 3 %%}{%% set %s = 4 %%}{%% endif %%}"
                 % (ns[3], ns[4], ns[5], ns[6], ns[7], ns[5], ns[6], ns[4]))
    fs = rng.sample(FILTERS, 5)
    ts = rng.sample(TESTS, 4)
    parts.append("{{ %s|%s|%s }}{{ %s|%s }}{{ %s|%s|%s }}" % (ns[0], fs[0], fs[1], ns[1], fs[2], ns[2], fs[3], fs[4]))
    parts.append("{{ %s is %s }}{{ %s is %s }}{%% if %s is %s or %s is %s %%}x{%% endif %%}"
                 % (ns[0], ts[0], ns[1], ts[1], ns[2], ts[2], ns[3], ts[3]))
    imps = rng.sample(NAMES, 3)
    parts.append("{%% from 'm' import %s, %s as %s, %s with context %%}" % (imps[0], imps[1], ns[8], imps[2]))
    parts.append("{%% for %s in %s %%}{%% with %s = 1, %s = 2 %%}{%% set %s = 3 %%}{%% set %s = 4 %%}"
                 "{%% include 'i' %%}{%% import 'm' as %s with context %%}{%% endwith %%}{%% endfor %%}"
                 % (ns[9], ns[10], ns[4], ns[5], ns[6], ns[7], ns[11]))
    parts.append("{%% macro %s(%s, %s=1) %%}{{ varargs }}{{ kwargs }}{{ caller() }}{{ %s }}{{ %s }}{{ %s }}"
                 "{%% endmacro %%}" % (ns[8] + "m", ns[0], ns[1], ns[2], ns[9], ns[10]))
    parts.append("{%% block %s %%}{{ %s }}{{ %s }}{{ %s }}{%% endblock %%}" % (ns[3] + "b", ns[4], ns[5], ns[10]))
    parts.append("{%% set %s %%}{{ %s }}{{ %s }}{%% endset %%}" % (ns[11] + "s", ns[0], ns[6]))
    tv = rng.sample(NAMES, 4)
    parts.append("{%% trans %%}x {{ %s }} y {{ %s }} z {{ %s }} {{ %s }}{%% endtrans %%}" % tuple(tv))
    parts.append("{%% trans n=%s %%}one {{ %s }} {{ %s }}{%% pluralize %%}many {{ %s }} {{ %s }} {{ n }}{%% endtrans %%}"
                 % (tv[0], tv[1], tv[2], tv[2], tv[3]))
    nsn = rng.sample(NAMES, 4)
    parts.append("{%% set %s = namespace() %%}{%% set %s = namespace() %%}{%% set %s = namespace() %%}"
                 "{%% set %s.x, %s.y, %s.z, %s = 1, 2, 3, 4 %%}" % (nsn[0], nsn[1], nsn[2], nsn[0], nsn[1], nsn[2], nsn[3]))
    br = rng.sample(NAMES, 5)
    parts.append("{%% if %s %%}{%% set %s = 1 %%}{%% set %s = 1 %%}{%% set %s = 1 %%}{%% set %s = 1 %%}{%% endif %%}"
                 "{{ %s }}{{ %s }}{{ %s }}{{ %s }}" % (br[0], br[1], br[2], br[3], br[4], br[1], br[2], br[3], br[4]))
    # filters applied to CONSTANTS: the optimizer writes their results into the generated source
    consts = ['"see http://example.com/ and www.x.org"|urlize(nofollow=true)',
              '"http://a.b/"|urlize(rel="external author", target="_blank")',
              '"mailto:a@b.c http://d.e/"|urlize(40, true, extra_schemes=["mailto:"])',
              '{"b": 1, "a": 2, "c": [3]}|xmlattr', '{"b": 1, "a": {"z": 1, "y": 2}}|tojson',
              '["b", "A", "a", "B"]|unique|list', '{"b": 1, "A": 2}|dictsort', '[3, 1, 2]|sort|join(",")',
              '"a b c a"|wordcount', '{"k": 1, "j": 2}|items|list', '[1, 2, 3, 4]|batch(3, "x")|list',
              '{"x": {1, 2, 3}|list|length}', '"%s-%s"|format("a", "b")', '{1: "a", 2: "b"}|length',
              '["x", "y"]|map("upper")|list', '[{"k": "b"}, {"k": "a"}]|groupby("k")|list|length']
    for c in rng.sample(consts, 5):
        parts.append("{{ %s }}" % c)
    rng.shuffle(parts)
    return "".join(parts)


def configs():
    return [("default", {}), ("async", {"enable_async": True}), ("sandbox", {"sandbox": True})]


def digests_for(sources):
    """Runs in a (child) process: digest per (config, index)."""
    core.ensure_repo()
    import jinja2
    from jinja2.sandbox import SandboxedEnvironment

    out = []
    for cname, kw in configs():
        kw = dict(kw)
        cls = SandboxedEnvironment if kw.pop("sandbox", False) else jinja2.Environment
        env = cls(extensions=corpus.EXTENSIONS + ["jinja2.ext.i18n", "jinja2.ext.do"], **kw)
        for src in sources:
            try:
                code = env.compile(src, name="t", filename="t.html", raw=True)
                out.append(hashlib.sha256(code.encode("utf-8", "surrogatepass")).hexdigest())
            except Exception as e:
                out.append("EXC:" + type(e).__name__)
    return out


def child_main(path):
    with open(path) as f:
        sources = json.load(f)
    print(json.dumps(digests_for(sources)))


def run(ctx):
    rng = ctx.rng("c30")
    n = 120 if ctx.tier == "quick" else 3000
    sources = []
    for i in range(n):
        if i % 2 == 0:
            sources.append(det_template(rng))
        else:
            case = corpus.gen_case(rng)
            sources.extend(corpus.sources(case).values())
    seeds = ["0", "1", "2", "3", "random"] + (["4", "17", "123456", "random"] if ctx.tier == "thorough" else [])
    tmpd = tempfile.mkdtemp(prefix="vt_c30_")
    try:
        path = os.path.join(tmpd, "src.json")
        with open(path, "w") as f:
            json.dump(sources, f)
        results = {}
        first = digests_for(sources)
        second = digests_for(sources)
        results["inproc1"] = first
        results["inproc2"] = second
        for si, hs in enumerate(seeds):
            env = core.child_env()
            env["PYTHONHASHSEED"] = hs
            r = subprocess.run([core.PY, "-c", "import sys; from vt.checks import c30; c30.child_main(sys.argv[1])", path],
                               cwd=core.VERIF, env=env, capture_output=True, text=True, timeout=900)
            if r.returncode != 0:
                ctx.inconc(f"child with hash seed {hs} failed: {r.stderr[-400:]}")
                continue
            results[f"seed{si}:{hs}"] = json.loads(r.stdout.strip().splitlines()[-1])
            ctx.count("hash_seeds")
    finally:
        import shutil

        shutil.rmtree(tmpd, ignore_errors=True)
    ncfg = len(configs())
    for ci, (cname, _) in enumerate(configs()):
        for i, src in enumerate(sources):
            idx = ci * len(sources) + i
            ds = {k: v[idx] for k, v in results.items()}
            ctx.ev(len(ds))
            ctx.count("digest_sets_compared")
            if len(set(ds.values())) != 1:
                which = "stores" if "{% set" in src else "other"
                ctx.violation(f"nondeterministic-codegen:{cname}",
                              f"digests differ {ds} for source {src!r}", {"source": src, "config": cname})
            if ci == 0 and (src.count("{% set") >= 3 or src.count("|") + src.count(" is ") >= 3):
                ctx.dist(src)
    ctx.sample({"source": sources[0], "hash_seeds": seeds})


def replay(ctx, case):
    src = [case["source"]]
    a = digests_for(src)
    env = core.child_env()
    outs = {"inproc": a}
    tmpd = tempfile.mkdtemp(prefix="vt_c30_")
    path = os.path.join(tmpd, "s.json")
    json.dump(src, open(path, "w"))
    for hs in ("0", "1", "2", "3", "5", "random"):
        env["PYTHONHASHSEED"] = hs
        r = subprocess.run([core.PY, "-c", "import sys; from vt.checks import c30; c30.child_main(sys.argv[1])", path],
                           cwd=core.VERIF, env=env, capture_output=True, text=True)
        outs[hs] = json.loads(r.stdout.strip().splitlines()[-1])
    import shutil

    shutil.rmtree(tmpd, ignore_errors=True)
    if len({json.dumps(v) for v in outs.values()}) != 1:
        ctx.violation("nondeterministic-codegen", str(outs), case)
