"""C13 — equivalent syntax configurations render identically; environments are isolated."""
from __future__ import annotations

from vt import util
from vt.gen import corpus, jast, stmtgen

PID = "C13"
LEVEL = "exploration"
TECHNIQUE = "metamorphic monitor: the same program printed under translated syntax configurations and construction paths, rendered by the real engine, with shared-cache stress interleaved"
RULE = ("generated programs printed (a) with alternative delimiter sets (multi-character, shared-prefix "
        "<% / <%=, angle-bracket, bracket), (b) in line-oriented form with whole-line tags/comments as "
        "{% %}/{# #} lines vs line statements / line comments under trim_blocks+lstrip_blocks, where text lines also carry constructs that keep their "
        "block delimiters in both forms (raw blocks with one-line / multi-line payloads, inline comments, inline "
        "set / if tags) in every body, so that whole-line tags, end tags and comments of any indentation directly "
        "follow a line ENDING in endraw / an inline comment / an inline tag, (c) through "
        "Template(src, **opts) vs Environment(**opts).from_string, (d) through overlay(**same) chains of "
        "depth <= 3; outputs must be equal. Isolation: the first environment is re-rendered after > 60 "
        "other lexer configurations and > 10 Template(...) argument sets were used. distinct = program "
        "shapes x translation kind")
LEVEL_TEXT = "held on the generated programs and the listed configurations only"
ASSUMPTIONS = [
    "text runs and string literals contain none of the delimiter strings in play",
    "line-oriented templates end with a text line; tags are not followed by blank lines "
    "(blank and whitespace-only lines BEFORE whole-line tags are generated: they are text in both forms)",
]
NSHARDS = {"quick": 16, "thorough": 16}
BUDGET_S = {"quick": 20, "thorough": 500}
FLOORS = {
    "quick": {"evaluations": 3000, "distinct": 400,
              "counters": {"delimiter_compares": 800, "linestatement_compares": 300,
                           "linestatement_blank_lines_before_tags": 60,
                           "linestatement_tag_after_line_ending_in_endraw": 65,
                           "linestatement_indented_tag_after_line_ending_in_endraw": 40,
                           "linestatement_tag_after_line_ending_in_inline_tag_or_comment": 70,
                           "linestatement_indented_tag_after_line_ending_in_inline_tag_or_comment": 40,
                           "template_ctor_compares": 300, "overlay_compares": 300,
                           "isolation_rerenders": 150, "lexer_configs_interleaved": 60,
                           "pair_order_checks": 60, "overlay_divergent_option_checks": 100,
                           "overlay_inherits_option_checks": 100, "overlay_resets_option_checks": 30,
                           "template_ctor_option_checks": 100}},
    "thorough": {"evaluations": 60000, "distinct": 6000,
                 "counters": {"delimiter_compares": 16000, "linestatement_compares": 6000,
                              "linestatement_blank_lines_before_tags": 1200,
                              "linestatement_tag_after_line_ending_in_endraw": 1300,
                              "linestatement_indented_tag_after_line_ending_in_endraw": 800,
                              "linestatement_tag_after_line_ending_in_inline_tag_or_comment": 1400,
                              "linestatement_indented_tag_after_line_ending_in_inline_tag_or_comment": 800,
                              "template_ctor_compares": 6000, "overlay_compares": 6000,
                              "isolation_rerenders": 3000, "lexer_configs_interleaved": 60,
                              "pair_order_checks": 60, "overlay_divergent_option_checks": 100,
                              "overlay_inherits_option_checks": 100, "overlay_resets_option_checks": 30,
                              "template_ctor_option_checks": 100}},
}

SYNTAXES = {
    "angle": jast.Syntax("<%", "%>", "${", "}", "<#", "#>"),
    "sharedprefix": jast.Syntax("<%", "%>", "<%=", "%>", "<%#", "%>"),
    "bracket": jast.Syntax("[%", "%]", "[[", "]]", "[#", "#]"),
    "long": jast.Syntax("{%%", "%%}", "{{{", "}}}", "{##", "##}"),
    "xml": jast.Syntax("<?", "?>", "<<", ">>", "<!--", "-->"),
    "at": jast.Syntax("@@", "@@", "$(", ")$", "@#", "#@"),
}


def texts_and_strings(case):
    out = []
    for b in case["asts"].values():
        def fn(st):
            if st[0] in ("text", "raw", "comment"):
                out.append(st[1])
            for e in jast.stmt_exprs(st):
                jast.walk_expr(e, lambda x: out.append(x[1]) if x[0] == "const" and isinstance(x[1], str) else None)
        jast.walk_stmts(b, fn)
    return out


def conflict(case, sx):
    """A text run or string literal that contains a delimiter, or ends with
    the beginning of one (text `[` directly before `[[`), makes the
    translated source ambiguous."""
    toks = {sx.bs, sx.be, sx.vs, sx.ve, sx.cs, sx.ce}
    for s in texts_and_strings(case):
        if not s:
            continue
        for t in toks:
            if t in s:
                return True
            for k in range(1, len(t)):
                if s.endswith(t[:k]) or s.startswith(t[-k:]):
                    return True
    return False


def render_with(case, sx, **kw):
    import jinja2

    srcs = corpus.sources(case, sx)
    env = jinja2.Environment(loader=jinja2.DictLoader(srcs), extensions=corpus.EXTENSIONS, **sx.env_kwargs(), **kw)
    env.globals.update(case["globals"])
    return util.capture(lambda: env.get_template(case["main"]).render(corpus.realize_data(case, env))), srcs, env


def same(a, b):
    return (a.ok and b.ok and a.value == b.value) or (not a.ok and not b.ok and type(a.exc) is type(b.exc))


def expr_texts_conflict(srcs, sx):
    """An end delimiter appearing inside an expression (e.g. `}` closing a dict
    literal under `${ }`) makes the translated source ambiguous: skip."""
    return False


# ------------------------------------------------------------------ line-oriented form
def inline_src(st):
    """Source of a construct that stays written with block delimiters INSIDE a text line in both forms."""
    if st[0] == "raw":
        return "{% raw %}" + st[1] + "{% endraw %}"
    sub, arg = st[1], st[2]
    if sub == "comment":
        return "{# " + arg + " #}"
    if sub == "set":
        return "{% set zq = " + str(arg) + " %}"
    if sub == "if":
        return "{% if true %}" + arg + "{% endif %}"
    raise ValueError(sub)


def line_form(body, style, indent_rng, prefix="#", cprefix="##", multiline=False, blanks=False, stats=None):
    """Print a statement list line by line.  style 'tags': {% %} tags and
    {# #} comments on their own lines; style 'line': line statements/comments.
    blanks: empty and whitespace-only lines in front of some whole-line tags (text, in both forms).
    Statements ["raw", s] / ["inline", sub, arg] are part of the running text line in both forms.
    stats (dict): counts whole-line tags/comments that directly follow a text line ending in such a construct."""
    lines = []
    text_line = [False]    # is the last line a text line?
    line_end = [None]      # kind of the construct the last text line ends with (None: text / {{ }})

    def note(ind):
        if stats is not None and text_line[0] and line_end[0] is not None:
            k = "after_" + line_end[0] + ("_indented" if ind else "")
            stats[k] = stats.get(k, 0) + 1

    def tag(s, ind):
        # blank lines only after TEXT lines: whole-line tags followed by blank lines are outside
        # the property's quantifier (the line-statement end swallows them, undocumented)
        if blanks and text_line[0] and len(lines) % 3 != 0:
            lines.extend([["", "   ", "", "\t"][len(lines) % 4]] * (1 + len(lines) % 2))
        else:
            note(ind)
        text_line[0] = False
        if style == "tags":
            lines.append(ind + "{% " + s + " %}")
        else:
            lines.append(ind + prefix + " " + s)

    def comment(s, ind):
        note(ind)
        text_line[0] = False
        if style == "tags":
            lines.append(ind + "{# " + s + " #}")
        else:
            lines.append(ind + cprefix + " " + s)

    def emit(body, depth):
        cur = []

        def flush():
            if cur:
                lines.append("".join(c for c, _ in cur))
                text_line[0] = True
                line_end[0] = cur[-1][1]
                del cur[:]

        for st in body:
            ind = " " * indent_rng[len(lines) % len(indent_rng)]
            k = st[0]
            if k == "text":
                cur.append((st[1], cur[-1][1] if cur and not st[1] else None))
            elif k == "out":
                cur.append(("{{ " + jast.pe_root(st[1]) + " }}", None))
            elif k == "raw":
                cur.append((inline_src(st), "endraw"))
            elif k == "inline":
                cur.append((inline_src(st), "inline_" + st[1]))
            elif k == "comment":
                flush()
                comment(st[1], ind)
            elif k == "if":
                flush()
                for i, (c, b) in enumerate(st[1]):
                    tag(("if " if i == 0 else "elif ") + jast.pe_root(c, jast.P_OR), ind)
                    emit(b, depth + 1)
                if st[2] is not None:
                    tag("else", ind)
                    emit(st[2], depth + 1)
                tag("endif", ind)
            elif k == "for":
                flush()
                h = "for " + ", ".join(st[1]) + " in " + jast.pe(st[2], jast.P_OR)
                if st[5] is not None:
                    h += " if " + jast.pe(st[5], jast.P_OR)
                tag(h, ind)
                emit(st[3], depth + 1)
                if st[4] is not None:
                    tag("else", ind)
                    emit(st[4], depth + 1)
                tag("endfor", ind)
            elif k == "set":
                flush()
                val = jast.pe(st[2])
                if multiline and len(lines) % 3 == 0:
                    # documented: a line statement may span lines while brackets are open
                    tag(f"set {st[1]} = [{val},\n      {st[1]}|default(0)][\n  0]", ind)
                else:
                    tag(f"set {st[1]} = {val}", ind)
            elif k == "with":
                flush()
                tag("with " + ", ".join(f"{n} = {jast.pe(v)}" for n, v in st[1]), ind)
                emit(st[2], depth + 1)
                tag("endwith", ind)
            elif k == "macro":
                flush()
                tag(f"macro {st[1]}({jast._sig(st[2])})", ind)
                emit(st[3], depth + 1)
                tag("endmacro", ind)
            else:
                raise ValueError(k)
        flush()

    emit(body, 0)
    lines.append("[end]")
    return "\n".join(lines) + "\n"


def line_program(rng):
    opts = stmtgen.Opts(callblocks=False, filterblocks=False, setblocks=False, namespaces=False,
                        loopcontrols=False, recursive=False, max_stmts=14)
    g = stmtgen.SGen(rng, opts)
    body = g.program()
    # sprinkle whole-line comments
    def add_comments(b):
        out = []
        for st in b:
            if rng.random() < 0.15:
                out.append(["comment", "note " + str(rng.randint(0, 99))])
            out.append(st)
        return out
    return add_inline(rng, add_comments(body)), stmtgen.make_data(rng)


RAW_PAYLOADS = ["r #1", "\n$x$\n", "{{ no var }}", "a\n  b", "", "<b>&</b>", "x\n", "\n# no stmt\ny", "{# no c #}"]


def inline_construct(rng):
    """A construct written with block delimiters in BOTH forms, sitting inside a text line: raw block
    (one-line / multi-line payload), inline comment, inline set, inline if."""
    r = rng.random()
    if r < 0.5:
        return ["raw", rng.choice(RAW_PAYLOADS)]
    sub = rng.choice(["comment", "set", "if"])
    return ["inline", sub, {"comment": "c%d" % rng.randint(0, 9), "set": rng.randint(0, 9),
                            "if": "y%d" % rng.randint(0, 9)}[sub]]


def add_inline(rng, b, p=0.2):
    """Sprinkle inline constructs through all bodies (in front of any statement and at the end of a
    body), so that text lines END with endraw / an inline comment / an inline tag right before a
    whole-line tag, end tag or comment of any indentation."""
    out = []
    for st in b:
        st = list(st)
        if st[0] == "if":
            st[1] = [[c, add_inline(rng, bb, p)] for c, bb in st[1]]
            st[2] = None if st[2] is None else add_inline(rng, st[2], p)
        elif st[0] == "for":
            st[3] = add_inline(rng, st[3], p)
            st[4] = None if st[4] is None else add_inline(rng, st[4], p)
        elif st[0] == "with":
            st[2] = add_inline(rng, st[2], p)
        elif st[0] == "macro":
            st[3] = add_inline(rng, st[3], p)
        if rng.random() < p:
            out.append(inline_construct(rng))
        out.append(st)
    if rng.random() < p:
        out.append(inline_construct(rng))
    return out


def has_callstmt(body):
    found = []
    jast.walk_stmts(body, lambda s: found.append(1) if s[0] in ("callblock", "setblock", "filterblock", "setns", "break", "continue") else None)
    return bool(found)


def check_lines(ctx, rng):
    import jinja2

    body, data = line_program(rng)
    if has_callstmt(body):
        return
    ind = [rng.choice([0, 0, 2, 4]) for _ in range(5)]
    ml = rng.random() < 0.5
    bl = rng.random() < 0.5
    stats = {}
    a_src = line_form(body, "tags", ind, multiline=ml, blanks=bl, stats=stats)
    pfx, cpfx = rng.choice([("#", "##"), ("%%", "//"), ("@", "@@")])
    b_src = line_form(body, "line", ind, pfx, cpfx, multiline=ml, blanks=bl)
    if ml:
        ctx.count("linestatement_multiline_brackets")
    if bl and "\n\n" in a_src:
        ctx.count("linestatement_blank_lines_before_tags")
    # whole-line tags / comments directly below a text line that ENDS in a block-delimited construct
    if any(k.startswith("after_endraw") for k in stats):
        ctx.count("linestatement_tag_after_line_ending_in_endraw")
    if stats.get("after_endraw_indented"):
        ctx.count("linestatement_indented_tag_after_line_ending_in_endraw")
    if any(k.startswith("after_inline") for k in stats):
        ctx.count("linestatement_tag_after_line_ending_in_inline_tag_or_comment")
    if any(k.startswith("after_inline") and k.endswith("_indented") for k in stats):
        ctx.count("linestatement_indented_tag_after_line_ending_in_inline_tag_or_comment")
    A = jinja2.Environment(trim_blocks=True, lstrip_blocks=True)
    B = jinja2.Environment(trim_blocks=True, lstrip_blocks=True, line_statement_prefix=pfx,
                           line_comment_prefix=cpfx)
    a = util.capture(lambda: A.from_string(a_src).render(**data))
    b = util.capture(lambda: B.from_string(b_src).render(**data))
    ctx.ev(2)
    ctx.count("linestatement_compares")
    has_comment = any(s[0] == "comment" for s in _flat(body))
    ctx.dist(["line", a_src])
    if not same(a, b):
        key = "linestatement:differs"
        if has_comment:
            # delta: does the difference disappear without the whole-line comments?
            nb = _strip_comments(body)
            a2 = util.capture(lambda: A.from_string(line_form(nb, "tags", ind, multiline=ml, blanks=bl)).render(**data))
            b2 = util.capture(lambda: B.from_string(line_form(nb, "line", ind, pfx, cpfx, multiline=ml, blanks=bl)).render(**data))
            if same(a2, b2):
                key = "linecomment:whole-line-comment-leaves-newline"
        ctx.violation(key, f"tags {a!r} vs line statements {b!r} | A={a_src!r} B={b_src!r}",
                      {"kind": "lines", "body": body, "data": data, "indent": ind, "prefix": [pfx, cpfx], "ml": ml, "bl": bl})


def _flat(body):
    out = []
    jast.walk_stmts(body, out.append)
    return out


def _strip_comments(body):
    out = []
    for st in body:
        if st[0] == "comment":
            continue
        st = list(st)
        if st[0] == "if":
            st[1] = [[c, _strip_comments(b)] for c, b in st[1]]
            st[2] = None if st[2] is None else _strip_comments(st[2])
        elif st[0] == "for":
            st[3] = _strip_comments(st[3])
            st[4] = None if st[4] is None else _strip_comments(st[4])
        elif st[0] == "with":
            st[2] = _strip_comments(st[2])
        elif st[0] == "macro":
            st[3] = _strip_comments(st[3])
        out.append(st)
    return out


# ------------------------------------------------------------------ main check
OPTSETS = [
    {}, {"trim_blocks": True}, {"lstrip_blocks": True}, {"trim_blocks": True, "lstrip_blocks": True},
    {"keep_trailing_newline": True}, {"newline_sequence": "\r\n"}, {"autoescape": True},
    {"optimized": False},
]


def check_case(ctx, case, rng, churn):
    import jinja2

    base, srcs0, env0 = render_with(case, jast.DEFAULT)
    ctx.ev()
    rec = lambda extra: {"kind": "case", "case": case, **extra}
    # (a) delimiter translations
    for name, sx in SYNTAXES.items():
        try:
            if conflict(case, sx):
                ctx.count("delimiter_conflict_skips")
                continue
        except Exception:
            continue
        o, srcs, _ = render_with(case, sx)
        ctx.ev()
        ctx.count("delimiter_compares")
        if not same(base, o):
            # a translated source can be ambiguous when an expression contains the end delimiter
            body_txt = "".join(srcs.values())
            amb = any(d in jast.pe(e) for b in case["asts"].values() for st in _flat(b)
                      for e in jast.stmt_exprs(st) for d in (sx.ve, sx.be))
            if amb:
                ctx.count("delimiter_ambiguous_skips")
                continue
            ctx.violation("delimiters:" + name, f"default {base!r} vs {name} {o!r} | {srcs}",
                          rec({"syntax": name}))
        ctx.dist([name, corpus.shape(case)])
    # (c) Template constructor vs Environment.from_string (single-template programs)
    if len(case["asts"]) == 1 and not case["globals"]:
        opts = dict(rng.choice(OPTSETS))
        src = srcs0[case["main"]]
        e = jinja2.Environment(extensions=corpus.EXTENSIONS, **opts)
        a = util.capture(lambda: e.from_string(src).render(corpus.realize_data(case, e)))
        b = util.capture(lambda: jinja2.Template(src, extensions=corpus.EXTENSIONS, **opts)
                         .render(corpus.realize_data(case, e)))
        ctx.ev(2)
        ctx.count("template_ctor_compares")
        if not same(a, b):
            ctx.violation("template-ctor:" + "+".join(sorted(opts)), f"Environment {a!r} vs Template {b!r} | {src!r} {opts}",
                          rec({"opts": opts}))
    # (d) overlay chains
    opts = dict(rng.choice(OPTSETS))
    e = jinja2.Environment(loader=jinja2.DictLoader(srcs0), extensions=corpus.EXTENSIONS, **opts)
    e.globals.update(case["globals"])
    a = util.capture(lambda: e.get_template(case["main"]).render(corpus.realize_data(case, e)))
    ov = e
    for _ in range(rng.randint(1, 3)):
        ov = ov.overlay(**opts)
    b = util.capture(lambda: ov.get_template(case["main"]).render(corpus.realize_data(case, ov)))
    ctx.ev(2)
    ctx.count("overlay_compares")
    if not same(a, b):
        ctx.violation("overlay:" + "+".join(sorted(opts)), f"env {a!r} vs overlay {b!r} | {srcs0} {opts}",
                      rec({"opts": opts}))
    # isolation: churn other configurations, then re-render in the very first environment
    churn()
    again = util.capture(lambda: env0.get_template(case["main"]).render(corpus.realize_data(case, env0)))
    fresh = util.capture(lambda: env0.from_string(srcs0[case["main"]]).render(corpus.realize_data(case, env0))) \
        if len(case["asts"]) == 1 else again
    ctx.ev(2)
    ctx.count("isolation_rerenders")
    if not same(base, again) or not same(base, fresh):
        ctx.violation("isolation:rerender-differs", f"before {base!r} after churn {again!r} / recompiled {fresh!r} | {srcs0}",
                      rec({}))


def make_churn(ctx, rng):
    import jinja2

    state = {"n": 0}
    delims = ["<%", "[%", "{%", "<?", "@@", "(%", "<<%", "{{%", "[[%", "~%"]

    def churn():
        # > 50 distinct lexer keys overflow the lexer cache; > 10 Template() argument sets
        # overflow the spontaneous-environment cache
        for j in range(6):
            state["n"] += 1
            n = state["n"]
            bs = delims[n % len(delims)] + "x" * (n % 7)
            try:
                e = jinja2.Environment(block_start_string=bs, block_end_string="%" + ">" * (1 + n % 3),
                                       variable_start_string="${" + "{" * (n % 2), variable_end_string="}" + "}" * (n % 2),
                                       comment_start_string="<#" + "#" * (n % 4), comment_end_string="#>",
                                       trim_blocks=bool(n % 2), lstrip_blocks=bool(n % 3),
                                       keep_trailing_newline=bool(n % 5 == 0))
                e.from_string("a " + bs + " if x %" + ">" * (1 + n % 3) + "b" + bs + " endif %" + ">" * (1 + n % 3)).render(x=1)
                # (a comment delimiter nobody else uses keeps these lexer keys apart
                # from the configurations under test)
                jinja2.Template("{{ v }}", comment_start_string="{##", comment_end_string="##}",
                                trim_blocks=bool(n % 2), newline_sequence=["\n", "\r\n", "\r"][n % 3],
                                keep_trailing_newline=bool(n % 4 == 0), optimized=bool(n % 5)).render(v=n)
                ctx.count("lexer_configs_interleaved")
            except Exception as ex:
                ctx.count("churn_errors")
    return churn


PAIR_DIMS = [
    ("trim_blocks", {"trim_blocks": True}, "{% if true %}\nx\n{% endif %}\ny"),
    ("lstrip_blocks", {"lstrip_blocks": True}, "  {% if true %}\nx\n  {% endif %}y"),
    ("keep_trailing_newline", {"keep_trailing_newline": True}, "x\n"),
    ("newline_sequence", {"newline_sequence": "\r\n"}, "a\nb\nc"),
    ("line_statement_prefix", {"line_statement_prefix": "#"}, "# if true\nx\n# endif\ny"),
    ("line_comment_prefix", {"line_comment_prefix": "##"}, "x ## c\ny"),
    ("variable_start_string", {"variable_start_string": "${", "variable_end_string": "}"}, "${ 1 }{{ 2 }}"),
    ("block_start_string", {"block_start_string": "<%", "block_end_string": "%>"}, "<% if true %>a<% endif %>{% raw %}b{% endraw %}"),
    ("comment_start_string", {"comment_start_string": "<#", "comment_end_string": "#>"}, "a<# c #>b{# d #}"),
    # environments that differ in exactly ONE delimiter string
    ("only:variable_end_string", {"variable_end_string": "}}$"}, "{{ 1 }}$x{{ 2 }}$"),
    ("only:variable_start_string", {"variable_start_string": "${{"}, "${{ 1 }}y"),
    ("only:block_end_string", {"block_end_string": "%}$"}, "{% if true %}$a{% endif %}$"),
    ("only:block_start_string", {"block_start_string": "${%"}, "${% if true %}a${% endif %}"),
    ("only:comment_end_string", {"comment_end_string": "#}$"}, "a{# c #}$b"),
    ("only:comment_start_string", {"comment_start_string": "${#"}, "a${# c #}b"),
]

OVERLAY_DIMS = [d for d in PAIR_DIMS if not d[0].startswith("only:")]


def check_overlays(ctx, rng):
    """An overlay with DIFFERENT options and the environment it came from load the
    same template name from the same loader; whatever the order, each must render
    the name exactly as a fresh, unrelated environment with its options does."""
    import jinja2

    for name, delta, src in OVERLAY_DIMS:
        def fresh(opts):
            def f():
                try:
                    return jinja2.Environment(loader=jinja2.DictLoader({"t": src}), **opts).get_template("t").render()
                except jinja2.TemplateSyntaxError:
                    return "TSE"
            return util.capture(f)

        want_base, want_ov = fresh({}), fresh(delta)

        # the Template constructor with the same option renders the option-sensitive source alike
        def ctor():
            try:
                return jinja2.Template(src, **delta).render()
            except jinja2.TemplateSyntaxError:
                return "TSE"
        tc = util.capture(ctor)
        ctx.ev()
        ctx.count("template_ctor_option_checks")
        if not same(tc, want_ov):
            ctx.violation("template-ctor:ignores-option:" + name,
                          f"Template(src, **{delta}).render() {tc!r}; Environment(**{delta}) renders {want_ov!r} "
                          f"for {src!r}", {"kind": "overlaydim", "dim": name})
        for order in ("base-first", "overlay-first", "base-first:used-base", "overlay-first:used-base"):
            def get(e):
                def f():
                    try:
                        return e.get_template("t").render()
                    except jinja2.TemplateSyntaxError:
                        return "TSE"
                return util.capture(f)

            base = jinja2.Environment(loader=jinja2.DictLoader({"t": src}))
            if order.endswith("used-base"):
                # the base environment has already lexed / compiled something when the overlay is made
                base.from_string("{{ 1 }}").render()
                list(base.lex("a {{ b }}"))
            ov = base.overlay(**delta)
            if order.startswith("base-first"):
                b, o = get(base), get(ov)
            else:
                o, b = get(ov), get(base)
            again_b, again_o = get(base), get(ov)
            fs = util.capture(lambda: ov.from_string(src).render())
            fs_want = util.capture(lambda: jinja2.Environment(**delta).from_string(src).render())
            lx = util.capture(lambda: [(t[1], t[2]) for t in ov.lex(src)])
            lx_want = util.capture(lambda: [(t[1], t[2]) for t in jinja2.Environment(**delta).lex(src)])
            if not same(fs, fs_want) or not same(lx, lx_want):
                ctx.violation("overlay:shares-state:lexer:" + name,
                              f"{order}: overlay.from_string {fs!r} (want {fs_want!r}); overlay.lex {lx!r} (want {lx_want!r}) "
                              f"for {src!r} with overlay options {delta}", {"kind": "overlaydim", "dim": name})
            ctx.ev(4)
            ctx.count("overlay_divergent_option_checks")
            if not (same(b, want_base) and same(o, want_ov) and same(again_b, want_base) and same(again_o, want_ov)):
                ctx.violation("overlay:shares-state:" + name,
                              f"{order}: base {b!r}/{again_b!r} (want {want_base!r}), overlay {o!r}/{again_o!r} "
                              f"(want {want_ov!r}) for {src!r} with overlay options {delta}",
                              {"kind": "overlaydim", "dim": name})
        # inheritance: an overlay made WITHOUT repeating an option of its base (or repeating only
        # other options) renders like a fresh environment with the base's options
        base2 = jinja2.Environment(loader=jinja2.DictLoader({"t": src}), **delta)
        for how, mk in (("overlay()", lambda: base2.overlay()),
                        ("overlay().overlay()", lambda: base2.overlay().overlay()),
                        ("overlay(cache_size=0)", lambda: base2.overlay(cache_size=0)),
                        ("overlay(autoescape=False)", lambda: base2.overlay(autoescape=False)),
                        ("overlay(extensions=[])", lambda: base2.overlay(extensions=[]))):
            ov2 = util.capture(mk)
            got = get(ov2.value) if ov2.ok else ov2
            fs2 = util.capture(lambda: ov2.value.from_string(src).render()) if ov2.ok else ov2
            ctx.ev(2)
            ctx.count("overlay_inherits_option_checks")
            if not (same(got, want_ov) and same(fs2, fs_want)):
                ctx.violation("overlay:does-not-inherit:" + name,
                              f"Environment(**{delta}).{how}: get_template {got!r}, from_string {fs2!r}; a fresh "
                              f"environment with these options renders {want_ov!r} for {src!r}",
                              {"kind": "overlaydim", "dim": name})
                break
        # an overlay may reset an inherited option to None where None is a documented value
        if name in ("line_statement_prefix", "line_comment_prefix"):
            for how, mk in (("overlay(%s=None)" % name, lambda: base2.overlay(**{name: None})),
                            ("overlay().overlay(%s=None)" % name, lambda: base2.overlay().overlay(**{name: None}))):
                ov3 = util.capture(mk)
                got = get(ov3.value) if ov3.ok else ov3
                ctx.ev()
                ctx.count("overlay_resets_option_checks")
                if not same(got, want_base):
                    ctx.violation("overlay:does-not-reset:" + name,
                                  f"Environment(**{delta}).{how}: get_template {got!r}; an environment without the "
                                  f"option renders {want_base!r} for {src!r}", {"kind": "overlaydim", "dim": name})
                    break
        ctx.dist(["overlaydim", name])


def check_pairs(ctx, rng, churn):
    """Order independence: two environments that differ in ONE lexer-relevant
    option are used in both orders (shared caches flushed in between by
    creating > 50 other configurations); every (configuration, source) must
    render the same in both orders.  A cache keyed without that option hands
    the second environment the first one's lexer."""
    import jinja2

    base_opts = dict(rng.choice([{}, {"trim_blocks": True}, {"lstrip_blocks": True, "keep_trailing_newline": True}]))
    for name, delta, src in PAIR_DIMS:
        if any(k in base_opts for k in delta):
            continue
        P = dict(base_opts)
        Q = {**base_opts, **delta}

        def one(opts):
            def f():
                try:
                    return jinja2.Environment(**opts).from_string(src).render()
                except jinja2.TemplateSyntaxError as e:
                    return "TSE"
            return util.capture(f)

        for _ in range(10):
            churn()
        p1, q1 = one(P), one(Q)
        for _ in range(10):
            churn()
        q2, p2 = one(Q), one(P)
        ctx.ev(4)
        ctx.count("pair_order_checks")
        if not same(p1, p2) or not same(q1, q2):
            ctx.violation("isolation:order-dependent:" + name,
                          f"configs {P} / {Q} on {src!r}: first order gave {p1!r},{q1!r}; reverse order gave {p2!r},{q2!r}",
                          {"kind": "pair", "dim": name, "base": base_opts})
        ctx.dist(["pair", name, sorted(base_opts)])


def run(ctx):
    rng = ctx.rng("c13")
    n = 400 if ctx.tier == "quick" else 9000
    churn = make_churn(ctx, rng)
    i = 0
    check_pairs(ctx, rng, churn)
    check_overlays(ctx, rng)
    while ctx.more(i, n, floor=40):
        case = corpus.gen_case(rng)
        check_case(ctx, case, rng, churn)
        check_lines(ctx, rng)
        if i < 2:
            ctx.sample({"default": corpus.sources(case), "angle": corpus.sources(case, SYNTAXES["angle"])})
        i += 1


def replay(ctx, case):
    import random

    rng = random.Random(0)
    if case.get("kind") == "overlaydim":
        check_overlays(ctx, rng)
        return
    if case.get("kind") == "pair":
        check_pairs(ctx, rng, make_churn(ctx, rng))
        return
    if case.get("kind") == "lines":
        import jinja2

        body, data, ind = case["body"], case["data"], case["indent"]
        pfx, cpfx = case["prefix"]
        A = jinja2.Environment(trim_blocks=True, lstrip_blocks=True)
        B = jinja2.Environment(trim_blocks=True, lstrip_blocks=True, line_statement_prefix=pfx, line_comment_prefix=cpfx)
        ml = case.get("ml", False)
        bl = case.get("bl", False)
        a = util.capture(lambda: A.from_string(line_form(body, "tags", ind, multiline=ml, blanks=bl)).render(**data))
        b = util.capture(lambda: B.from_string(line_form(body, "line", ind, pfx, cpfx, multiline=ml, blanks=bl)).render(**data))
        if not same(a, b):
            ctx.violation("linestatement", f"{a!r} vs {b!r}", case)
    else:
        check_case(ctx, case["case"], rng, make_churn(ctx, rng))
